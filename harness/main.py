#!/venv/bin/python
"""./check Cxx [--tier quick|thorough] [--replay file]  — see DESIGN.md §1.3"""
import os, sys, json, time, random, argparse, importlib, traceback, collections
sys.path.insert(0, os.path.dirname(os.path.abspath(__file__)))
import common as C


def load_corpus(pid):
    d = C.VERIF / 'corpus' / pid
    cases = []
    if d.is_dir():
        for p in sorted(d.glob('*.json')):
            obj = json.loads(p.read_text())
            items = obj if isinstance(obj, list) else [obj]
            for it in items:
                it = C.unhex(it)
                it.setdefault('origin', 'corpus:' + p.name)
                cases.append(it)
    return cases


class ImplHang(BaseException):
    """raised by the per-case alarm: the implementation did not return (BaseException so that no
    `except Exception` inside the code under test can swallow it)"""


def _alarm(signum, frame):
    raise ImplHang()


def safe_impl(mod, case):
    """run the implementation on one case under a wall-clock limit: a call that does not return is an
    observable outcome ('hang'), reported as a failing input - never as a stuck check"""
    import signal
    limit = getattr(mod, "CASE_TIMEOUT", 60)
    use_alarm = hasattr(signal, 'setitimer') and limit
    if use_alarm:
        old = signal.signal(signal.SIGALRM, _alarm)
        signal.setitimer(signal.ITIMER_REAL, limit)
    try:
        return mod.run_impl(case)
    except ImplHang:
        return {'hang': True, 'limit_s': limit}
    except Exception as e:   # harness bug or an escape the module did not canonicalise
        return {'harness_exception': '%s: %s' % (type(e).__name__, e), 'tb': traceback.format_exc()[-1500:]}
    finally:
        if use_alarm:
            signal.setitimer(signal.ITIMER_REAL, 0)
            signal.signal(signal.SIGALRM, old)


def is_hang(o):
    return isinstance(o, dict) and o.get('hang') is True


def main():
    ap = argparse.ArgumentParser()
    ap.add_argument('prop')
    ap.add_argument('--tier', default=os.environ.get('VERIF_TIER', 'quick'))
    ap.add_argument('--replay')
    args = ap.parse_args()
    pid = args.prop
    tier = args.tier if args.tier in ('quick', 'thorough') else 'quick'
    seed = int(os.environ.get('VERIF_SEED', '0') or 0)
    t0 = time.time()
    mod = importlib.import_module('props.' + pid)
    rng = random.Random(seed * 1000003 + sum(map(ord, pid)))
    known = C.load_known_findings(pid)
    known_ids = {k['id']: k for k in known}
    notes = []
    (C.VERIF / 'evidence').mkdir(exist_ok=True)
    (C.VERIF / 'replays').mkdir(exist_ok=True)

    # ---- 1. audit + build + assumptions
    bad = C.audit()
    ok_build, build_log = C.build_coq(getattr(mod, 'COQ_TARGETS', None))
    gen_proc = C.gen_check_start(pid) if (ok_build and not args.replay) else None      # generated tie, runs alongside
    pa = C.props_assumptions(pid) if ok_build else dict(obligations=0, discharged=0, theorems=[], axioms=[], ok=False, log=build_log[-3000:])
    if ok_build and not pa['obligations']:
        pa['ok'] = False
    proof_ok = ok_build and pa['ok'] and not bad
    proof_problem = None
    if bad:
        proof_problem = 'forbidden construct in the Coq development: ' + '; '.join(bad[:5])
    elif not ok_build:
        proof_problem = 'Coq build failed: ' + build_log[-1500:]
    elif not pa['ok']:
        proof_problem = 'Props/%s.v: %d/%d theorems closed; %s' % (pid, pa['discharged'], pa['obligations'], pa['log'][-800:])

    # ---- replay mode
    if args.replay:
        obj = json.loads(open(args.replay).read())
        case = C.unhex(obj.get('case'))
        if case is None:
            print('replay file names no concrete input:', obj.get('what'))
            sys.exit(1)
        out = safe_impl(mod, case)
        fail = 'implementation hung' if is_hang(out) else mod.oracle(case, out)
        print('case:', json.dumps(C.jsonable(case))[:2000])
        print('implementation output:', json.dumps(C.jsonable(out))[:2000])
        print('property oracle:', fail or 'holds')
        term = mod.coq_term(case, out) if (ok_build and not is_hang(out)) else None
        if term is not None:
            mism, errs = C.run_coq_cases(pid, mod.IMPORTS, mod.CASE_TYPE, mod.CHECK_FN, term if isinstance(term, list) else [term], tag='replay')
            print('model agrees with implementation:', not mism and not errs, errs[:1])
        sys.exit(1 if fail else 0)

    # ---- 2./3. corpus first, then generated cases
    cases = load_corpus(pid)
    n_corpus = len(cases)
    gen = mod.generate(rng, tier)
    # change-triggered escalation (DESIGN 1.3): when the anchored source files differ from the digest recorded at
    # modelling time the run explores more (two further generator rounds with fresh PRNG streams). A changed digest
    # alone is never an alarm - a harmless rewrite must stay quiet.
    digest_now = C.anchors_digest(getattr(mod, 'ANCHOR_FILES', []))
    try:
        baseline = json.loads((C.VERIF / 'harness' / 'anchors.json').read_text()).get(pid)
    except Exception:
        baseline = None
    escalated = baseline is not None and baseline != digest_now and not os.environ.get('VERIF_NO_ESCALATION')
    if escalated:
        for r in (1, 2):
            gen += mod.generate(random.Random(seed * 1000003 + sum(map(ord, pid)) + 7919 * r), tier)
        notes.append('anchored sources changed since the model was written (digest %s != %s): generator rounds tripled' % (digest_now[:10], baseline[:10]))
    for c in gen:
        c.setdefault('origin', 'gen')
    cases.extend(gen)

    # ---- 4. implementation (line coverage of the anchored files is recorded from here to the end of step 6)
    anchor_cov = C.AnchorCoverage(list(getattr(mod, 'ANCHOR_FILES', [])) + list(getattr(mod, 'COVERAGE_FILES', [])))
    anchor_cov.start()
    outs = [safe_impl(mod, c) for c in cases]
    harness_errs = [(i, o) for i, o in enumerate(outs) if isinstance(o, dict) and 'harness_exception' in o]

    # ---- 5. model inside Coq
    terms, term_idx = [], []
    if ok_build:
        for i, (c, o) in enumerate(zip(cases, outs)):
            if isinstance(o, dict) and ('harness_exception' in o or is_hang(o)):
                continue
            t = mod.coq_term(c, o)
            for t1 in (t if isinstance(t, list) else [t]):
                if t1 is not None:
                    terms.append(t1); term_idx.append(i)
    mism, coq_errs = ([], [])
    if terms:
        mism, coq_errs = C.run_coq_cases(pid, mod.IMPORTS, mod.CASE_TYPE, mod.CHECK_FN, terms,
                                         shard=getattr(mod, 'SHARD', 300))
    corr_fail = sorted(set(term_idx[j] for j in mism))

    # ---- 6. property oracles on the implementation
    oracle_fail = []
    for i, (c, o) in enumerate(zip(cases, outs)):
        if isinstance(o, dict) and 'harness_exception' in o:
            continue
        if is_hang(o):
            oracle_fail.append((i, 'the implementation did not return within %ss on this input (unbounded loop / stall)' % o.get('limit_s')))
            continue
        f = mod.oracle(c, o)
        if f:
            oracle_fail.append((i, f))
    extra = {}
    if hasattr(mod, 'extra_checks'):
        # property-specific additional exploration on the implementation (exhaustive cuts, live runs ...)
        extra = mod.extra_checks(rng, tier) or {}
        for f in extra.get('failures', []):
            cases.append(f['case']); outs.append(f.get('out'))
            oracle_fail.append((len(cases) - 1, f['what']))

    anchor_cov.stop()
    gen = C.gen_check_finish(pid, gen_proc)
    if gen is not None and not gen['ok'] and proof_ok:
        proof_ok = False
        proof_problem = ('generated tie broken: the Gallina text regenerated from the current source of %s is no longer proved equal '
                         'to the hand model (coq/gen/GenLinks.v): %s' % (', '.join(n for n, _ in gen['broken']),
                                                                         '; '.join('%s: %s' % b for b in gen['broken'])[:1200]))

    # ---- 7. verdict
    seen_known = collections.OrderedDict()
    unlisted = []
    for i, f in oracle_fail:
        k = mod.classify(cases[i], outs[i], f) if hasattr(mod, 'classify') else None
        if k and k in known_ids and known_ids[k].get('status', 'open') == 'open':
            seen_known.setdefault(k, (i, f))
        else:
            unlisted.append((i, 'oracle', f))
    for i in corr_fail:
        if any(i == j for j, _ in oracle_fail):
            continue
        k = mod.classify(cases[i], outs[i], 'model-mismatch') if hasattr(mod, 'classify') else None
        if k and k in known_ids and known_ids[k].get('status', 'open') == 'open':
            seen_known.setdefault(k, (i, 'model-mismatch'))
        else:
            unlisted.append((i, 'corr', 'model and implementation disagree'))
    for k, (i, f) in seen_known.items():
        print('KNOWN-FINDING: property=%s %s' % (pid, known_ids[k]['what']))

    violations = 0
    exit_code = 0
    def write_replay(name, obj):
        p = C.VERIF / 'replays' / name
        p.write_text(json.dumps(C.jsonable(obj), indent=1))
        return p

    oracle_unlisted = [u for u in unlisted if u[1] == 'oracle']
    corr_unlisted = [u for u in unlisted if u[1] == 'corr']
    if oracle_unlisted:
        i, _, f = oracle_unlisted[0]
        case = cases[i]
        if hasattr(mod, 'shrink'):
            try:
                case = mod.shrink(case, lambda c: (lambda o: is_hang(o) or bool(mod.oracle(c, o)))(safe_impl(mod, c)))
            except Exception as e:
                notes.append('shrink failed: %r' % e)
        out = safe_impl(mod, case)
        f2 = f if is_hang(out) else (mod.oracle(case, out) or f)
        p = write_replay('%s-%d-%d.json' % (pid, seed, i), dict(property=pid, what=f2, case=case, impl_output=out,
                         origin=cases[i].get('origin'), also_failing=len(oracle_unlisted) - 1))
        print('VIOLATION property=%s replay=%s' % (pid, p))
        violations = len(oracle_unlisted); exit_code = 1
    elif corr_unlisted or coq_errs or harness_errs or not proof_ok:
        # the proof or the correspondence no longer checks: search harder for a property-violating input
        found = None
        if hasattr(mod, 'search'):
            try:
                found = mod.search(rng, tier, [cases[u[0]] for u in corr_unlisted])
            except Exception as e:
                notes.append('search failed: %r' % e)
        if found:
            case, what = found
            p = write_replay('%s-%d-search.json' % (pid, seed), dict(property=pid, what=what, case=case,
                             impl_output=safe_impl(mod, case)))
            print('VIOLATION property=%s replay=%s' % (pid, p))
        else:
            if corr_unlisted:
                i = corr_unlisted[0][0]
                model_out = None
                if hasattr(mod, 'model_expr'):
                    try:
                        model_out = C.coq_eval(pid, mod.IMPORTS, mod.model_expr(cases[i]))
                    except Exception as e:
                        model_out = 'n/a: %r' % e
                what = 'correspondence %s (model vs implementation) no longer checks: %d of %d cases disagree' % (
                    mod.CHECK_FN, len(corr_unlisted), len(terms))
                obj = dict(property=pid, what=what, broken='correspondence:' + mod.CHECK_FN, case=cases[i],
                           impl_output=outs[i], model_output=model_out)
            elif not proof_ok:
                obj = dict(property=pid, what=proof_problem,
                           broken=('link theorems gen_%s_eq of coq/gen/GenLinks.v' % '/'.join(n for n, _ in gen['broken'])
                                   if (gen is not None and not gen['ok'] and pa.get('ok') and not bad) else 'theorems of Props/%s.v' % pid),
                           theorems=pa.get('theorems'))
            elif coq_errs:
                obj = dict(property=pid, what='evaluating the model on the generated cases failed', broken='correspondence:' + mod.CHECK_FN, errors=coq_errs[:3])
            else:
                i, o = harness_errs[0]
                obj = dict(property=pid, what='the harness could not drive the implementation: ' + o['harness_exception'],
                           broken='correspondence:' + mod.CHECK_FN, case=cases[i], tb=o.get('tb'))
            p = write_replay('%s-%d-nofail.json' % (pid, seed), obj)
            print('VIOLATION property=%s replay=%s no-failing-input-found' % (pid, p))
        violations = max(1, len(corr_unlisted)); exit_code = 1

    # ---- 8. evidence
    dist = collections.Counter()
    distinct = set()
    for c, o in zip(cases, outs):
        dist[str(c.get('kind', '?'))] += 1
        try:
            nt = (not is_hang(o)) and mod.nontrivial(c, o)
        except Exception:
            nt = False
        if nt:
            key = json.dumps(C.jsonable({k: v for k, v in c.items() if k != 'origin'}), sort_keys=True)
            distinct.add(C.hashlib.sha1(key.encode()).hexdigest())
    samples = [C.jsonable({'case': c, 'impl': o}) for c, o in list(zip(cases, outs))[n_corpus:n_corpus + 3]] or \
              [C.jsonable({'case': c, 'impl': o}) for c, o in list(zip(cases, outs))[:3]]
    samples = json.loads(json.dumps(samples)[:200000]) if len(json.dumps(samples)) < 200000 else samples[:1]
    cov = dict(
        obligations=pa['obligations'], discharged=pa['discharged'],
        checker_cmd='cd /verif/coq && make theories/Props/%s.vo && coqc -Q theories PM theories/Props/%s.v  (Print Assumptions under every theorem)' % (pid, pid),
        trusted_base=C.TRUSTED_BASE_COMMON + list(getattr(mod, 'TRUSTED', [])),
        theorems=[list(t) for t in pa.get('theorems', [])],
        axioms=pa.get('axioms', []),
        evaluations=len(cases), distinct_nontrivial=len(distinct),
        rule=getattr(mod, 'RULE', ''),
        samples=samples,
        corpus_cases=n_corpus,
        model_vs_impl_cases=len(terms), model_vs_impl_mismatches=len(corr_fail),
        oracle_failures=len(oracle_fail),
        known_findings_seen=list(seen_known.keys()),
        distribution=dict(dist),
        anchors_digest=digest_now, anchors_baseline=baseline, escalated=escalated,
        notes=notes + list(extra.get('notes', [])),
        anchored_line_coverage=anchor_cov.report(),
        generated_tie=gen,
    )
    if gen is not None:
        # the link theorems of this property's translated functions are proof obligations of the run
        cov['obligations'] += len(gen['targets'])
        cov['discharged'] += len(gen['targets']) - len([n for n, _ in gen['broken'] if n in gen['targets']]) if gen['ok'] or gen['broken'] else 0
    for k, v in extra.items():
        if k not in ('failures', 'notes'):
            cov[k] = v
    if tier == 'thorough' and ok_build and getattr(mod, 'COQCHK', True):
        t1 = time.time()
        lib = 'PM.Props.%s' % pid
        rc, out = C.sh('coqchk -silent -o -Q theories PM %s' % lib, cwd=C.COQ, timeout=1800)
        cov['coqchk'] = dict(rc=rc, tail=out[-1500:], wall_s=round(time.time() - t1, 1))
        if rc != 0:
            print('VIOLATION property=%s replay=%s no-failing-input-found' % (
                pid, write_replay('%s-%d-coqchk.json' % (pid, seed), dict(property=pid, what='coqchk rejected the compiled proofs', log=out[-3000:]))))
            exit_code = 1; violations += 1
    if tier == 'thorough' and ok_build and (C.VERIF / 'harness' / 'links_check.sh').exists():
        # model coherence layer: the overlapping models of the properties must still coincide (notes/Links.md)
        t1 = time.time()
        rc, out = C.sh('bash /verif/harness/links_check.sh', timeout=2400)
        cov['links'] = dict(rc=rc, summary=out.strip().splitlines()[-1] if out.strip() else '', wall_s=round(time.time() - t1, 1))
        if rc != 0:
            print('VIOLATION property=%s replay=%s no-failing-input-found' % (
                pid, write_replay('%s-%d-links.json' % (pid, seed), dict(property=pid, what='a model-coherence link theorem (coq/theories/Links) no longer builds: two models of the same Python code have diverged', broken='theories/Links/All.v', log=out[-3000:]))))
            exit_code = 1; violations += 1
    ev = dict(property_id=pid, tier=tier, seed=seed, level='proof', coverage=cov,
              assumptions=list(getattr(mod, 'ASSUMPTIONS', [])),
              wall_s=round(time.time() - t0, 2), violations=violations)
    # evidence files describe /repo itself; a run against a scratch copy (VERIF_REPO, used for seeded changes and proposed
    # repairs) must never overwrite them
    ev_dir = C.VERIF / 'evidence' if str(C.REPO.resolve()) == '/repo' else C.VERIF / 'build' / 'evidence-scratch'
    if os.environ.get('VERIF_EVIDENCE_DIR'):          # robustness sweeps with other seeds keep their evidence apart
        ev_dir = C.Path(os.environ['VERIF_EVIDENCE_DIR']) if hasattr(C, 'Path') else __import__('pathlib').Path(os.environ['VERIF_EVIDENCE_DIR'])
    ev_dir.mkdir(parents=True, exist_ok=True)
    (ev_dir / ('%s.json' % pid)).write_text(json.dumps(ev, indent=1))
    print('%s tier=%s seed=%d: %d/%d theorems closed; %d cases (%d corpus), %d compared in Coq, %d mismatches, %d oracle failures, %d known findings; %.1fs'
          % (pid, tier, seed, pa['discharged'], pa['obligations'], len(cases), n_corpus, len(terms), len(corr_fail), len(oracle_fail), len(seen_known), time.time() - t0))
    sys.exit(exit_code)


if __name__ == '__main__':
    main()
