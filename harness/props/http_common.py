"""Shared pieces for the HTTP codec properties (C03, C14, C15, C02, C06): running the real
Url / ChunkParser / HttpParser, canonical observations, Coq terms for Http/HttpCases.v, and a
grammar-based generator of HTTP messages with their abstract description."""
import common as C

IMPORTS = 'From PM Require Import Lib.Bytes Lib.PyStr Http.Url Http.Chunk Http.Parser Http.HttpCases.\nFrom Coq Require Import ZArith.'


# ------------------------------------------------------------------ Coq emission
def cb(x):
    return C.coq_bytes(x)

def cob(x):
    return 'None' if x is None else '(Some %s)' % C.coq_bytes(x)

def cZ(n):
    return '(%d)%%Z' % n

def coZ(n):
    return 'None' if n is None else '(Some %s)' % cZ(n)

def coq_pieces(pieces):
    return C.coq_list(cb(p) for p in pieces)

def coq_obs(out, ok_term):
    if 'err' in out:
        return '(ErrObs %d %d)' % (out['err_idx'], out['err'])
    return '(OkObs %s)' % ok_term(out)

def coq_url(u):
    return '(mk_url %s %s %s %s %s %s)' % (cob(u['scheme']), cob(u['username']), cob(u['password']),
                                           cob(u['hostname']), coZ(u['port']), cob(u['remainder']))

def coq_chunkp(c):
    return '(mk_chunkp %d %s %s %s)' % (c['state'], cb(c['body']), cb(c['chunk']), coZ(c['size']))

def coq_headers(h):
    if h is None:
        return 'None'
    return '(Some %s)' % C.coq_list('(%s, (%s, %s))' % (cb(k), cb(n), cb(v)) for k, n, v in h)

def coq_parser(p):
    return '(mk_parser %s %d %s %s %s %s %s %s %s %d %s %s %s %s %s %s %s)' % (
        'REQUEST_PARSER' if p['type'] == 1 else 'RESPONSE_PARSER', p['state'],
        cob(p['host']), coZ(p['port']), cob(p['path']), cob(p['method']), cob(p['code']), cob(p['reason']),
        cob(p['version']), p['total_size'], cob(p['buffer']), coq_headers(p['headers']), cob(p['body']),
        'None' if p['chunk'] is None else '(Some %s)' % coq_chunkp(p['chunk']),
        C.coq_bool(p['chunked']), C.coq_bool(p['expected']), C.coq_bool(p['tunnel']))


# ------------------------------------------------------------------ running the implementation
def obs_bytes(x):
    return None if x is None else bytes(x)

def obs_url(u):
    return dict(scheme=obs_bytes(u.scheme), username=obs_bytes(u.username), password=obs_bytes(u.password),
                hostname=obs_bytes(u.hostname), port=u.port, remainder=obs_bytes(u.remainder))

def obs_chunkp(c):
    return dict(state=c.state, body=bytes(c.body), chunk=bytes(c.chunk), size=c.size)

def obs_parser(p):
    return dict(type=p.type, state=p.state, host=obs_bytes(p.host), port=p.port, path=obs_bytes(p.path),
                method=obs_bytes(p.method), code=obs_bytes(p.code), reason=obs_bytes(p.reason),
                version=obs_bytes(p.version), total_size=p.total_size,
                buffer=None if p.buffer is None else bytes(p.buffer),
                headers=None if p.headers is None else [(bytes(k), bytes(v[0]), bytes(v[1])) for k, v in p.headers.items()],
                body=obs_bytes(p.body), chunk=None if p.chunk is None else obs_chunkp(p.chunk),
                chunked=bool(p._is_chunked_encoded), expected=bool(p._content_expected), tunnel=bool(p._is_https_tunnel))

def run_url(raw):
    from proxy.http.url import Url
    try:
        return obs_url(Url.from_bytes(raw))
    except Exception as e:
        return dict(err=C.exn_code(e), err_idx=0, exc=repr(e))

def run_chunk(pieces):
    from proxy.http.parser.chunk import ChunkParser
    c = ChunkParser()
    last = b''
    for i, p in enumerate(pieces):
        try:
            last += bytes(c.parse(memoryview(p)))
        except Exception as e:
            return dict(err=C.exn_code(e), err_idx=i, exc=repr(e))
    o = obs_chunkp(c)
    o['remainder'] = last
    return o

def run_parser(ptype, pieces):
    """ptype: 1 request, 2 response"""
    from proxy.http.parser import HttpParser
    p = HttpParser(ptype)
    for i, x in enumerate(pieces):
        try:
            p.parse(memoryview(x))
        except Exception as e:
            return dict(err=C.exn_code(e), err_idx=i, exc=repr(e))
    return obs_parser(p)


def term_url(raw, out):
    return 'CUrl %s %s' % (cb(raw), coq_obs(out, coq_url))

def term_chunk(pieces, out):
    return 'CChunk %s %s' % (coq_pieces(pieces), coq_obs(out, lambda o: '(%s, %s)' % (coq_chunkp(o), cb(o['remainder']))))

def term_parser(ptype, pieces, out):
    return 'CParse %s %s %s' % ('REQUEST_PARSER' if ptype == 1 else 'RESPONSE_PARSER', coq_pieces(pieces), coq_obs(out, coq_parser))


# ------------------------------------------------------------------ cuts
def cut(data, points):
    points = sorted(set(p for p in points if 0 < p < len(data)))
    out, prev = [], 0
    for p in points:
        out.append(data[prev:p]); prev = p
    out.append(data[prev:])
    return out

def random_cuts(rng, n, k):
    return sorted(rng.sample(range(1, n), min(k, max(0, n - 1)))) if n > 1 else []


# ------------------------------------------------------------------ grammar-based message generator
TOKEN_CHARS = b"abcdefghijklmnopqrstuvwxyzABCDEFGHIJKLMNOPQRSTUVWXYZ0123456789-_"
METHODS = [b'GET', b'POST', b'PUT', b'DELETE', b'HEAD', b'OPTIONS', b'PATCH', b'TRACE', b'X-CUSTOM']

def rtoken(rng, lo=1, hi=10):
    return bytes(rng.choice(TOKEN_CHARS) for _ in range(rng.randint(lo, hi)))

def rvalue(rng):
    alphabet = b"abcXYZ019 ,;=/:()\"'*%$-_.~!@#&+<>?[]^`{|}\t"
    v = bytes(rng.choice(alphabet) for _ in range(rng.randint(0, 24))).strip()
    return v

def rbody(rng, n):
    mode = rng.randrange(4)
    if mode == 0:
        return bytes(rng.randrange(256) for _ in range(n))
    if mode == 1:
        return bytes(rng.choice(b'\r\n0123456789abcdef;: ') for _ in range(n))   # looks like framing
    if mode == 2:
        return (b'hello world ' * (n // 12 + 1))[:n]
    return bytes(rng.choice(b'\r\n') for _ in range(n))

def rhost(rng):
    r = rng.randrange(6)
    if r == 0: return b'example.com'
    if r == 1: return rtoken(rng, 1, 8).lower() + b'.' + rng.choice([b'org', b'net', b'io'])
    if r == 2: return b'%d.%d.%d.%d' % tuple(rng.randrange(256) for _ in range(4))
    if r == 3: return b'[::1]'
    if r == 4: return b'[2001:db8::%x]' % rng.randrange(1, 65535)
    return b'localhost'

def rpath(rng):
    segs = [rtoken(rng, 0, 6) for _ in range(rng.randint(0, 3))]
    if segs and not segs[0]:
        segs[0] = b'x'          # '//...' is a network-path reference for proxy.py (documented, pinned by tests)
    p = b'/' + b'/'.join(segs)
    if rng.random() < 0.3:
        p += b'?' + rtoken(rng) + b'=' + rtoken(rng, 0, 5)
    return p

def chunk_layout(rng, body, exts=True, trailers=True):
    """returns (wire bytes of the chunked body, description)"""
    out = b''
    i = 0
    sizes = []
    while i < len(body):
        k = rng.randint(1, max(1, min(len(body) - i, rng.choice([1, 2, 5, 16, 64]))))
        sizes.append(k)
        hx = b'%x' % k
        if rng.random() < 0.3: hx = hx.upper()
        if rng.random() < 0.15: hx = b'0' * rng.randint(1, 3) + hx
        if exts and rng.random() < 0.2: hx += b';' + rtoken(rng, 1, 4) + (b'=' + rtoken(rng, 1, 4) if rng.random() < 0.5 else b'')
        out += hx + b'\r\n' + body[i:i + k] + b'\r\n'
        i += k
    last = b'0'
    if rng.random() < 0.1: last = b'000'
    if exts and rng.random() < 0.15: last += b';' + rtoken(rng, 1, 4)
    out += last + b'\r\n'
    ntr = 0
    if trailers and rng.random() < 0.25:
        ntr = rng.randint(1, 2)
        for _ in range(ntr):
            out += rtoken(rng) + b': ' + (rvalue(rng) or b'x') + b'\r\n'
    out += b'\r\n'
    return out, dict(sizes=sizes, trailers=ntr)

def gen_message(rng, kind=None, max_body=60):
    """A well-formed HTTP/1.x message with its abstract description.
    returns dict(raw, ptype, framing in {'cl','chunked','none'}, start fields, headers [(name, value)], body)"""
    ptype = kind if kind in (1, 2) else rng.choice([1, 1, 2])
    headers = []
    names = set()
    for _ in range(rng.randint(0, 5)):
        n = rtoken(rng, 1, 12)
        if n.lower() in names or n.lower() in (b'content-length', b'transfer-encoding', b'host', b'connection', b'upgrade'):
            continue
        names.add(n.lower())
        headers.append((n, rvalue(rng)))
    desc = dict(ptype=ptype)
    if ptype == 1:
        method = rng.choice(METHODS)
        form = rng.randrange(4)
        host = rhost(rng)
        prt = rng.choice([None, None, 80, 8080, 443, 65535, 1])
        path = rpath(rng)
        if form == 0:
            target = path; desc.update(host=None, port=80, path=path)
        elif form == 1:
            target = b'http://' + host + (b':%d' % prt if prt is not None else b'') + path
            desc.update(host=host, port=prt if prt is not None else 80, path=path)
        elif form == 2:
            target = b'http://' + host + (b':%d' % prt if prt is not None else b'')
            desc.update(host=host, port=prt if prt is not None else 80, path=None)
        else:
            method = b'CONNECT'
            prt = prt if prt is not None else 443
            target = host + b':%d' % prt
            desc.update(host=host, port=prt, path=None)
        version = rng.choice([b'HTTP/1.1', b'HTTP/1.1', b'HTTP/1.0'])
        line = method + b' ' + target + b' ' + version
        desc.update(method=method, version=version, target=target)
        if rng.random() < 0.7:
            headers.insert(rng.randint(0, len(headers)), (rng.choice([b'Host', b'host', b'HOST']), host))
    else:
        version = rng.choice([b'HTTP/1.1', b'HTTP/1.0'])
        code = rng.choice([b'200', b'404', b'301', b'500', b'204', b'100', b'999'])
        reason = rng.choice([b'OK', b'Not Found', b'Moved  Permanently', b'', None, b'X Y Z'])
        line = version + b' ' + code + (b' ' + reason if reason is not None else b'')
        desc.update(version=version, code=code, reason=reason)
    framing = rng.choice(['cl', 'chunked', 'none', 'cl0'] if ptype == 1 else ['cl', 'chunked', 'cl0', 'cl'])
    if ptype == 1 and desc['method'] == b'CONNECT':
        framing = 'none'
    n = rng.choice([1, 2, 3, 7, 16, max_body])
    body = rbody(rng, rng.randint(1, n))
    wire_body = b''
    layout = None
    if framing == 'cl':
        headers.insert(rng.randint(0, len(headers)), (rng.choice([b'Content-Length', b'content-length', b'CONTENT-LENGTH']), b'%d' % len(body)))
        wire_body = body
    elif framing == 'cl0':
        headers.insert(rng.randint(0, len(headers)), (b'Content-Length', b'0'))
        body = b''
    elif framing == 'chunked':
        if rng.random() < 0.15:
            body = b''
        headers.insert(rng.randint(0, len(headers)), (rng.choice([b'Transfer-Encoding', b'transfer-encoding']), rng.choice([b'chunked', b'Chunked', b'CHUNKED'])))
        wire_body, layout = chunk_layout(rng, body)
    else:
        body = b''
    raw = line + b'\r\n'
    for n_, v in headers:
        sep = rng.choice([b': ', b':', b':  ', b': \t'])
        raw += n_ + sep + v + rng.choice([b'', b'', b' ']) + b'\r\n'
    raw += b'\r\n' + wire_body
    desc.update(raw=raw, framing=framing, headers=headers, body=body, layout=layout, header_less=(ptype == 2 and not headers))
    return desc
