"""C09 — plugins run in configured order with the documented chaining semantics; lifecycle callbacks fire
exactly once.  Correspondence of Net/PluginChain.v with the REAL Plugins.load / FlagParser / HttpProtocolHandler /
HttpProxyPlugin driven through harness/sim.py with plugin classes generated from action tables, and the property
itself evaluated on the implementation's call log, connect log and socket bytes (independent of the Coq model:
it only uses what each generated hook was given and what it returned)."""
import itertools, json
import common as C
from props import plugins_common as P

ID = 'C09'
COQ_TARGETS = ['theories/Props/C09.vo'] + P.COQ_TARGETS_COMMON
IMPORTS = P.IMPORTS
CASE_TYPE = 'case'
CHECK_FN = 'check_case'
ANCHOR_FILES = P.ANCHOR_FILES
SHARD = 20
RULE = ('cases = whole connections through the real HttpProtocolHandler+HttpProxyPlugin with 1-4 generated plugin classes in '
        'random order (all orders of a fixed set in the permutation stream), each hook (before_upstream_connection, '
        'handle_client_request, handle_client_data, handle_upstream_chunk, on_access_log, on_upstream_connection_close, '
        'resolve_dns) independently pass / modify (marker header, marker byte, marker context key) / delete / drop (None) / '
        'reject (HttpRequestRejected with chosen status, reason, body or none) / raise / change behaviour after n calls; with and '
        'without basic auth (valid credentials); histories = first request (GET/POST/CONNECT, random segmentation, connect ok/refused) '
        'then later requests, upstream chunks, raw client data, ended by client EOF/reset, upstream EOF/reset or executor shutdown, each with the '
        'client socket\'s shutdown(SHUT_WR) succeeding / raising ENOTCONN (after a peer reset) / raising a scripted OSError (endings grid: ending x '
        'shutdown outcome x fate of the first request); plugin class names drawn from a pool sorting before/after/around "AuthPlugin"; '
        'a connection whose first request never completes; load-order cases with duplicate classes and equal names; '
        'failing-hook grid (every run): handle_client_request (first / later / same-segment request), handle_client_data and '
        'before_upstream_connection each raising ConnectionResetError / BrokenPipeError / TimeoutError / OSError (reads_teared), rejecting '
        '(must_flush) or raising ValueError (escapes), with a response chunk pending (unflushed / partly flushed) and upstream data, client '
        'data and flushes arriving afterwards. '
        'A case is non-trivial when at least two plugins were invoked or a plugin dropped/rejected; distinct = distinct inputs')
TRUSTED = ['hooks are modelled as functions of (everything logged on the connection so far, argument); plugins that write to the client/'
           'upstream sockets themselves or share state across connections are outside the model',
           'the request is an abstract parsed record (parser: C03); the bookkeeping parse of upstream data (self.response.parse) is outside the model (C01)',
           'the access-log context is an opaque dict: only its keys and the marker entries of the generated plugins are compared']
ASSUMPTIONS = ['TLS interception, connection pool, proxy protocol and events are off (defaults)',
               'the executor calls shutdown() exactly once per connection (C05/C10)',
               'plugin name()s are pairwise distinct (recorded limitation C09-name-collision: equal names collapse)',
               'lifecycle hooks do not raise (otherwise later callbacks and the upstream close are skipped: Example C09_lifecycle_raise_skips)']

REQ_KINDS = ['pass', 'pass', 'pass', 'modify', 'modify', 'fresh', 'fresh', 'del', 'drop', 'reject', 'raise', 'after']
DATA_KINDS = ['pass', 'pass', 'modify', 'drop', 'reject', 'raise', 'after']
LIFE_KINDS = ['pass', 'pass', 'pass', 'modify', 'drop']
LIFE_KINDS_BAD = ['pass', 'modify', 'drop', 'raise', 'del']


def rand_table(rng, i, calm=False, bad_life=False):
    rk = ['pass', 'pass', 'modify', 'fresh'] if calm else REQ_KINDS
    dk = ['pass', 'modify'] if calm else DATA_KINDS
    lk = LIFE_KINDS_BAD if bad_life else LIFE_KINDS
    return P.mk_table(i, buc=P.rand_act(rng, rk), hcr=P.rand_act(rng, rk), hcd=P.rand_act(rng, dk), huc=P.rand_act(rng, dk),
                      oal=P.rand_act(rng, lk, lifecycle=True),
                      oucc=P.rand_act(rng, ['pass', 'pass', 'raise'] if bad_life else ['pass']),
                      dns=rng.choice([['none'], ['none'], ['none'], ['ip', b'10.1.2.3'], ['src', b'127.0.0.9'], ['raise']]))


def history(rng, auth, method=None, calm=False, one_per_piece=False):
    code_line = b'Proxy-Authorization: Basic dXNlcjpwYXNz' if auth else None
    spec = P.mk_request(rng, method=method, auth_line=code_line)
    steps = [P.first_step(rng, spec, rng.random() < 0.92)]
    if rng.random() < 0.3:
        # further client bytes in the SAME recv segment as the end of the first request
        if spec['method'] == b'CONNECT':
            steps.append(['client', b'\x16\x03\x01hello', None, 'same'])
        else:
            more = [P.mk_request(rng, method=rng.choice([b'GET', b'HEAD']), auth_line=None) for _ in range(1 if one_per_piece else rng.choice([1, 1, 2]))]
            steps.append(['client', b''.join(P.wire(x) for x in more), more, 'same'])
    for _ in range(rng.choice([0, 1, 2, 3])):
        if rng.random() < 0.25:
            steps.append(['flush', rng.choice([1, 7, 40, 'block', 100000])])
        r = rng.random()
        if spec['method'] == b'CONNECT':
            steps.append(['client', bytes(rng.randrange(256) for _ in range(rng.randrange(1, 9))), None] if r < 0.5
                         else ['upstream', bytes(rng.randrange(256) for _ in range(rng.randrange(1, 9)))])
        elif r < 0.45:
            s2 = P.mk_request(rng, method=rng.choice([b'GET', b'POST', b'HEAD']), auth_line=code_line if rng.random() < 0.5 else None)
            if rng.random() < 0.15:
                s2['lines'] += [b'Connection: Upgrade', b'Upgrade: websocket']
                s2['version'] = b'HTTP/1.1'
            steps.append(['client', P.wire(s2), s2])
        elif r < 0.55 and not one_per_piece:
            # several requests (and maybe the beginning of another) in ONE piece: on_client_data loops over the remainder
            specs = [P.mk_request(rng, method=rng.choice([b'GET', b'POST', b'HEAD']), auth_line=code_line if rng.random() < 0.3 else None)
                     for _ in range(rng.choice([2, 2, 3]))]
            if rng.random() < 0.2:
                specs[0]['lines'] += [b'Connection: Upgrade', b'Upgrade: websocket']
                specs[0]['version'] = b'HTTP/1.1'
            raw = b''.join(P.wire(x) for x in specs)
            if rng.random() < 0.4:
                nxt = P.mk_request(rng, method=b'GET')
                w = P.wire(nxt)
                cut = rng.randrange(1, len(w))
                steps.append(['client', raw + w[:cut], specs])
                steps.append(['client', w[cut:], nxt])
            else:
                steps.append(['client', raw, specs])
        elif r < 0.65:
            # one later request delivered in several reads cut at header-line boundaries (plain or upgrade)
            if rng.random() < 0.4:
                u = P.upgrade_request(rng, auth_line=code_line)
                steps.extend(P.later_in_pieces(rng, u, P.upgrade_in_pieces(rng, u)))
            else:
                s2 = P.mk_request(rng, method=rng.choice([b'GET', b'POST']), auth_line=code_line)
                steps.extend(P.later_in_pieces(rng, s2))
        elif r < 0.8:
            steps.append(['upstream', rng.choice([b'HTTP/1.1 200 OK\r\nContent-Length: 2\r\n\r\nok', b'HTTP/1.1 204 No Content\r\n\r\n',
                                                  b'HTTP/1.1 200 OK\r\nContent-Length: 5\r\n\r\nab'])])
        else:
            # a later request arriving in two pieces (raw bytes for handle_client_data when there is no upstream)
            s2 = P.mk_request(rng, method=b'GET')
            raw = P.wire(s2)
            cut = rng.randrange(1, len(raw))
            steps.append(['client', raw[:cut], None])
            steps.append(['client', raw[cut:], s2])
    return steps


def gen_runs(rng, quick):
    out = []
    n = 64 if quick else 2500
    for i in range(n):
        k = rng.choice([1, 2, 2, 3, 3, 4])
        ids = list(range(1, k + 1))
        rng.shuffle(ids)
        bad_life = rng.random() < 0.15
        names = P.pick_names(rng, k)
        tables = [dict(rand_table(rng, j, calm=rng.random() < 0.35, bad_life=bad_life), name=names[j - 1]) for j in ids]
        auth = rng.random() < 0.3
        out.append(dict(kind='run', basic_auth=b'user:pass' if auth else None, tables=tables, disable=rng.choice([[], [], [b'x-secret']]),
                        # a handle_client_request hook returning a NEW parser object loses the bytes that followed the request
                        # in the same piece (they sit in the old object's buffer; recorded quirk, corpus witness): what the
                        # parser sees afterwards is then no longer what the generator planned, so such lists get one request per piece
                        steps=history(rng, auth, method=[b'GET', b'POST', b'CONNECT', b'GET'][i % 4],
                                      one_per_piece=any('fresh' in act_kinds(t['hcr']) for t in tables)),
                        end=rng.choice(ENDINGS), shutdown_error=rng.choice([None, None, None, 'ENOTCONN', 'EIO']),
                        max_send=rng.choice([None, None, None, 16, 64])))
    return out


ENDINGS = ['client_eof', 'shutdown', 'upstream_eof', 'client_reset', 'upstream_reset']


def gen_endings(rng, quick):
    """the lifecycle clause, first class: every way the connection can end x every outcome of the client socket's
    shutdown(SHUT_WR) that handler.shutdown() makes (ok / ENOTCONN after a peer reset (sim) / scripted OSError) x what
    happened to the first request (served, served + data relayed, dropped, rejected before connect, rejected after
    connect, connect refused), with recording plugins whose names sort around 'AuthPlugin'"""
    out = []
    firsts = ['served', 'relayed', 'dropped', 'rejected_buc', 'rejected_hcr', 'refused']
    grid = [(e, se, f) for e in ENDINGS for se in (None, 'ENOTCONN', 'EIO') for f in firsts]
    if quick:
        # every ending x every shutdown outcome at least once, first-request outcomes rotated
        grid = [(e, se, firsts[(i * 3 + j) % len(firsts)]) for i, e in enumerate(ENDINGS) for j, se in enumerate((None, 'ENOTCONN', 'EIO'))]
        grid += [('client_reset', None, f) for f in firsts[2:5]]
    for e, se, f in grid:
        names = P.pick_names(rng, 3)
        acts = {'dropped': dict(buc=['drop']), 'rejected_buc': dict(buc=['reject', 403, b'No', b'x']),
                'rejected_hcr': dict(hcr=['reject', 403, b'No', None])}.get(f, {})
        tables = [P.mk_table(2, name=names[0], oal=['modify', b'a2']), P.mk_table(1, name=names[1], **acts), P.mk_table(3, name=names[2])]
        auth = rng.random() < 0.3
        spec = P.mk_request(rng, method=rng.choice([b'GET', b'CONNECT', b'POST']),
                            auth_line=b'Proxy-Authorization: Basic dXNlcjpwYXNz' if auth else None)
        steps = [P.first_step(rng, spec, f != 'refused')]
        if f == 'relayed':
            steps.append(['upstream', b'HTTP/1.1 200 OK\r\nContent-Length: 2\r\n\r\nok' if spec['method'] != b'CONNECT' else b'\x16\x03'])
        out.append(dict(kind='run', basic_auth=b'user:pass' if auth else None, tables=tables, disable=[], steps=steps, end=e, shutdown_error=se))
    return out


def gen_reject_headers(rng, quick):
    """rejections that choose response HEADERS (redirecting / captive-portal plugins), several connections in a row served by
    this one process: same status, reason, body and header NAMES, a different header VALUE per connection - each client
    must receive exactly the response ITS rejection chose (round-4 seed C09-r4-1: packets cached under a key without the
    values).  Oracle only (the Coq model's AReject has no headers)."""
    out = []
    for j in range(6 if quick else 60):
        hook = rng.choice(['buc', 'hcr'])
        status, reason, body = rng.choice([(302, b'Found', None), (307, b'Temporary Redirect', b''), (403, b'Forbidden', b'blocked')])
        group = []
        for n in range(3):
            hdrs = [[b'Location', b'http://portal.example/r/%d/%d' % (j, n)], [b'X-Rule', b'rule-%d' % rng.randrange(10 ** 6)]]
            names = P.pick_names(rng, 2)
            tables = [P.mk_table(1, name=names[0]), P.mk_table(2, name=names[1], **{hook: ['rejecth', status, reason, body, hdrs]})]
            spec = P.mk_request(rng, method=rng.choice([b'GET', b'POST']))
            c = dict(kind='run', basic_auth=None, tables=tables, disable=[], steps=[P.first_step(rng, spec, True)],
                     end='client_eof', shutdown_error=None)
            c['prelude'] = [dict(x, prelude=[]) for x in group]
            group.append(c)
            out.append(c)
    return out


def gen_threaded(rng, quick):
    """threaded mode (the handler owns a selector): shutdown() finds output pending and runs _flush() first; the client
    socket accepts it / short-writes / raises BrokenPipeError / ConnectionResetError / EIO during that flush.  The
    lifecycle callbacks must run exactly once in every case (fix faabfc0)."""
    out = []
    grid = [(fe, pend) for fe in (None, 'pipe', 'reset', 'oserror') for pend in ('relayed', 'rejected', 'none')]
    if not quick:
        grid = grid * 4
    for fe, pend in grid:
        names = P.pick_names(rng, 2)
        acts = dict(hcr=['reject', 403, b'No', b'body']) if pend == 'rejected' else {}
        tables = [P.mk_table(2, name=names[0], oal=['modify', b'a2']), P.mk_table(1, name=names[1], **acts)]
        spec = P.mk_request(rng, method=rng.choice([b'GET', b'POST']))
        steps = [P.first_step(rng, spec, True)]
        if pend == 'relayed':
            steps.append(['upstream', b'HTTP/1.1 200 OK\r\nContent-Length: 2\r\n\r\nok'])
            if rng.random() < 0.5:
                steps.append(['flush', 5])
        out.append(dict(kind='run', basic_auth=None, tables=tables, disable=[], steps=steps, threaded=True,
                        end='pending_shutdown' if pend != 'none' or rng.random() < 0.5 else rng.choice(['client_eof', 'client_reset']),
                        flush_error=fe, shutdown_error=rng.choice([None, None, 'EIO'])))
    return out


def gen_same_segment(rng, quick):
    """the first request and a second one in ONE recv segment, the second rejected / dropped / rewritten by
    handle_client_request (or handle_client_data when before_upstream_connection returned None): exactly the rejecting
    plugin's response must be sent although the hand-off happens inside the handling of the first request"""
    out = []
    second = [['reject', 403, b'No', b'second'], ['reject', 451, None, None], ['reject', None, None, None], ['drop'], ['fresh', None], ['raise', 'ValueError']]
    for k, act2 in enumerate(second * (1 if quick else 6)):
        names = P.pick_names(rng, 2)
        if act2[0] == 'fresh':
            act2 = ['fresh', P.fresh_spec(rng)]
        nodrop = rng.random() < 0.75
        t1 = P.mk_table(1, name=names[0], hcr=['after', 1, ['pass'], act2]) if nodrop else \
            P.mk_table(1, name=names[0], buc=['drop'], hcd=act2 if act2[0] != 'fresh' else ['modify', b'zz'])
        tables = [P.mk_table(2, name=names[1]), t1]
        rng.shuffle(tables)
        s1 = P.mk_request(rng, method=rng.choice([b'GET', b'POST']))
        s2 = P.mk_request(rng, method=b'GET')
        steps = [['first', s1, True, P.segments(rng, P.wire(s1))], ['client', P.wire(s2), s2, 'same']]
        if rng.random() < 0.5:
            steps.append(['upstream', b'HTTP/1.1 200 OK\r\nContent-Length: 2\r\n\r\nok'])
        out.append(dict(kind='run', basic_auth=None, tables=tables, disable=[], steps=steps, end=rng.choice(ENDINGS)))
    return out


def gen_permutations(rng, quick):
    """all orders of one fixed plugin set: a marker plugin, a dropper/rejecter, a passive recorder"""
    out = []
    sets = [[P.mk_table(1, buc=['modify', b'a1'], hcr=['modify', b'b1'], huc=['modify', b'1'], oal=['modify', b'a1']),
             P.mk_table(2, buc=['modify', b'a2'], hcr=['modify', b'b2'], huc=['modify', b'2'], oal=['modify', b'a2']),
             P.mk_table(3, buc=['modify', b'a3'], hcr=['modify', b'b3'], huc=['modify', b'3'], oal=['modify', b'a3'])]]
    if not quick:
        sets.append([P.mk_table(1, buc=['modify', b'a1']), P.mk_table(2, buc=['drop'], hcd=['modify', b'z']),
                     P.mk_table(3, hcr=['reject', 403, b'No', b'x']), P.mk_table(4, huc=['drop'], oal=['drop'])])
        sets.append([P.mk_table(1, hcr=['after', 1, ['pass'], ['drop']]), P.mk_table(2, buc=['reject', 418, None, None]), P.mk_table(3)])
    for ts in sets:
        for perm in itertools.permutations(ts):
            s = P.mk_request(rng, method=b'GET')
            s2 = P.mk_request(rng, method=b'POST')
            out.append(dict(kind='run', basic_auth=None, tables=list(perm), disable=[],
                            steps=[P.first_step(rng, s, True), ['upstream', b'HTTP/1.1 200 OK\r\nContent-Length: 2\r\n\r\nok'],
                                   ['client', P.wire(s2), s2]], end='client_eof'))
    return out


ACTS4 = [['pass'], ['modify', b'm1'], ['drop'], ['reject', 403, b'No', b'x']]


def gen_exhaustive(rng, quick):
    """every assignment of {pass, modify, drop, reject} to (BUC, HCR) of two plugins, and to HUC of three"""
    out = []
    combos = list(itertools.product(range(4), repeat=4))
    if quick:
        combos = rng.sample(combos, 24)
    for a, b, c, d in combos:
        s = P.mk_request(rng, method=rng.choice([b'GET', b'CONNECT']))
        s2 = P.mk_request(rng, method=b'GET')
        steps = [P.first_step(rng, s, True)] + ([['client', P.wire(s2), s2]] if s['method'] != b'CONNECT' else [['client', b'tls', None]])
        out.append(dict(kind='run', basic_auth=None, disable=[], end='shutdown', steps=steps,
                        tables=[P.mk_table(1, buc=ACTS4[a], hcr=ACTS4[b]), P.mk_table(2, buc=ACTS4[c], hcr=ACTS4[d])]))
    combos3 = list(itertools.product(range(4), repeat=3))
    if quick:
        combos3 = rng.sample(combos3, 10)
    for a, b, c in combos3:
        s = P.mk_request(rng, method=b'GET')
        out.append(dict(kind='run', basic_auth=None, disable=[], end='upstream_eof',
                        steps=[P.first_step(rng, s, True), ['upstream', b'HTTP/1.1 200 OK\r\nContent-Length: 2\r\n\r\nok'], ['upstream', b'more']],
                        tables=[P.mk_table(1, huc=ACTS4[a]), P.mk_table(2, huc=ACTS4[b]), P.mk_table(3, huc=ACTS4[c])]))
    return out


def gen_nofirst(rng, quick):
    out = []
    for _ in range(4 if quick else 40):
        s = P.mk_request(rng)
        raw = P.wire(s)
        cut = rng.randrange(1, len(raw) - 1)
        out.append(dict(kind='nofirst', basic_auth=None, tables=[rand_table(rng, 1), rand_table(rng, 2)], disable=[],
                        partial=raw[:cut], steps=[], end=rng.choice(['client_eof', 'shutdown', 'client_reset']),
                        shutdown_error=rng.choice([None, 'EIO'])))
    return out


def gen_order(rng, quick):
    out = []
    for _ in range(14 if quick else 300):
        n = rng.randrange(1, 5)
        names = P.pick_names(rng, n)
        ts = [P.mk_table(i, name=names[i - 1]) for i in range(1, n + 1)]
        rng.shuffle(ts)
        if rng.random() < 0.4:
            ts.insert(rng.randrange(len(ts) + 1), dict(rng.choice(ts)))            # same class twice
        if rng.random() < 0.35 and len(ts) >= 2:
            j = rng.randrange(1, len(ts))
            ts[j] = dict(ts[j], name=ts[rng.randrange(0, j)]['name'])             # another class with an earlier name
        out.append(dict(kind='order', basic_auth=rng.choice([None, b'user:pass']), tables=ts))
    return out


def generate(rng, tier):
    quick = tier != 'thorough'
    return gen_runs(rng, quick) + gen_endings(rng, quick) + gen_reject_headers(rng, quick) + gen_threaded(rng, quick) + P.gen_oserror_drain(rng, quick) + gen_same_segment(rng, quick) + gen_permutations(rng, quick) + gen_exhaustive(rng, quick) + gen_nofirst(rng, quick) + gen_order(rng, quick)


# ------------------------------------------------------------------ implementation
def run_impl(case):
    k = case['kind']
    if k == 'run':
        for pc in case.get('prelude', []):          # earlier connections served by the same process (history of the case)
            P.run_connection(pc)
        return P.run_connection(case)
    if k == 'nofirst':
        c = dict(case, steps=[['client', case['partial'], None]])
        return P.run_connection(c)
    if k == 'order':
        import logging
        logging.disable(logging.CRITICAL)
        return dict(order=P.chain_ids(P.make_flags(case)))
    raise ValueError(k)


def has_rejecth(case):
    return 'rejecth' in json.dumps(C.jsonable(case.get('tables', [])))


def coq_term(case, out):
    k = case['kind']
    if has_rejecth(case):
        return None           # header-carrying rejections are outside the model: oracle only
    if k == 'run':
        return P.coq_run_term(case, out)
    if k == 'nofirst':
        # the partial first request never reaches the plugin layer: the model's history is empty
        return P.coq_run_term(dict(case, steps=[]), dict(out, executed=0))
    if k == 'order':
        return P.coq_order_term(case, out)


def model_expr(case):
    if case['kind'] in ('run', 'nofirst'):
        out = run_impl(case)
        return 'diff_case (%s)' % coq_term(case, out)
    return '0'


# ------------------------------------------------------------------ the property, on the implementation
def has_collision(case):
    seen = {}
    for t in case['tables']:
        if t['name'] in seen and seen[t['name']] != t['id']:
            return True
        seen[t['name']] = t['id']
    return any(t['name'] == 'AuthPlugin' for t in case['tables'])


def configured_order(case):
    order = [0] if case.get('basic_auth') else []
    for t in case['tables']:
        if t['id'] not in order:
            order.append(t['id'])
    return order


def act_kinds(a):
    if a[0] == 'after':
        return act_kinds(a[2]) | act_kinds(a[3])
    return {a[0]}


def chain_groups(log, order):
    """split the call entries of the log into chain runs: maximal runs of consecutive 'call' entries of one hook
    that start at the first configured plugin"""
    groups, cur = [], None
    for i, e in enumerate(log):
        if e[0] == 'call':
            if cur is not None and cur['hook'] == e[2] and e[1] != order[0]:
                cur['idx'].append(i)
            else:
                cur = dict(hook=e[2], idx=[i])
                groups.append(cur)
        else:
            cur = None
    return groups


CHAINED = ('BUC', 'HCR', 'HCD', 'HUC', 'OAL')


def parse_response(raw):
    line, hs, body = P.split_head(raw)
    parts = line.split(b' ', 2)
    return parts[1] if len(parts) > 1 else b'', (parts[2] if len(parts) > 2 else None), {n.lower(): v for n, v in hs}, body


def oracle(case, out):
    k = case['kind']
    if k == 'order':
        if has_collision(case):
            return None     # recorded limitation; the model comparison still covers it
        want = configured_order(case)
        return None if out['order'] == want else 'plugins not in configured order: %r, configured %r' % (out['order'], want)
    log, rets = out['log'], out['rets']
    if k == 'nofirst':
        bad = [e for e in log if e[0] in ('call', 'accesslog', 'connect', 'qup')]
        if bad:
            return 'first request never completed but %r happened' % (bad[0][:3],)
        if sum(1 for e in log if e[0] == 'clientclose') != 1:
            return 'client socket not closed exactly once'
        return None
    if has_collision(case):
        return None
    order = configured_order(case)
    tab = {t['id']: t for t in case['tables']}
    # ---- 1. order + 2. data flow + 3. drop ends the chain
    groups = chain_groups(log, order)
    for g in groups:
        pids = [log[i][1] for i in g['idx']]
        if pids != order[:len(pids)]:
            return '%s chain invoked plugins %r, configured order %r' % (g['hook'], pids, order)
        if g['hook'] in CHAINED:
            for a, b in zip(g['idx'], g['idx'][1:]):
                r = rets.get(a, ('value', log[a][3][1]))        # unrecorded hooks of the real auth plugin pass their argument through
                if r[0] != 'value':
                    return '%s chain continued after plugin %d returned None / raised' % (g['hook'], log[a][1])
                if r[1] != log[b][3][1]:
                    return '%s: plugin %d did not receive what plugin %d returned' % (g['hook'], log[b][1], log[a][1])
            last = g['idx'][-1]
            r = rets.get(last, ('value', None))
            if r[0] == 'value' and len(pids) != len(order):
                return '%s chain stopped after plugin %d although it returned a value' % (g['hook'], pids[-1])
    def first_group(hook):
        return next((g for g in groups if g['hook'] == hook), None)
    buc = first_group('BUC')
    if buc is None:
        return 'before_upstream_connection chain never ran although the first request completed'
    buc_last = rets.get(buc['idx'][-1], ('value', None))
    if buc_last[0] == 'none' and any(e[0] in ('connect', 'qup') for e in log):
        return 'a plugin returned None from before_upstream_connection but upstream was contacted'
    # a handle_client_request chain that ended in None: nothing is queued for upstream before the next chain starts
    for g in groups:
        if g['hook'] == 'HCR' and rets.get(g['idx'][-1], ('value',))[0] == 'none':
            dropped = log[g['idx'][-1]][3][1]        # the request the dropping plugin was given
            if dropped['tunnel']:
                # a CONNECT is never forwarded itself; bytes the client sends afterwards (even in the same segment) are
                # later tunnel data the clause does not speak about (recorded quirk: no 200 is sent, yet they are relayed)
                continue
            j = g['idx'][-1] + 1
            while j < len(log) and log[j][0] not in ('step', 'call'):      # the rest of this handler step
                if log[j][0] == 'qup' and log[j][1].startswith(dropped['method'] + b' '):
                    return 'a plugin returned None from handle_client_request but the request was forwarded'
                j += 1
    # connect happens after the whole BUC chain and before the first HCR call
    ci = [i for i, e in enumerate(log) if e[0] == 'connect']
    if ci and not (buc['idx'][-1] < ci[0] and all(not (e[0] == 'call' and e[2] == 'HCR') for e in log[:ci[0]])):
        return 'upstream connect not between the before_upstream_connection and handle_client_request chains'
    # the upstream that is dialled is the one named by the request the LAST before_upstream_connection hook returned
    if ci and buc_last[0] == 'value' and buc_last[1] is not None and all(t['dns'] == ['none'] for t in case['tables']):
        want = (buc_last[1]['host'], buc_last[1]['port'])
        if (log[ci[0]][1], log[ci[0]][2]) != want:
            return 'connected to %r but the before_upstream_connection chain returned a request for %r' % ((log[ci[0]][1], log[ci[0]][2]), want)
    # a teardown decision of the handler is carried out: once the pending output is flushed the proxy closes the connection
    if any(e[0] == 'teardown' for e in log) and case.get('end') != 'pending_shutdown' and not out.get('closed_by_handler'):
        return 'handle_data asked for teardown but the connection was still open after all output had been flushed'
    # ---- 4. rejection: exactly the chosen response, teardown, no upstream contact (BUC) / nothing forwarded
    for g in groups:
        last = g['idx'][-1]
        r = rets.get(last)
        if r and r[0] == 'raise' and r[1] in ('HttpRequestRejected', 'ProxyAuthenticationFailed') and g['hook'] in ('BUC', 'HCR', 'HCD'):
            status, reason, body = r[2], r[3], r[4]
            nxt = log[last + 1:last + 3]
            if status:
                if not nxt or nxt[0][0] != 'qclient':
                    return 'rejection by plugin %d: no response queued' % log[last][1]
                code, rsn, hs, bdy = parse_response(nxt[0][1])
                if code != str(status).encode() or (reason and rsn != reason) or (body or b'') != bdy and r[1] == 'HttpRequestRejected':
                    return 'rejection by plugin %d: response %r is not the chosen one (%r %r %r)' % (log[last][1], nxt[0][1][:80], status, reason, body)
                if hs.get(b'connection', b'').lower() != b'close':
                    return 'rejection response lacks Connection: close'
                for hk, hv in (r[5] if len(r) > 5 and r[5] else {}).items():
                    if hs.get(bytes(hk).lower()) != bytes(hv):
                        return ('rejection by plugin %d: the response carries %s: %r, the plugin chose %r (exactly its chosen response '
                                'must be sent)' % (log[last][1], bytes(hk).decode('latin-1'), hs.get(bytes(hk).lower()), bytes(hv)))
                nxt = nxt[1:]
            if not nxt or nxt[0][0] != 'teardown':
                return 'rejection by plugin %d not followed by teardown' % log[last][1]
            if g['hook'] == 'BUC' and any(e[0] in ('connect', 'qup') for e in log):
                return 'rejection in before_upstream_connection but upstream was contacted'
            if any(e[0] == 'qup' for e in log[last:]):
                return 'bytes forwarded upstream after a rejection'
            if any(e[0] == 'call' and e[2] in ('BUC', 'HCR', 'HCD') for e in log[last + 1:]):
                return 'client-side hooks ran after a rejection'
            if not out['client_closed']:
                return 'connection not closed after a rejection'
    # ---- 5. lifecycle exactly once, however the connection ended
    life_ok = all(not (act_kinds(t['oal']) & {'raise', 'reject', 'del'}) and not (act_kinds(t['oucc']) & {'raise', 'reject'}) for t in case['tables'])
    if life_ok:
        oucc = [e[1] for e in log if e[0] == 'call' and e[2] == 'OUCC']
        if oucc != order:
            return 'on_upstream_connection_close calls %r, expected each configured plugin exactly once %r' % (oucc, order)
        oal = [(i, e[1]) for i, e in enumerate(log) if e[0] == 'call' and e[2] == 'OAL']
        if [p for _, p in oal] != order[:len(oal)] or not oal:
            return 'on_access_log calls %r are not one pass over a prefix of %r' % ([p for _, p in oal], order)
        handled = rets.get(oal[-1][0], ('value',))[0] == 'none'
        n_default = sum(1 for e in log if e[0] == 'accesslog')
        if n_default != (0 if handled else 1) or (not handled and len(oal) != len(order)):
            return 'default access log written %d times (a plugin took over: %s)' % (n_default, handled)
        if sum(1 for e in log if e[0] == 'clientclose') != 1:
            return 'client socket not closed exactly once'
        if out['upstream_closed'] and not all(out['upstream_closed']):
            return 'upstream socket left open'
        # lifecycle callbacks come last
        first_life = min(i for i, e in enumerate(log) if e[0] == 'call' and e[2] in ('OAL', 'OUCC'))
        if any(e[0] == 'call' and e[2] not in ('OAL', 'OUCC') for e in log[first_life:]):
            return 'request-handling hooks ran after the lifecycle callbacks started'
    return None


def nontrivial(case, out):
    if case['kind'] == 'order':
        return len(case['tables']) >= 2
    log = out.get('log', [])
    pids = {e[1] for e in log if e[0] == 'call'}
    rets = out.get('rets', {})
    return len(pids) >= 2 or any(r[0] != 'value' for r in rets.values())


def classify(case, out, failure):
    return None


def shrink(case, fails):
    if case['kind'] != 'run':
        return case
    cur = dict(case)
    changed = True
    while changed:
        changed = False
        for i in range(len(cur['steps']) - 1, 0, -1):
            t = dict(cur, steps=cur['steps'][:i] + cur['steps'][i + 1:])
            if fails(t):
                cur = t; changed = True; break
        if changed:
            continue
        for i in range(len(cur['tables'])):
            if len(cur['tables']) > 1:
                t = dict(cur, tables=cur['tables'][:i] + cur['tables'][i + 1:])
                if fails(t):
                    cur = t; changed = True; break
        if changed:
            continue
        for i, tb in enumerate(cur['tables']):
            for h in ('buc', 'hcr', 'hcd', 'huc', 'oal', 'oucc'):
                if tb[h] != ['pass']:
                    t = dict(cur, tables=cur['tables'][:i] + [dict(tb, **{h: ['pass']})] + cur['tables'][i + 1:])
                    if fails(t):
                        cur = t; changed = True; break
            if changed:
                break
    return cur
