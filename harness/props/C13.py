"""C13 — static file confinement: correspondence of Net/Static.v (+ the reference specs of
Net/StaticSpec.v) with proxy/http/server/web.py::_try_static_or_404, plugin.py::serve_static_file,
responses.py::okResponse and utils.py::build_http_response, on a REAL temporary directory tree
with files inside and just outside the static root; and the property's own statement evaluated
on the implementation with an oracle that does not use the model (os.path.realpath containment,
file bytes read from disk, gunzip of the served body)."""
import os, sys, gzip, atexit, shutil, logging, tempfile, mimetypes, types, itertools
from unittest import mock
import common as C

ID = 'C13'
COQ_TARGETS = ['theories/Props/C13.vo', 'theories/Net/StaticCases.vo']
CASE_TYPE = 'case'
CHECK_FN = 'check_case'
ANCHOR_FILES = ['proxy/http/server/web.py', 'proxy/http/server/plugin.py', 'proxy/http/responses.py',
                'proxy/common/utils.py']
RULE = ('cases = request paths built from the tokens {names present in the tree, "/", ".", "..", "%2e", "%2e%2e", "?", "//"} '
        '(plus NUL / non-UTF-8 / over-long boundary paths) against static roots spelled plainly, with a trailing slash, '
        'with dot-segments, with a leading "//", the parent directory, "/" itself, a non-existing directory and a regular file; '
        'each is run through the real HttpProtocolHandler (simulated socket, whole GET request) when the target begins with a '
        'single "/", and through HttpWebServerPlugin._try_static_or_404 directly otherwise; the reply bytes (or the escaping '
        'exception) are compared with try_static_or_404 evaluated in Coq on the table of the real tree; os.path.normpath, '
        'open() and realpath containment are compared with normpath / kopen / resolve+inside separately. '
        'Exhaustive part: quick = sampled paths of <= 3 tokens, thorough = ALL paths of <= 5 tokens over {/ . .. %2e ? a.txt sub} '
        '(19 608 paths, direct call, and through the whole handler when they begin with a single "/") and all of <= 4 tokens over two '
        'further 7-token alphabets ({/ . .. ? secret.txt static _evil}, {/ .. // %2e%2e a.txt static_evil x}). '
        'Size classes: patterned files of 1 B, 64 KiB, 128 KiB - 1 / 128 KiB / 128 KiB + 1, 256 KiB and 1 MiB + 7 are served compressed and raw '
        '(min_compression_length below, at and above the file length), compared with the model through bpat descriptors and checked by the oracle. '
        'A case is non-trivial when a file was served (200) or when the request named an existing regular file '
        '(inside or outside the root) and was refused; distinct = distinct (root, path, min_compression_length, route) inputs')
TRUSTED = ['posixpath.normpath, str.split/rstrip/startswith as transcribed in Net/Static.v (compared with CPython on every run)',
           'Net/StaticSpec.v: stack resolution of dot-segments and the symlink-free file system walk kopen, as specification of '
           '"the path it names" and of open() (compared on every run with os.path.realpath and with open() on the real tree)',
           'gzip.compress / gzip.decompress and mimetypes.guess_type: Section variables gz/gunz/guess_type of the model '
           '(hypothesis gunz (gz x) = x); their call transcripts are inputs of the compared cases',
           'the HTTP request parser delivers the request-target unchanged as request.path when it begins with a single "/" '
           '(url.py; property C03/C14), which is how the whole-request runs feed the model']
ASSUMPTIONS = ['static_server_dir is an absolute path (the default is); a relative directory depends on the working directory, which is not modelled',
               'no symbolic links (or bind mounts) below or above the static directory: residue, lexical containment is what the code checks',
               'request paths are UTF-8 without NUL for the "every reply is 404 or the file" half; other paths raise before anything is sent (proved: C13_escapes)',
               'file content does not change between the run and the oracle reading it back; PATH_MAX = 4096, names <= 255 bytes']
SHARD = 400      # quick tier; generate() raises it for the thorough tier (fewer, larger files)

logging.disable(logging.CRITICAL)

# ----------------------------------------------------------------- the real tree
_BASE = os.path.realpath(tempfile.mkdtemp(prefix='c13v_', dir='/tmp'))
atexit.register(lambda: shutil.rmtree(_BASE, ignore_errors=True))

FILES = {
    'x/static/a.txt': b'inside a.txt',
    'x/static/index.html': b'<html><body>index of the static root, long enough to be compressed</body></html>',
    'x/static/empty.txt': b'',
    'x/static/b20.txt': b'exactly-twenty-bytes',
    'x/static/b21.js': b'twenty-one-bytes-here',
    'x/static/noext': b'static/noext: a file without extension, long enough for gzip',
    'x/static/data.bin': bytes(range(256)),
    'x/static/sub/a.txt': b'inside sub/a.txt (below the root), twenty+',
    'x/static/sub/deep/a.txt': b'sub/deep/a.txt',
    'x/static/%2e%2e/a.txt': b'literal %2e%2e directory inside the root',
    'x/static/%2e/a.txt': b'literal %2e dir',
    'x/static/static/a.txt': b'static/static/a.txt: a directory named like the root, inside it',
    'x/static/ünï.txt'.encode().decode(): 'inside, non-ascii name ü'.encode(),
    'x/secret.txt': b'TOP SECRET (sibling of the root)',
    'x/a.txt': b'OUTSIDE: x/a.txt',
    'x/sub/a.txt': b'OUTSIDE: x/sub/a.txt, same relative name as inside',
    'x/static_evil/a.txt': b'OUTSIDE: static_evil/a.txt shares the prefix of the root name',
    'x/static2/a.txt': b'OUTSIDE: static2/a.txt',
    'x/statica.txt': b'OUTSIDE: what root + "a.txt" names when the request path has no leading slash',
    'x/static.txt': b'OUTSIDE: root + ".txt"',
    'a.txt': b'OUTSIDE: two levels up',
}
# size classes around thresholds a maintainer might pick (64 KiB, 128 KiB +- 1, 256 KiB, 1 MiB + 7): patterned content, so
# that the files, the gzip transcript and the replies stay small as Coq terms (bpat descriptors, see compact())
PAT = bytes((i * 7 + 3) % 256 for i in range(251))
BIG_SIZES = [65536, 131071, 131072, 131073, 262144, 1048583]

def patterned(n):
    return (PAT * (n // len(PAT) + 1))[:n]

FILES['x/static/one.txt'] = b'1'
# names whose extension makes mimetypes report a content ENCODING (round-3 seed C13-r3-2): a real gzip member, a file that
# only looks like one, a compressed SVG - what is served must still be the file's own bytes after undoing whatever
# Content-Encoding the reply advertises
import gzip as _gzip
FILES['x/static/pre.js.gz'] = _gzip.compress(b'console.log("pre-compressed asset, long enough to matter");', mtime=0)
FILES['x/static/misnamed.gz'] = b'this is not a gzip member at all, but it is longer than twenty bytes'
FILES['x/static/logo.svgz'] = _gzip.compress(b'<svg xmlns="http://www.w3.org/2000/svg"><rect width="10" height="10"/></svg>', mtime=0)
FILES['x/static/arch.tgz'] = b'short tgz'
for _n in BIG_SIZES:
    FILES['x/static/big_%d.bin' % _n] = patterned(_n)
FILES['x/big_65536.bin'] = patterned(65536)[:-1] + b'!'      # a large file just outside, different content
BIG_LIMIT = 4096            # byte strings longer than this are written as descriptors

for rel, data in FILES.items():
    p = os.path.join(_BASE, rel)
    os.makedirs(os.path.dirname(p), exist_ok=True)
    with open(p, 'wb') as f:
        f.write(data)
os.makedirs(os.path.join(_BASE, 'x/static/emptydir'), exist_ok=True)

ROOTS = {
    'plain': _BASE + '/x/static',
    'trail': _BASE + '/x/static/',
    'dotted': _BASE + '/x/./static2/..//static',
    'dslash': '/' + _BASE + '/x/static',
    'tslash': '//' + _BASE + '/x/static//',
    'parent': _BASE + '/x',
    'fsroot': '/',
    'fsroot2': '//',
    'missing': _BASE + '/x/nonexistent',
    'file': _BASE + '/x/secret.txt',
    'evil': _BASE + '/x/static_evil',
}
BASE_NAMES = [s for s in _BASE.split('/') if s]          # e.g. ['tmp', 'c13v_abcd']


def _scan_tree():
    """table of the real tree: names below / -> file content | directory (read back from disk)"""
    tab = [([], None)]
    for i in range(1, len(BASE_NAMES) + 1):
        tab.append((BASE_NAMES[:i], None))
    for dirpath, dirnames, filenames in os.walk(_BASE):
        dirnames.sort(); filenames.sort()
        here = [s for s in dirpath.split('/') if s]
        for d in dirnames:
            tab.append((here + [d], None))
        for f in filenames:
            with open(os.path.join(dirpath, f), 'rb') as fh:
                tab.append((here + [f], fh.read()))
    return tab

TREE = _scan_tree()


def hx(data):
    """byte string as a hexadecimal Coq string literal decoded by StaticCases.hx (fast to parse)"""
    return '(hx "%s")' % bytes(data).hex()

def compact(data):
    """Coq term for a byte string: hex literal when short, else  (hx head ++ bpat (hx PAT) n ++ hx tail)  when everything after
    a short head (nothing, or an HTTP head up to the empty line) is the repeated pattern; falls back to the hex literal"""
    data = bytes(data)
    if len(data) <= BIG_LIMIT:
        return hx(data)
    heads = [0]
    i = data.find(b'\r\n\r\n', 0, 2000)
    if i >= 0:
        heads.append(i + 4)
    for hl in heads:
        body = data[hl:]
        for tail in (0, 1):
            core = body[:len(body) - tail] if tail else body
            if core == patterned(len(core)):
                t = '(hx "%s" ++ bpat PATC %d ++ hx "%s")' % (data[:hl].hex(), len(core), body[len(core):].hex())
                return t
    return hx(data)

def coq_names(names):
    return C.coq_list(hx(n.encode() if isinstance(n, str) else n) for n in names)

def coq_tree(tab):
    return C.coq_list(('mkdir %s' % coq_names(k)) if v is None else ('mkfile %s %s' % (coq_names(k), compact(v))) for k, v in tab)

def is_big_entry(kv):
    return kv[1] is not None and len(kv[1]) > BIG_LIMIT

def agent_value():
    from proxy.common.constants import PROXY_AGENT_HEADER_VALUE
    return bytes(PROXY_AGENT_HEADER_VALUE)


def expected_404():
    return (b'HTTP/1.1 404 NOT FOUND\r\nServer: ' + agent_value() +
            b'\r\nContent-Length: 0\r\nConnection: close\r\n\r\n')


# constants shared by all cases of a shard (shorter case files): the tree, the roots, the agent string, the usual 404
ROOT_CONST = {v: 'D_%s' % k for k, v in ROOTS.items()}
IMPORTS = ('From PM Require Import Lib.Bytes Lib.PyStr Net.Static Net.StaticSpec Net.StaticCases.\n'
           'From Coq Require Import ZArith.\nOpen Scope N_scope.\n'
           'Definition PATC : bytes := %s.\n'
           'Definition T0 : tree := %s.\nDefinition TBIG : tree := %s.\nDefinition T1 : tree := T0 ++ TBIG.\n'
           'Definition AG : bytes := %s.\nDefinition R404 : bytes := %s.\n%s'
           % (hx(PAT), coq_tree([kv for kv in TREE if not is_big_entry(kv)]), coq_tree([kv for kv in TREE if is_big_entry(kv)]),
              hx(agent_value()), hx(expected_404()),
              '\n'.join('Definition %s : bytes := %s.' % (c, hx(r.encode())) for r, c in ROOT_CONST.items())))


def coq_dir(root):
    return ROOT_CONST.get(root) or hx(root.encode())


def coq_reply(reply):
    return 'R404' if reply == expected_404() else compact(reply)


# ----------------------------------------------------------------- generation
NAMES_IN = ['a.txt', 'sub', 'deep', 'index.html', 'empty.txt', 'b20.txt', 'b21.js', 'noext', 'data.bin', 'emptydir',
            '%2e%2e', '%2e', 'static', 'ünï.txt', 'pre.js.gz', 'misnamed.gz', 'logo.svgz', 'arch.tgz']
NAMES_OUT = ['secret.txt', 'static_evil', 'static2', 'x', '_evil', '2', 'statica.txt', '.txt', 'nope']
SPECIAL = ['/', '/', '/', '.', '..', '..', '%2e', '%2e%2e', '?', '//', '...', '%2f', '\\', '%00', ' .', '..;']


def tok_path(rng, n, names, weights_special=0.55):
    out = []
    for _ in range(n):
        if rng.random() < weights_special:
            out.append(rng.choice(SPECIAL))
        else:
            out.append(rng.choice(names))
    return ''.join(out)


def structured_path(rng):
    """mostly-valid: /seg/seg/... with segments among names, '.', '..', '' and an optional query"""
    k = rng.choice([1, 1, 2, 2, 3, 3, 4, 5, 6])
    names = NAMES_IN + NAMES_OUT + BASE_NAMES
    segs = []
    for _ in range(k):
        r = rng.random()
        if r < 0.22: segs.append('..')
        elif r < 0.30: segs.append('.')
        elif r < 0.36: segs.append('')
        elif r < 0.40: segs.append(rng.choice(['%2e%2e', '%2e', '...', '..%2f', '%2e.']))
        else: segs.append(rng.choice(names))
    p = '/' + '/'.join(segs)
    if rng.random() < 0.25:
        p += '?' + rng.choice(['', 'x=1', '/../secret.txt', '../../a.txt', 'a=/&b=..', '?', '/a.txt', '%2e%2e/', 'a?b', '?/../secret.txt', 'x=1?y=2?', '??'])
    return p


def can_sim(path):
    """targets the request parser hands to the web plugin unchanged: origin-form beginning with a single '/'"""
    return (len(path) >= 1 and path[:1] == b'/' and path[:2] != b'//' and
            not any(c in path for c in b' \t\r\n\x0b\x0c\x1c\x1d\x1e\x1f\x85') and len(path) < 60000)


def mk(rng, root, path, mcl=20, via=None, kind='static'):
    if isinstance(path, str):
        path = path.encode()
    if via is None:
        via = 'sim' if (can_sim(path) and rng.random() < 0.6) else 'direct'
    if via == 'sim' and not can_sim(path):
        via = 'direct'
    return dict(kind=kind, root=root, path=path, mcl=mcl, via=via)


ALPHABETS = [
    ['/', '.', '..', '%2e', '?', 'a.txt', 'sub'],
    ['/', '.', '..', '?', 'secret.txt', 'static', '_evil'],
    ['/', '..', '//', '%2e%2e', 'a.txt', 'static_evil', 'x'],
]


def exhaustive(alphabet, maxlen):
    for n in range(0, maxlen + 1):
        for toks in itertools.product(alphabet, repeat=n):
            yield ''.join(toks)


def generate(rng, tier):
    global SHARD
    quick = tier != 'thorough'
    SHARD = 400 if quick else 1000
    cases = []
    roots_main = ['plain'] * 6 + ['trail', 'dotted', 'dslash', 'tslash', 'parent', 'evil']
    # structured stream
    for _ in range(300 if quick else 6000):
        cases.append(mk(rng, rng.choice(roots_main), structured_path(rng),
                        mcl=rng.choice([20, 20, 20, 0, 11, 12, 21, 1000, -1])))
    # token stream (malformed: no leading slash, glued tokens, odd spellings)
    for _ in range(160 if quick else 4000):
        n = rng.choice([1, 2, 3, 3, 4, 4, 5, 6, 7])
        cases.append(mk(rng, rng.choice(roots_main), tok_path(rng, n, NAMES_IN + NAMES_OUT + BASE_NAMES)))
    # boundary stream
    b = []
    esc = '/..' * (len(BASE_NAMES) + 2)
    for root in ROOTS:
        for p in ['', '/', '/a.txt', '/../secret.txt', '/..', '/../', '/.', '//a.txt', '/a.txt/', '/a.txt/.', '/a.txt/..',
                  '/sub', '/sub/', '/sub/../a.txt', '/nope/../a.txt', '/../static/a.txt', '/../static_evil/a.txt',
                  '_evil/a.txt', 'a.txt', '.txt', '/../static', '/../static/', '?', '/?', '/a.txt?', '/static/a.txt',
                  _BASE + '/x/secret.txt', esc + _BASE + '/x/static/a.txt', esc + _BASE + '/x/secret.txt', esc,
                  '/static/../a.txt', '/x/static/a.txt', '/x/secret.txt', '/secret.txt']:
            b.append(mk(rng, root, p, via='direct'))
            if can_sim(p.encode()) and (root in ('plain', 'trail', 'tslash') or not quick):
                b.append(mk(rng, root, p, via='sim'))
    for p in [b'/a\x00.txt', b'/\x00', b'/../\x00', b'/\xff', b'/a.txt?\xff', b'/\xc3\xbcn\xc3\xaf.txt', b'/\xc3', b'/../\xc3\x28',
              b'/\xe2\x80\xa6/../a.txt', b'/\xef\xbc\x8e\xef\xbc\x8e/secret.txt', b'/..\\secret.txt', b'/%2e%2e/a.txt', b'/%2e/a.txt',
              b'/%2e%2e/../a.txt', b'/%2E%2E/secret.txt', b'/..%2fsecret.txt', b'/.%2e/secret.txt', b'/..;/secret.txt', b'/' + b'a' * 255,
              b'/' + b'a' * 256, b'/' + b'a' * 300 + b'/../a.txt', b'/.../a.txt', b'/....//a.txt', b'/..../secret.txt']:
        for via in ('direct', 'sim'):
            b.append(mk(rng, 'plain', p, via=via))
    root_len = len(ROOTS['plain'])
    for total in (4094, 4095, 4096, 4097):
        pad = total - root_len - len('/a.txt')
        k, r = divmod(pad, 2)
        b.append(mk(rng, 'plain', '/.' * k + '/' * r + '/a.txt', via='direct'))
        b.append(mk(rng, 'plain', '/.' * k + '/' * r + '/a.txt', via='sim'))
    for m in ((0, 12, 20, 21, 100000) if quick else (-5, 0, 11, 12, 19, 20, 21, 39, 40, 41, 100000)):
        for p in ('/a.txt', '/b20.txt', '/b21.js', '/empty.txt', '/sub/a.txt', '/data.bin'):
            b.append(mk(rng, 'plain', p, mcl=m))
    cases.extend(b)
    # query stream: the same path with several queries must give the same file
    for _ in range(40 if quick else 600):
        base = structured_path(rng).split('?')[0]
        if rng.random() < 0.5:      # half of them name a file that is served, so that a query leaking into the name shows
            base = rng.choice(['/a.txt', '/sub/a.txt', '/index.html', '/sub/../a.txt', '/./b21.js', '/%2e%2e/a.txt',
                               '/sub/deep/../../noext', '/../static/a.txt', '//data.bin'])
        qs = [None, '', rng.choice(['x', '/../secret.txt', '../a.txt', 'a.txt', '%3f/../../']), rng.choice(['?', 'a?b', '?/..', 'x?/../secret.txt', '/?/'])]
        cases.append(dict(kind='query', root=rng.choice(roots_main), path=base.encode(),
                          queries=[None if q is None else q.encode() for q in qs], mcl=20, via='direct'))
    # pure-function streams: normpath / resolve+inside / open
    for _ in range(120 if quick else 2500):
        lead = rng.choice(['', '', '/', '/', '//', '///', '////', './', '../'])
        p = lead + tok_path(rng, rng.choice([0, 1, 2, 3, 4, 6, 8]), ['a', 'bc', 'a.txt', '.a', 'a.', '..a', 'ü'], 0.6)
        cases.append(dict(kind='norm', p=p.encode()))
    for _ in range(80 if quick else 1500):
        p = rng.choice(['', '/']) + tok_path(rng, rng.choice([1, 2, 3, 4, 5, 7]), NAMES_IN + NAMES_OUT + BASE_NAMES, 0.5)
        cases.append(dict(kind='open', p=(rng.choice([_BASE, _BASE + '/x', ROOTS['plain'], '', '/' + _BASE]) + p).encode()))
    # size-class stream: files of 1 byte ... 1 MiB + 7 around thresholds a maintainer might pick for compression/buffering,
    # served compressed (min_compression_length 20) and raw (huge min_compression_length), directly and as whole requests
    big = []
    for n in BIG_SIZES:
        big.append(mk(rng, 'plain', '/big_%d.bin' % n, mcl=20, via='direct', kind='static'))
    for n in (65536, 131073):
        big.append(mk(rng, 'plain', '/big_%d.bin' % n, mcl=10 ** 9, via='direct'))
    big.append(mk(rng, 'trail', '/sub/../big_131073.bin?x=/../big_65536.bin', mcl=20, via='sim'))
    big.append(mk(rng, 'plain', '/big_131072.bin', mcl=131072, via='sim'))          # len == min_compression_length: raw
    big.append(mk(rng, 'plain', '/big_131072.bin', mcl=131071, via='sim'))          # one above: compressed
    big.append(mk(rng, 'plain', '/../big_65536.bin', mcl=20, via='sim'))            # the large file just outside: 404
    if not quick:
        for n in BIG_SIZES:
            big.append(mk(rng, 'dslash', '/./big_%d.bin' % n, mcl=20, via='sim'))
            big.append(mk(rng, 'plain', '/big_%d.bin' % n, mcl=n, via='direct'))
            big.append(mk(rng, 'plain', '/big_%d.bin' % n, mcl=n - 1, via='direct'))
    for c in big:
        c['size_class'] = True
    for p in ('/one.txt', '/empty.txt', '/b20.txt', '/b21.js'):
        for m in (0, 1, 19, 20, 21):
            cases.append(mk(rng, 'plain', p, mcl=m, via='direct'))
    # exhaustive enumeration (thorough): all paths of <= 5 tokens over 7-token alphabets
    if not quick:
        for ai, alpha in enumerate(ALPHABETS):
            for p in exhaustive(alpha, 5 if ai == 0 else 4):
                pb = p.encode()
                cases.append(dict(kind='static', root='plain', path=pb, mcl=20, via='direct', exh=ai))
                if can_sim(pb) and ai == 0:
                    cases.append(dict(kind='static', root='plain', path=pb, mcl=20, via='sim', exh=ai))
    else:
        for p in exhaustive(ALPHABETS[0], 3):
            if p.count('/') + p.count('.') + p.count('?') + p.count('%') < 6 and rng.random() < 0.6:
                continue
            cases.append(dict(kind='static', root='plain', path=p.encode(), mcl=20, via='direct', exh=0))
    cases.extend(big)
    return cases


# ----------------------------------------------------------------- implementation
_flags_cache = {}

def get_flags(root, mcl):
    key = (root, mcl)
    if key not in _flags_cache:
        sys.path.insert(0, str(C.VERIF / 'harness'))
        from sim import make_flags
        _flags_cache[key] = make_flags(enable_web_server=True, enable_static_server=True,
                                       static_server_dir=root, min_compression_length=mcl)
    return _flags_cache[key]


class _Rec:
    def __init__(self):
        self.q = []
    def queue(self, mv):
        self.q.append(bytes(mv))


def run_static(root, path, mcl, via):
    """returns dict(reply=bytes | raised=code, gzlog=[(in,out)], guesslog=[(in,out)])"""
    gzlog, guesslog = [], []
    orig_gz, orig_guess = gzip.compress, mimetypes.guess_type

    def rec_gz(data, *a, **k):
        out = orig_gz(data, *a, **k)
        gzlog.append((bytes(data), bytes(out)))
        return out

    def rec_guess(url, *a, **k):
        out = orig_guess(url, *a, **k)
        guesslog.append((os.fsencode(url), None if out[0] is None else out[0].encode()))
        return out

    flags = get_flags(root, mcl)
    res = {}
    with mock.patch('gzip.compress', rec_gz), mock.patch('mimetypes.guess_type', rec_guess):
        if via == 'direct':
            from proxy.http.server.web import HttpWebServerPlugin
            fake = types.SimpleNamespace(flags=flags, client=_Rec())
            try:
                HttpWebServerPlugin._try_static_or_404(fake, path)
                res['reply'] = b''.join(fake.client.q)
                res['queued'] = len(fake.client.q)
            except Exception as e:
                res['raised'] = C.exn_code(e); res['err'] = repr(e)[:200]
                res['queued'] = len(fake.client.q)
        else:
            from sim import Sim
            with Sim(flags=flags) as s:
                s.client.feed(b'GET ' + path + b' HTTP/1.1\r\nHost: static.example\r\n\r\n')
                r = s.run()
                if isinstance(r, tuple) and r[0] == 'raised':
                    res['raised'] = C.exn_code(r[1]); res['err'] = repr(r[1])[:200]
                    res['partial'] = bytes(s.client.out)
                else:
                    res['reply'] = bytes(s.client.out); res['end'] = r
    res['gzlog'] = gzlog
    res['guesslog'] = guesslog
    return res


def full_path(case, q=None):
    p = case['path']
    if q is not None:
        p = p + b'?' + q
    return p


def run_impl(case):
    k = case['kind']
    if k == 'static':
        return run_static(ROOTS[case['root']], case['path'], case['mcl'], case['via'])
    if k == 'query':
        return dict(runs=[run_static(ROOTS[case['root']], full_path(case, q), case['mcl'], case['via'])
                          for q in case['queries']])
    if k == 'norm':
        s = case['p'].decode()
        return dict(norm=os.path.normpath(s).encode())
    if k == 'open':
        try:
            with open(case['p'], 'rb') as f:
                return dict(content=f.read())
        except Exception as e:
            return dict(raised=C.exn_code(e), err=repr(e)[:200])
    raise ValueError(k)


# ----------------------------------------------------------------- Coq terms
def coq_obs(res):
    if 'raised' in res:
        return '(ErrObs %d)' % res['raised']
    return '(OkObs %s)' % coq_reply(res['reply'])


def dedup(pairs):
    seen, out = set(), []
    for a, b in pairs:
        if a not in seen:
            seen.add(a); out.append((a, b))
    return out


def static_parts(root, path, mcl, res):
    gl = C.coq_list('(%s, %s)' % (hx(a), C.coq_option(hx, b)) for a, b in dedup(res['guesslog']))
    zl = C.coq_list('(%s, %s)' % (compact(a), compact(b)) for a, b in dedup(res['gzlog']))
    return dict(tree='T1' if b'big_' in path else 'T0', dir=coq_dir(root), mcl='(%d)%%Z' % mcl, agent='AG', gl=gl, zl=zl,
                path=hx(path))


def static_term(root, path, mcl, res):
    a = static_parts(root, path, mcl, res)
    return 'CStatic %s %s %s %s %s %s %s %s' % (a['tree'], a['dir'], a['mcl'], a['agent'], a['gl'], a['zl'], a['path'], coq_obs(res))


def real_inside(root, path):
    """independent containment: os.path.realpath of root and of root + path-before-'?' (bytes API; no normpath involved)"""
    p = path.split(b'?', 1)[0].replace(b'\x00', b'\x01')      # realpath refuses NUL; \x01 is an ordinary name byte too
    r = os.path.realpath(os.fsencode(root))
    t = os.path.realpath(os.fsencode(root) + p)
    return t == r or t.startswith(r.rstrip(b'/') + b'/'), t


def real_names(p):
    t = os.path.realpath(p)
    return [s for s in t.split(b'/') if s]


def reply_terms(root, path, res):
    """the reference client of StaticSpec.v on the bytes the implementation produced (sampled: replies are repetitive)"""
    if 'reply' not in res:
        return []
    reply = res['reply']
    is200 = reply.startswith(b'HTTP/1.1 200')
    if not is200 and (hash(path) % 16):
        return []
    terms = []
    if b'\r\n\r\n' in reply:
        head, body = reply.split(b'\r\n\r\n', 1)
        terms.append('CRead %s (Some (%s, %s))' % (coq_reply(reply), coq_names(head.split(b'\r\n')), compact(body)))
    else:
        terms.append('CRead %s None' % compact(reply))
    if is200:
        ins, target = real_inside(root, path)
        if os.path.isfile(target):
            with open(target, 'rb') as f:
                zl = C.coq_list('(%s, %s)' % (compact(a), compact(b)) for a, b in dedup(res['gzlog']))
                terms.append('CClient %s %s %s' % (compact(reply), zl, compact(f.read())))
    return terms


def coq_term(case, out):
    k = case['kind']
    if k == 'static':
        root = ROOTS[case['root']]
        terms = [static_term(root, case['path'], case['mcl'], out)]
        terms.extend(reply_terms(root, case['path'], out))
        if b'\x00' not in case['path'] and len(root) + len(case['path']) < 4000:
            p = case['path'].split(b'?', 1)[0]
            try:
                p.decode()
            except UnicodeDecodeError:
                return terms
            ins, _ = real_inside(root, p)
            terms.append('CInside %s %s %s' % (coq_dir(root), hx(p), C.coq_bool(ins)))
        return terms
    if k == 'query':
        root = ROOTS[case['root']]
        return [static_term(root, full_path(case, q), case['mcl'], r) for q, r in zip(case['queries'], out['runs'])]
    if k == 'norm':
        terms = ['CNorm %s %s' % (hx(case['p']), hx(out['norm']))]
        if case['p'][:1] == b'/' and b'\x00' not in case['p']:
            terms.append('CResolve %s %s' % (hx(case['p']), coq_names(real_names(case['p']))))
        return terms
    if k == 'open':
        res = dict(raised=out['raised']) if 'raised' in out else dict(reply=out['content'])
        terms = ['COpen T0 %s %s' % (hx(case['p']), coq_obs(res))]
        if case['p'][:1] == b'/' and b'\x00' not in case['p']:
            terms.append('CResolve %s %s' % (hx(case['p']), coq_names(real_names(case['p']))))
        return terms


# ----------------------------------------------------------------- the property on the implementation
def parse_reply(reply):
    """(status, headers list, decoded body) parsed by hand; None if not a well-formed response"""
    if b'\r\n\r\n' not in reply:
        return None
    head, body = reply.split(b'\r\n\r\n', 1)
    lines = head.split(b'\r\n')
    parts = lines[0].split(b' ', 2)
    if len(parts) < 2 or parts[0] != b'HTTP/1.1' or not parts[1].isdigit():
        return None
    hdrs = []
    for ln in lines[1:]:
        if b': ' not in ln:
            return None
        kk, vv = ln.split(b': ', 1)
        hdrs.append((kk.lower(), vv))
    return int(parts[1]), hdrs, body


def h11_parse(reply):
    """independent reading of a complete response by h11 in the client role: (status, sorted headers, body) or error text"""
    import h11
    try:
        conn = h11.Connection(our_role=h11.CLIENT)
        conn.send(h11.Request(method='GET', target='/', headers=[('Host', 'static.example')]))
        conn.send(h11.EndOfMessage())
        conn.receive_data(reply)
        conn.receive_data(b'')
        status, hdrs, body = None, [], b''
        while True:
            ev = conn.next_event()
            if isinstance(ev, h11.Response):
                status = ev.status_code
                hdrs = sorted((bytes(k).lower(), bytes(v)) for k, v in ev.headers)
            elif isinstance(ev, h11.Data):
                body += bytes(ev.data)
            elif isinstance(ev, (h11.EndOfMessage, h11.ConnectionClosed)) or ev is h11.NEED_DATA or ev is h11.PAUSED:
                break
        return status, hdrs, body
    except Exception as e:
        return 'h11 error: %r' % e


def check_one(root, path, res):
    """the property for one request: None | failure text"""
    try:
        path.decode()
        in_domain = b'\x00' not in path
    except UnicodeDecodeError:
        in_domain = False
    ins, target = real_inside(root, path)
    if 'raised' in res:
        if res.get('queued') or res.get('partial'):
            return 'an exception escaped after bytes were queued for the client'
        if in_domain:
            return 'no reply: %s escaped for a well-formed path' % res.get('err')
        return None
    reply = res['reply']
    if reply == expected_404():
        return None
    pr = parse_reply(reply)
    if pr is None:
        return 'reply is neither the 404 packet nor a parsable response: %r' % reply[:80]
    status, hdrs, body = pr
    if status != 200:
        return 'unexpected status %d' % status
    hp = h11_parse(reply)
    if hp != (status, sorted(hdrs), body):
        return 'h11 (client role) reads the reply differently from the line-based reading: %r' % (hp if not isinstance(hp, tuple) else hp[:2],)
    h = dict(hdrs)
    if h.get(b'content-length') != str(len(body)).encode():
        return 'Content-Length %r does not match the %d body bytes' % (h.get(b'content-length'), len(body))
    enc = h.get(b'content-encoding')
    if enc == b'gzip':
        try:
            body = gzip.decompress(body)
        except Exception as e:
            return 'body advertised as gzip does not decompress: %r' % e
    elif enc is not None:
        return 'unknown content-encoding %r' % enc
    if not ins:
        what = 'the content of %s' % target.decode('utf-8', 'replace') if os.path.isfile(target) else 'content'
        return 'served %s, which is OUTSIDE the static directory %s' % (what, root)
    if not os.path.isfile(target):
        return 'served a 200 for %r which is not a regular file' % target
    with open(target, 'rb') as f:
        want = f.read()
    if body != want:
        return 'served body differs from the bytes of %s' % target.decode('utf-8', 'replace')
    return None


def canon_for_query(res):
    if 'raised' in res:
        return ('raised', res['raised'])
    pr = parse_reply(res['reply'])
    if pr is None:
        return ('raw', res['reply'])
    status, hdrs, body = pr
    if dict(hdrs).get(b'content-encoding') == b'gzip':
        try:
            body = gzip.decompress(body)
        except Exception:
            pass
    return (status, tuple((k, v) for k, v in hdrs if k != b'content-length'), body)


def oracle(case, out):
    k = case['kind']
    if k == 'static':
        return check_one(ROOTS[case['root']], case['path'], out)
    if k == 'query':
        root = ROOTS[case['root']]
        for q, r in zip(case['queries'], out['runs']):
            f = check_one(root, full_path(case, q), r)
            if f:
                return f
        cs = [canon_for_query(r) for r in out['runs']]
        if any(c != cs[0] for c in cs[1:]):
            return 'the query string changed the reply: %r vs %r' % (cs[0][:1], [c[:1] for c in cs[1:]])
        return None
    return None


def nontrivial(case, out):
    k = case['kind']
    if k == 'static':
        if 'raised' in out:
            return False
        if out['reply'].startswith(b'HTTP/1.1 200'):
            return True
        _, target = real_inside(ROOTS[case['root']], case['path'])
        return os.path.isfile(target)
    if k == 'query':
        return any('reply' in r and r['reply'].startswith(b'HTTP/1.1 200') for r in out['runs'])
    if k == 'norm':
        return len(case['p']) > 0
    if k == 'open':
        return 'content' in out
    return False


def classify(case, out, failure):
    return None


def model_expr(case):
    if case['kind'] == 'static':
        a = static_parts(ROOTS[case['root']], case['path'], case['mcl'], run_impl(case))
        return ('try_static_or_404 %s %s %s (kopen (table_look %s)) (guess_of_log %s) (gz_of_log %s) %s'
                % (a['dir'], a['mcl'], a['agent'], a['tree'], a['gl'], a['zl'], a['path']))
    if case['kind'] == 'norm':
        return 'normpath %s' % hx(case['p'])
    if case['kind'] == 'open':
        return 'py_open (kopen (table_look T0)) %s' % hx(case['p'])
    return 'tt'


def shrink(case, fails):
    if case['kind'] != 'static':
        return case
    cur = dict(case)
    cur.pop('exh', None)
    if cur['via'] == 'sim':
        t = dict(cur, via='direct')
        if fails(t):
            cur = t
    if cur['mcl'] != 20:
        t = dict(cur, mcl=20)
        if fails(t):
            cur = t
    # delta-debug on bytes of the path
    changed = True
    while changed and len(cur['path']) > 1:
        changed = False
        p = cur['path']
        n = len(p)
        for size in (n // 2, n // 4, 4, 2, 1):
            if size < 1:
                continue
            i = 0
            while i < len(p):
                q = p[:i] + p[i + size:]
                t = dict(cur, path=q)
                if cur['via'] == 'sim' and not can_sim(q):
                    i += size; continue
                if q != p and fails(t):
                    cur = t; p = q; changed = True
                else:
                    i += size
    return cur


def search(rng, tier, mismatching):
    """hunt for a property-violating input on the implementation alone: the disagreeing cases first, then every path
    of <= 5 tokens over the 7-token alphabets, direct calls"""
    todo = [c for c in mismatching if c.get('kind') == 'static']
    for c in todo:
        o = run_impl(c)
        f = oracle(c, o)
        if f:
            return c, f
    for root in ('plain', 'trail', 'dslash'):
        for ai, alpha in enumerate(ALPHABETS):
            for p in exhaustive(alpha, 5 if root == 'plain' else 4):
                c = dict(kind='static', root=root, path=p.encode(), mcl=20, via='direct')
                o = run_impl(c)
                f = oracle(c, o)
                if f:
                    c = shrink(c, lambda t: bool(oracle(t, run_impl(t))))
                    return c, oracle(c, run_impl(c)) or f
    return None
