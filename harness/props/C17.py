"""C17 — threaded, local-threadless and remote-threadless modes behave identically.

Correspondence (notes/C17.md):
 (t) the REAL HttpProtocolHandler.run / _run_once / _selected_events / _flush / shutdown (thread-per-connection driver)
     on a SCRIPTED handler (get_events / handle_events / initialize / is_inactive scripted on top of the real
     HttpClientConnection buffer and a fake socket; private selector = real EpollSelector over a fake epoll) vs
     threaded_run of Exec/Modes.v;
 (l) the REAL Threadless._run_forever (LocalFdExecutor) on the same handler and the same schedule vs run_forever of
     Exec/Threadless.v instantiated with the same scripted handler;
 (f) the real descriptor hand-off (shared with C10) vs the two-process table model: C17_remote_fd.
Oracle (the property on the implementation): for tame scripts (no idle reaping, well-formed non-shrinking interest
sets, no epoll_ctl failures) the two drivers produce the same transcript: same calls with the same arguments in the same
order, same bytes accepted by the client socket up to the exit, same exit, client closed; the threaded driver then flushes.
Thorough: the live conversation corpus under --threaded / --local-executor 1 / --local-executor 0 with 1/2/4 workers."""
import asyncio, copy, errno, select, selectors, logging
import common as C
import sim as SIM
from props import exec_common as X
from props import C10 as TEN

ID = 'C17'
CASE_TIMEOUT = 120   # per-case wall-clock limit of the driver's hang detection (scripted drivers; thorough live runs are in extra_checks)
COQ_TARGETS = ['theories/Props/C17.vo', 'theories/Exec/ModesCases.vo', 'theories/Exec/FdTableCases.vo', 'theories/Exec/DispatchFacts.vo',
               'theories/Exec/DispatchLocksFacts.vo']
IMPORTS = ('From PM Require Import Lib.Bytes Lib.ZDict Exec.Threadless Exec.ThreadlessOld Exec.ThreadlessCases Exec.Modes Exec.ModesCases Exec.FdTable Exec.FdTableCases Exec.Dispatch.\n'
           'From Coq Require Import ZArith.')
CASE_TYPE = 'c17case'
CHECK_FN = 'check_c17'
ANCHOR_FILES = ['proxy/http/handler.py', 'proxy/core/work/threadless.py', 'proxy/core/work/threaded.py', 'proxy/core/acceptor/acceptor.py',
                'proxy/core/work/delegate.py', 'proxy/core/work/fd/remote.py', 'proxy/core/work/fd/local.py', 'proxy/core/work/fd/fd.py']
RULE = ('cases = scripted-handler schedules (<= 14 iterations; per iteration the ready set, epoll_ctl failures; the handler returns/raises '
        'per script at initialize/get_events/handle_events/is_inactive, queues bytes for the client and flushes when writable; the fake '
        'client socket accepts/short-writes/fails per script) in two streams: "tame" (premises of C17_local_eq_threaded hold) run under '
        'BOTH drivers and compared with each other and with both models, and "wild" (anything goes: invalid masks, closed fds, shrinking '
        'interest, idle reaping, failures during flush) compared with the models only; plus "handoff" (real descriptor passing). '
        'Non-trivial: at least one handle_events call with something ready and at least one byte accepted by the client; distinct = distinct case dicts')
TRUSTED = ['FakeEpoll inside the real EpollSelector stands for the kernel in streams (t) and (l); FakeSock for the client socket',
           'threads: one HttpProtocolHandler.run per connection shares no state with other connections (start_threaded_work creates the work and its private selector per connection), hence a single run is the whole threaded model',
           'remote mode (PARTIAL): process scheduling and SCM_RIGHTS are not modelled beyond the descriptor-table rules of Exec/FdTable.v; after the hand-off the remote executor runs the same Threadless code as the local one']
ASSUMPTIONS = ['C17_local_eq_threaded: no idle reaping (is_inactive False), handle_events with nothing ready is a no-op, get_events returns distinct valid descriptors with masks in {1,2,3} and never drops a descriptor, no epoll_ctl failure',
               'the drivers differ at shutdown: the threaded one flushes a pending client buffer (blocking); equal transcripts need the buffer to be empty there (C07)']
SHARD = 24
CLIENT_FD = 41


# ----------------------------------------------------------------------------- the scripted handler
def make_handler_klass(drv):
    from proxy.http.handler import HttpProtocolHandler

    class ScriptedHandler(HttpProtocolHandler):
        def __init__(self, *a, **kw):
            super().__init__(*a, **kw)
            sc = getattr(self.work.connection, 'script', None) or drv.script
            self.s_init = sc.get('init')
            self.s_get = list(sc.get('get', []))
            self.s_handle = list(sc.get('handle', []))
            self.s_inactive = list(sc.get('inactive', []))
            self.hlog = []
            drv.handler = self
            drv.handlers[self.work.connection.fd] = self

        def initialize(self):
            self.hlog.append(['init'])
            if self.s_init is not None:
                raise X.make_exc(self.s_init)

        def is_inactive(self):
            drv.on_is_inactive()
            if not self.s_inactive:
                return False
            x = self.s_inactive.pop(0)
            if 'raise' in x:
                raise X.make_exc(x['raise'])
            return bool(x['ret'])

        async def get_events(self):
            self.hlog.append(['get'])
            if not self.s_get:
                return {}
            x = self.s_get.pop(0)
            if 'raise' in x:
                raise X.make_exc(x['raise'])
            return {fd: m for fd, m in x['ev']}

        async def handle_events(self, r, w):
            r, w = list(r), list(w)
            if not r and not w:
                return False
            self.hlog.append(['handle', r, w])
            if not self.s_handle:
                return False
            x = self.s_handle.pop(0)
            for n in x.get('queue', []):
                self.work.queue(memoryview(b'x' * n))
            if x.get('flush') and self.work.connection.fileno() in w and self.work.has_buffer():
                try:
                    self.work.flush(self.flags.max_sendbuf_size)
                except OSError as e:
                    raise
            if 'raise' in x:
                raise X.make_exc(x['raise'])
            return bool(x['ret'])

        def shutdown(self):
            self.hlog.append(['shutdown'])
            super().shutdown()

    return ScriptedHandler


def errno_of(kind):
    return {'pipe': errno.EPIPE, 'block': errno.EAGAIN, 'oserror': errno.EIO, 'reset': errno.ECONNRESET}[kind]


class HDriver:
    def __init__(self, case):
        self.case = case
        self.script = case['script']
        self.events = case['events']          # events[0] = arrival / initialize, events[1:] = loop iterations
        self.k = 0
        self.in_flush = False
        self.flush_left = None
        self.snapshot = None
        self.handler = None
        self.handlers = {}
        self.sock = SIM.FakeSock('client')
        self.sock.fd = CLIENT_FD
        for x in case['script'].get('send', []):
            if isinstance(x, int):
                self.sock.script_send(x)
            else:
                self.sock.script_send(SIM.io_error({'pipe': 'pipe', 'block': 'block', 'oserror': 'oserror', 'reset': 'reset'}[x]))
        self.mode = None

    # FakeEpoll interface (exec_common.FakeEpoll calls these)
    def cur(self):
        return self.events[self.k] if self.k < len(self.events) else {}

    def cur_kfail(self):
        return set(self.cur().get('kfail', []))

    def observe(self):
        h = self.handler
        return dict(log=[list(x) for x in h.hlog] if h else [],
                    sent=[[a, b] for (what, *rest) in self.sock.log if what == 'send' for a, b in [rest]],
                    buf=[len(mv) for mv in h.work.buffer] if h else [],
                    closed=self.sock.closed)

    def on_is_inactive(self):
        if self.mode == 'threaded':
            self.k += 1
            if self.k >= len(self.events):
                self.snapshot = self.observe()
                raise X.EndOfSchedule()

    def on_select(self):
        self.polls = getattr(self, 'polls', 0) + 1
        if self.polls > 4 * len(self.events) + 40:
            # a driver that no longer consults is_inactive / never leaves its loop: cut the run (reported as running)
            self.snapshot = self.observe()
            raise X.EndOfSchedule()
        if self.in_flush:
            if not self.flush_left:
                raise X.EndOfSchedule()
            ok = self.flush_left.pop(0)
            return [(self.sock.fd, select.EPOLLOUT)] if ok else []
        return [(fd, (select.EPOLLIN if m & 1 else 0) | (select.EPOLLOUT if m & 2 else 0)) for fd, m in self.cur().get('ready', [])]

    # ---- threaded: the real HttpProtocolHandler.run
    def run_threaded(self):
        from proxy.http.connection import HttpClientConnection
        self.mode = 'threaded'
        flags = threaded_flags()
        klass = make_handler_klass(self)
        logging.disable(logging.CRITICAL)
        try:
            h = klass(HttpClientConnection(self.sock, ('1.2.3.4', 5555)), flags=flags)
            h.selector.close()
            h.selector = X.FakeSelector(self)
            orig_flush = h._flush
            drv = self
            def flush():
                drv.in_flush = True
                # the select() results seen inside _flush belong to the event in force when the loop was left
                drv.flush_left = list(drv.cur().get('flush', []))
                try:
                    orig_flush()
                finally:
                    drv.in_flush = False
            h._flush = flush
            status = None
            try:
                h.run()
                status = 1
            except X.EndOfSchedule:
                status = 1 if self.snapshot is None else 0      # cut inside _flush: run() would have gone on to close
            except Exception as e:
                status = 1000 + exn_code17(e)
            obs = self.snapshot if (status == 0 and self.snapshot is not None) else self.observe()
            return dict(obs=obs, status=status, sel=len(h.selector._fd_to_key) if hasattr(h.selector, '_fd_to_key') and h.selector._fd_to_key is not None else 0)
        finally:
            logging.disable(0)

    # ---- threadless: the real Threadless._run_forever (local executor)
    def run_threadless(self):
        from proxy.core.work.fd import LocalFdExecutor
        from proxy.common.backports import NonBlockingQueue
        import proxy.core.work.threadless as TL
        self.mode = 'threadless'
        flags = X.get_flags()
        klass = make_handler_klass(self)
        flags.work_klass = klass
        logging.disable(logging.CRITICAL)
        ex = LocalFdExecutor(iid='1', work_queue=NonBlockingQueue(), flags=flags)
        ex._loop = asyncio.new_event_loop()
        self.ex = ex
        try:
            ex.selector = X.FakeSelector(self)
            ex.wait_timeout = 0.001
            tl = self.case.get('tick_limit', 39)
            ex.cleanup_inactive_timeout = tl * (TL.DEFAULT_SELECTOR_SELECT_TIMEOUT + ex.wait_timeout) - 1e-9
            ex.work_queue.put((self.sock, ('1.2.3.4', 5555)))
            orig = ex._run_once
            drv = self
            self.k = -1
            async def counted():
                drv.k += 1
                if drv.k >= len(drv.events):
                    raise X.EndOfSchedule()
                return await orig()
            ex._run_once = counted
            status = None
            try:
                ex.loop.run_until_complete(ex._run_forever())
                status = 'stopped'
            except X.EndOfSchedule:
                status = 'running'
            except Exception as e:
                status = 'crashed:%s' % type(e).__name__
            live = len(ex.works) > 0
            return dict(obs=self.observe(), status=status, live=live, leftover=dict(registered=len(ex.registered_events_by_work_ids),
                                                                                     sel=len(ex.selector._fd_to_key)))
        finally:
            for t in list(ex.unfinished):
                t.cancel()
            try:
                ex.loop.run_until_complete(asyncio.sleep(0))
            except BaseException:
                pass
            ex.loop.close()
            logging.disable(0)


def make_sock(fd, script):
    sock = SIM.FakeSock('client')
    sock.fd = fd
    sock.script = script
    for x in script.get('send', []):
        sock.script_send(x if isinstance(x, int) else SIM.io_error(x))
    return sock


def observe_handler(h, sock):
    return dict(log=[list(x) for x in h.hlog] if h else [],
                sent=[[a, b] for (what, *rest) in sock.log if what == 'send' for a, b in [rest]],
                buf=[len(mv) for mv in h.work.buffer] if h else [], closed=sock.closed)


class MultiDriver:
    """several scripted handlers in ONE real executor loop: events[k] may carry an arriving connection"""
    def __init__(self, case):
        self.case = case
        self.events = case['events']
        self.k = -1
        self.handlers = {}
        self.handler = None
        self.script = {}
        self.socks = {}
        self.in_flush = False

    def cur(self):
        return self.events[self.k] if 0 <= self.k < len(self.events) else {}

    def cur_kfail(self):
        return set(self.cur().get('kfail', []))

    def on_is_inactive(self):
        pass

    def on_select(self):
        conn = self.cur().get('conn')
        if conn is not None:
            sock = make_sock(conn['fd'], conn['script'])
            self.socks[conn['fd']] = sock
            self.ex.work_queue.put((sock, ('1.2.3.4', 5555)))
        return [(fd, (select.EPOLLIN if m & 1 else 0) | (select.EPOLLOUT if m & 2 else 0)) for fd, m in self.cur().get('ready', [])]

    def run(self):
        from proxy.core.work.fd import LocalFdExecutor
        from proxy.common.backports import NonBlockingQueue
        import proxy.core.work.threadless as TL
        flags = X.get_flags()
        flags.work_klass = make_handler_klass(self)
        logging.disable(logging.CRITICAL)
        ex = LocalFdExecutor(iid='1', work_queue=NonBlockingQueue(), flags=flags)
        ex._loop = asyncio.new_event_loop()
        self.ex = ex
        try:
            ex.selector = X.FakeSelector(self)
            ex.wait_timeout = 0.001
            tl = self.case.get('tick_limit', 39)
            ex.cleanup_inactive_timeout = tl * (TL.DEFAULT_SELECTOR_SELECT_TIMEOUT + ex.wait_timeout) - 1e-9
            orig = ex._run_once
            drv = self
            async def counted():
                drv.k += 1
                if drv.k >= len(drv.events):
                    raise X.EndOfSchedule()
                return await orig()
            ex._run_once = counted
            try:
                ex.loop.run_until_complete(ex._run_forever())
                status = 'stopped'
            except X.EndOfSchedule:
                status = 'running'
            except Exception as e:
                status = 'crashed:%s' % type(e).__name__
            per = {}
            for fd, sock in self.socks.items():
                per[str(fd)] = dict(obs=observe_handler(self.handlers.get(fd), sock), live=fd in ex.works)
            return dict(status=status, per=per)
        finally:
            for t in list(ex.unfinished):
                t.cancel()
            try:
                ex.loop.run_until_complete(asyncio.sleep(0))
            except BaseException:
                pass
            ex.loop.close()
            logging.disable(0)


# ----------------------------------------------------------------------------- the dispatch protocol, real code, in-memory pipes
class MemPipe:
    """stands for one end pair of the multiprocessing pipe of a remote worker: records what the acceptor side writes
    (send / send_handle) and serves it to the worker side (recv / recv_handle) in order, with the failure the real
    pipe would produce when the reader asks for the wrong kind of message"""
    def __init__(self):
        self.q = []
    def send(self, obj):
        self.q.append(('obj', obj))
    def fileno(self):
        return 5
    def recv(self):
        if not self.q:
            raise EOFError('empty pipe')
        kind, v = self.q[0]
        if kind != 'obj':
            raise TypeError('recv(): next message is a passed descriptor, not a pickled object')
        self.q.pop(0)
        return v
    def recv_handle(self):
        if not self.q:
            raise EOFError('empty pipe')
        kind, v = self.q[0]
        if kind != 'handle':
            raise OSError(errno.EBADMSG, 'recv_handle(): next message carries no descriptor')
        self.q.pop(0)
        return v
    def close(self):
        pass


class _Conn:
    def __init__(self, fd):
        self.fd = fd
        self.closed = False
    def fileno(self):
        return -1 if self.closed else self.fd
    def close(self):
        self.closed = True


def run_dispatch(case):
    """REAL Acceptor._work (worker index, call of delegate_work_to_pool with its arguments), REAL delegate_work_to_pool,
    REAL RemoteFdExecutor.receive_from_work_queue; only the pipe, send_handle/recv_handle and threading.Thread are stand-ins"""
    import multiprocessing, types
    from unittest import mock
    from proxy.common.flag import FlagParser
    from proxy.core.acceptor import Acceptor
    import proxy.core.acceptor.acceptor as ACC
    import proxy.core.work.delegate as DEL
    import proxy.core.work.fd.remote as RM
    from proxy.core.work.fd import RemoteFdExecutor
    nw, idd, unix = case['nw'], case['idd'], case['unix']
    logging.disable(logging.CRITICAL)
    try:
        flags = FlagParser.initialize(threadless=True, local_executor=0, num_workers=nw)
        flags.unix_socket_path = '/tmp/verif-c17.sock' if unix else None
        pipes = [MemPipe() for _ in range(nw)]
        held = []                  # indices of the per-worker locks held right now
        class RecLock:
            """stands for the multiprocessing.Lock guarding one worker's pipe; records who holds it"""
            def __init__(self, k):
                self.k = k
            def acquire(self, *a, **kw):
                held.append(self.k); return True
            def release(self):
                held.remove(self.k)
            def __enter__(self):
                self.acquire(); return self
            def __exit__(self, *a):
                self.release(); return False
        writes = []                # (pipe index, kind of message, locks held while it was written)
        for k_, p_ in enumerate(pipes):
            def send(obj, p_=p_, k_=k_):
                writes.append((k_, 'obj', tuple(held)))
                p_.q.append(('obj', obj))
            p_.send = send
        acc = Acceptor(idd=idd, fd_queue=mock.MagicMock(), flags=flags, lock=multiprocessing.Lock(),
                       executor_queues=pipes, executor_pids=list(range(100, 100 + nw)),
                       executor_locks=[RecLock(k) for k in range(nw)])
        class SyncThread:
            def __init__(self, target=None, args=(), kwargs=None):
                self.target, self.args, self.kwargs = target, args, kwargs or {}
                self.ident = 1
            def start(self):
                self.target(*self.args, **self.kwargs)
        pid_of = []                # (pipe index, pid given to send_handle)
        def fake_send_handle(conn, handle, pid):
            writes.append((pipes.index(conn), 'handle', tuple(held)))
            pid_of.append((pipes.index(conn), pid))
            conn.q.append(('handle', handle))
        status, served = 0, [[] for _ in range(nw)]
        conns = []
        with mock.patch.object(ACC.threading, 'Thread', SyncThread), mock.patch.object(DEL, 'send_handle', fake_send_handle):
            try:
                for addr, fd in case['conns']:
                    c = _Conn(fd)
                    conns.append(c)
                    acc._work(c, None if addr is None else ('10.0.0.%d' % (addr % 250), addr))
            except Exception as e:
                status = 1000 + C.exn_code(e)
        not_closed = [c.fd for c in conns if not c.closed]
        if status == 0:
            with mock.patch.object(RM, 'recv_handle', lambda conn: conn.recv_handle()):
                for k, pipe in enumerate(pipes):
                    ex = RemoteFdExecutor(iid=str(k), work_queue=pipe, flags=flags)
                    got = served[k]
                    ex.work = lambda fileno, addr, conn, got=got: got.append([fileno, None if addr is None else addr[1]])
                    try:
                        while pipe.q:
                            ex.receive_from_work_queue()
                    except Exception as e:
                        status = 1000 + C.exn_code(e)
                        break
        return dict(status=status, served=served, not_closed=not_closed, writes=[list(w[:2]) + [list(w[2])] for w in writes],
                    pid_of=[list(x) for x in pid_of])
    finally:
        logging.disable(0)


def gen_dispatch_grid(rng, quick):
    cases = []
    for unix in (False, True):
        for nw in (1, 2, 3, 4):
            for idd in range(0, 6):
                if quick and (idd + nw) % 2 and not (idd >= nw):
                    continue
                n = rng.randrange(1, 7)
                conns = [[(None if (unix and rng.random() < 0.5) else 4000 + rng.randrange(1000)), 20 + j] for j in range(n)]
                cases.append(dict(kind='dispatch', unix=unix, nw=nw, idd=idd, conns=conns))
    return cases


def coq_dispatch(case, out):
    conns = C.coq_list('(%s, %d%%Z)' % ('None' if a is None else '(Some %d)' % a, fd) for a, fd in case['conns'])
    served = C.coq_list(C.coq_list('(%d%%Z, %s)' % (fd, 'None' if a is None else '(Some %d)' % a) for fd, a in w) for w in out['served'])
    terms = ['C17D (CDispatch %s %d %d %s %d %s)' % (C.coq_bool(case['unix']), case['idd'], case['nw'], conns, out['status'], served)]
    if out['status'] == 0 and 'writes' in out:
        # lock discipline, compared IN COQ with the interleaving model (Exec/DispatchLocks.v, check_lcase in Exec/ModesCases.v):
        # per message written (pipe index, is it the descriptor message, locks held) and per descriptor (pipe index, pid addressed)
        writes = C.coq_list('(%d, %s, %s)' % (k, C.coq_bool(kind == 'handle'), C.coq_list('%d' % l for l in locks))
                            for k, kind, locks in out['writes'])
        pid_of = C.coq_list('(%d, %d)' % (k, pid) for k, pid in out['pid_of'])
        terms.append('C17L (CDispatchLocks %s %d %d %s %s %s)' % (C.coq_bool(case['unix']), case['idd'], case['nw'], conns, writes, pid_of))
    return terms


def dispatch_oracle(case, out):
    if out['status'] != 0:
        return 'dispatching to the remote workers raised (status %d): acceptor id %d, %d workers, unix listener %s' % (
            out['status'], case['idd'], case['nw'], case['unix'])
    if out['not_closed']:
        return 'the acceptor kept descriptors %r after delegating them' % (out['not_closed'],)
    # lock discipline of the two-message protocol (several acceptors share a worker's pipe): every message written to worker
    # k's pipe is written while holding worker k's OWN lock (and no other), and the descriptor is addressed to worker k's
    # pid - otherwise two acceptors can interleave 'address, address, descriptor, descriptor' and the worker's
    # recv_handle() fails (Exec/DispatchFacts.v: mismatch_fails / Props C17_dispatch_*)
    for k, kind, locks in out.get('writes', []):
        if list(locks) != [k]:
            return ('acceptor %d of %d workers wrote a %s message to the pipe of worker %d while holding the lock(s) %r instead of '
                    'lock %d: dispatches of different acceptors to this worker are no longer mutually exclusive' % (
                        case['idd'], case['nw'], kind, k, list(locks), k))
    for k, pid in out.get('pid_of', []):
        if pid != 100 + k:
            return 'descriptor written to the pipe of worker %d was addressed to pid %d (worker %d)' % (k, pid, pid - 100)
    got = sorted(fd for w in out['served'] for fd, _ in w)
    if got != sorted(fd for _, fd in case['conns']):
        return 'accepted connections %r, served by the workers %r' % (sorted(fd for _, fd in case['conns']), got)
    # round robin: as evenly as possible
    sizes = [len(w) for w in out['served']]
    if max(sizes) - min(sizes) > 1:
        return 'connections are not spread round-robin over the workers: %r' % (sizes,)
    if not case['unix']:
        want = {fd: a for a, fd in case['conns']}
        for w in out['served']:
            for fd, a in w:
                if want[fd] != a:
                    return 'connection %d reached its worker with peer address %r instead of %r' % (fd, a, want[fd])
    return None


_TFLAGS = None
def threaded_flags():
    global _TFLAGS
    if _TFLAGS is None:
        from proxy.common.flag import FlagParser
        logging.disable(logging.CRITICAL)
        try:
            _TFLAGS = FlagParser.initialize(threaded=True)
        finally:
            logging.disable(0)
    return _TFLAGS


def exn_code17(e):
    """as common.exn_code, but OSErrors keep their errno (the model distinguishes BrokenPipeError)"""
    if isinstance(e, OSError):
        return 200 + (e.errno or 0)
    return C.exn_code(e)


# ----------------------------------------------------------------------------- generation
UP = [410, 411]


def gen_tame(rng):
    n = rng.randrange(2, 13)
    up_at = rng.randrange(0, n + 2)
    get, cur_up = [], []
    for k in range(n + 1):
        if k >= up_at and len(cur_up) < 2 and rng.random() < 0.5:
            cur_up.append(UP[len(cur_up)])
        ev = [[CLIENT_FD, rng.choice([1, 1, 3, 2])]] + [[u, rng.choice([1, 3])] for u in cur_up]
        get.append({'ev': ev})
    handle = []
    for k in range(n):
        e = {'queue': [rng.randrange(1, 9) for _ in range(rng.choice([0, 1, 1, 2]))], 'flush': rng.random() < 0.7, 'ret': False}
        handle.append(e)
    end = rng.choice(['ret_true', 'raise', 'none', 'get_raise'])
    if end == 'ret_true':
        handle.append({'queue': [rng.randrange(1, 5)] if rng.random() < 0.4 else [], 'flush': rng.random() < 0.5, 'ret': True})
    elif end == 'raise':
        handle.append({'queue': [], 'flush': False, 'raise': rng.choice([1, 5, 3])})
    elif end == 'get_raise':
        get[rng.randrange(1, len(get))] = {'raise': rng.choice([1, 5])}
    send = []
    for _ in range(rng.randrange(0, 6)):
        send.append(rng.choice([1, 2, 3, 8, 8, 'block']))
    script = dict(get=get, handle=handle, inactive=[], send=send)
    events = [dict(clock=100)]
    for k in range(n + rng.randrange(0, 3)):
        pool = [CLIENT_FD] + UP + [499]
        ready = [[f, rng.choice([1, 2, 3])] for f in rng.sample(pool, rng.randrange(0, 4))]
        if rng.random() < 0.6 and not any(f == CLIENT_FD for f, _ in ready):
            ready.append([CLIENT_FD, 3])
        events.append(dict(ready=ready, clock=103 + 3 * k, flush=[rng.random() < 0.8 for _ in range(rng.randrange(0, 6))]))
    # interest never shrinks: get_events keeps answering (the last dict) for as long as the schedule lasts
    last = [x for x in get if 'ev' in x][-1]
    while len(get) < len(events) + 1:
        get.append(copy.deepcopy(last))
    return dict(kind='tame', script=script, events=events, tick_limit=rng.choice([2, 3, 39]))


def gen_wild(rng):
    c = gen_tame(rng)
    c['kind'] = 'wild'
    s = c['script']
    r = rng.random()
    if r < 0.2:
        k = rng.randrange(len(s['get'])); s['get'][k] = {'ev': [[CLIENT_FD, rng.choice([0, 4, 1])], [-1, 1]]}
    elif r < 0.4:
        k = rng.randrange(len(s['get'])); s['get'][k] = {'ev': [[CLIENT_FD, 1]]}            # interest shrinks
    elif r < 0.55:
        s['inactive'] = [{'ret': False}] * rng.randrange(0, 4) + [rng.choice([{'ret': True}, {'raise': 1}])]
    elif r < 0.65:
        s['init'] = rng.choice([1, 200])
    elif r < 0.8:
        k = rng.randrange(1, len(c['events'])); c['events'][k]['kfail'] = rng.sample([CLIENT_FD] + UP, rng.randrange(1, 3))
    else:
        s['send'] = s['send'] + [rng.choice(['pipe', 'oserror', 'reset'])]
        for e in s['handle']:
            e['queue'] = e.get('queue', []) + [3]
    return c


def gen_multi(rng):
    """2-3 tame connections in one executor; by construction at least two of them ask for teardown in the SAME loop
    iteration (server-initiated: handle_events returns True / raises), the situation where one executor pass must
    clean up several works"""
    n_conn = rng.choice([2, 2, 3])
    T = rng.randrange(n_conn + 1, n_conn + 5)            # the iteration in which the teardowns coincide
    total = T + rng.randrange(1, 4)
    conns = []
    for j in range(n_conn):
        fd = 41 + 10 * j
        ups = [fd * 10, fd * 10 + 1]
        steps = T - j                                     # handle_events calls before and including the last one
        get, cur = [], []
        for k in range(total + 2):
            if len(cur) < 2 and rng.random() < 0.3:
                cur.append(ups[len(cur)])
            get.append({'ev': [[fd, rng.choice([1, 3])]] + [[u, 1] for u in cur]})
        handle = [{'queue': [rng.randrange(1, 6)] if rng.random() < 0.5 else [], 'flush': True, 'ret': False} for _ in range(steps - 1)]
        together = j < 2 or rng.random() < 0.6
        last = rng.choice([{'queue': [], 'flush': True, 'ret': True}, {'queue': [], 'flush': False, 'raise': rng.choice([1, 5])}])
        if together:
            handle.append(last)
        else:
            handle += [{'queue': [], 'flush': True, 'ret': False}, last]
        conns.append(dict(fd=fd, arrive=j, script=dict(get=get, handle=handle, inactive=[], send=[rng.choice([2, 8, 8]) for _ in range(rng.randrange(0, 4))])))
    events = []
    for k in range(total):
        ev = dict(clock=100 + 3 * k, flush=[True] * 6)
        live = [c for c in conns if c['arrive'] < k]
        # every client is readable and writable in every iteration: all handlers are called in lock step
        ev['ready'] = [[c['fd'], 3] for c in live]
        rng.shuffle(ev['ready'])
        for c in conns:
            if c['arrive'] == k:
                ev['conn'] = dict(fd=c['fd'], script=c['script'])
        events.append(ev)
    return dict(kind='multi', events=events, conns=[c['fd'] for c in conns], tick_limit=rng.choice([3, 39]), T=T)


def generate(rng, tier):
    quick = tier != 'thorough'
    cases = []
    for _ in range(70 if quick else 3000):
        cases.append(gen_tame(rng))
    for _ in range(40 if quick else 2000):
        cases.append(gen_wild(rng))
    for _ in range(30 if quick else 1200):
        cases.append(gen_multi(rng))
    for k in range(2 if quick else 6):
        cases.append(dict(kind='handoff', n=k))
    cases += gen_dispatch_grid(rng, quick)
    # a connection whose initialize() fails (e.g. TLS handshake): threaded and local executor shut it down at once; the
    # remote executor must ALSO close the descriptor it received over the pipe (real ThreadlessFdExecutor.work + _cleanup)
    for _ in range(2 if quick else 60):
        for remote in (True, False):
            for ending in ('init_raises', 'handle_true', 'shutdown_raises'):
                c = TEN.ending_case(rng, ending, remote)
                c['kind'] = 'ending'
                cases.append(c)
    return cases


# ----------------------------------------------------------------------------- implementation / terms
def run_impl(case):
    if case['kind'] == 'handoff':
        return TEN.run_handoff(case)
    if case['kind'] == 'dispatch':
        return run_dispatch(case)
    if case['kind'] == 'ending':
        return X.run_schedule(case)
    if case['kind'] == 'multi':
        joint = MultiDriver(case).run()
        threaded = {}
        for j, ev in enumerate(case['events']):
            c = ev.get('conn')
            if c is None:
                continue
            # the same connection under the thread-per-connection driver: its own selector only knows its own descriptors
            single = dict(kind='tame', script=c['script'], events=[dict(clock=ev.get('clock', 0))] + [
                {k: v for k, v in e.items() if k != 'conn'} for e in case['events'][j + 1:]], tick_limit=case.get('tick_limit', 39))
            d = HDriver(single)
            d.sock.fd = c['fd']
            threaded[str(c['fd'])] = d.run_threaded()
        return dict(joint=joint, threaded=threaded)
    t = HDriver(case).run_threaded()
    l = HDriver(case).run_threadless()
    return dict(threaded=t, threadless=l)


def coq_hwork(s, fd=None):
    def ev(x):
        return '(inr %d)' % x['raise'] if 'raise' in x else '(inl %s)' % X.coq_fdmasks(x['ev'])
    def he(x):
        res = '(inr %d)' % x['raise'] if 'raise' in x else '(inl %s)' % C.coq_bool(x['ret'])
        return '(mk_hentry %s %s %s)' % (C.coq_list(str(n) for n in x.get('queue', [])), C.coq_bool(bool(x.get('flush'))), res)
    def bo(x):
        return '(inr %d)' % x['raise'] if 'raise' in x else '(inl %s)' % C.coq_bool(x['ret'])
    def sd(x):
        return '(inl %d)' % x if isinstance(x, int) else '(inr %d)' % errno_of(x)
    return '(mk_hwork %d%%Z %s %s %s %s %s)' % (
        CLIENT_FD if fd is None else fd, C.coq_option(C.coq_N, s.get('init')), C.coq_list(ev(x) for x in s.get('get', [])),
        C.coq_list(he(x) for x in s.get('handle', [])), C.coq_list(bo(x) for x in s.get('inactive', [])),
        C.coq_list(sd(x) for x in s.get('send', [])))


def coq_tevent(e):
    return '(mk_tevent %s %s %d %s)' % (C.coq_list('(%d%%Z, 0)' % f for f in e.get('kfail', [])), X.coq_fdmasks(e.get('ready', [])),
                                        e.get('clock', 0), C.coq_list(C.coq_bool(b) for b in e.get('flush', [])))


def coq_hcall(c):
    if c[0] == 'init': return 'HInit'
    if c[0] == 'get': return 'HGet'
    if c[0] == 'shutdown': return 'HShutdown'
    return '(HHandle %s %s)' % (X.coq_Zs(c[1]), X.coq_Zs(c[2]))


def coq_hobs(o):
    return '(mk_hobs %s %s %s %s)' % (C.coq_list(coq_hcall(c) for c in o['log']),
                                      C.coq_list('(%d, %d)' % (a, b) for a, b in o['sent']),
                                      C.coq_list(str(n) for n in o['buf']), C.coq_bool(o['closed']))


def coq_term(case, out):
    if case['kind'] == 'dispatch':
        return coq_dispatch(case, out)
    if case['kind'] == 'ending':
        return 'C17X (%s)' % X.coq_xcase(case, out, old=False)
    if case['kind'] == 'handoff':
        t = TEN.coq_handoff(case, out)
        return 'C17F (%s)' % t[len('C10F '):] if t.startswith('C10F ') else None
    if case['kind'] == 'multi':
        j = out['joint']
        if j['status'] != 'running':
            return None
        sched = C.coq_list('(%s, %s)' % (coq_tevent(e), 'None' if e.get('conn') is None else '(Some %s)' % coq_hwork(e['conn']['script'], e['conn']['fd']))
                           for e in case['events'])
        x = C.coq_list('(%s%%Z, %s, %s)' % (fd, coq_hobs(v['obs']), C.coq_bool(v['live'])) for fd, v in j['per'].items())
        terms = ['C17M (MThreadlessMulti %d %s %s)' % (case.get('tick_limit', 39), sched, x)]
        for ev_i, e in enumerate(case['events']):
            c = e.get('conn')
            if c is None:
                continue
            t = out['threaded'][str(c['fd'])]
            terms.append('C17M (MThreaded %s %s %s %s %d)' % (
                coq_hwork(c['script'], c['fd']), coq_tevent(dict(clock=e.get('clock', 0))),
                C.coq_list(coq_tevent(x2) for x2 in case['events'][ev_i + 1:]), coq_hobs(t['obs']), t['status']))
        return terms
    w = coq_hwork(case['script'])
    e0 = coq_tevent(case['events'][0])
    evs = C.coq_list(coq_tevent(e) for e in case['events'][1:])
    t, l = out['threaded'], out['threadless']
    terms = ['C17M (MThreaded %s %s %s %s %d)' % (w, e0, evs, coq_hobs(t['obs']), t['status'])]
    if l['status'] == 'running':
        terms.append('C17M (MThreadless %d %s %s %s %s %s)' % (case.get('tick_limit', 39), w, e0, evs, coq_hobs(l['obs']), C.coq_bool(l['live'])))
    if case['kind'] == 'tame':
        # the premise of C17_local_eq_threaded, decided inside Coq
        terms.append('C17M (MTame %s %s true)' % (w, evs))
    return terms


def is_tame(case):
    return case['kind'] == 'tame'


def oracle(case, out):
    if case['kind'] == 'handoff':
        return TEN.oracle(case, out)
    if case['kind'] == 'dispatch':
        return dispatch_oracle(case, out)
    if case['kind'] == 'ending':
        return TEN.oracle(case, out)
    if case['kind'] == 'multi':
        j = out['joint']
        if j['status'] != 'running':
            return 'the executor loop ended: %s' % j['status']
        for fd, v in j['per'].items():
            f = compare_modes(out['threaded'][fd], dict(obs=v['obs'], live=v['live']))
            if f:
                return 'connection on descriptor %s (one of %d sharing the executor): %s' % (fd, len(j['per']), f)
        return None
    t, l = out['threaded'], out['threadless']
    if l['status'] != 'running':
        return 'the executor loop ended: %s' % l['status']
    if not is_tame(case):
        return None
    return compare_modes(t, l)


def compare_modes(t, l):
    """per-connection transcript under the thread-per-connection driver vs under the executor: same calls in the same
    order, same data events towards the client before the exit, same exit, close present in both or in neither"""
    to, lo = t['obs'], l['obs']
    # same exit
    t_over = t['status'] != 0
    if t_over == l['live']:
        return 'one driver is still serving while the other has left its loop (threaded status %r, threadless live %r)' % (t['status'], l['live'])
    if to['log'] != lo['log']:
        k = next((i for i, (a, b) in enumerate(zip(to['log'], lo['log'])) if a != b), min(len(to['log']), len(lo['log'])))
        return 'the handler is driven differently: call #%d is %r (threaded) vs %r (threadless)' % (
            k, to['log'][k] if k < len(to['log']) else None, lo['log'][k] if k < len(lo['log']) else None)
    if to['closed'] != lo['closed']:
        return 'client socket closed in one mode only'
    n = len(lo['sent'])
    if to['sent'][:n] != lo['sent']:
        return 'bytes accepted by the client differ before the exit: %r vs %r' % (to['sent'], lo['sent'])
    if len(to['sent']) > n and not lo['buf']:
        return 'the threaded driver sent more although nothing was pending at the exit'
    if not lo['buf'] and to['sent'] != lo['sent']:
        return 'transcripts differ although no client data was pending at shutdown'
    return None


def nontrivial(case, out):
    if case['kind'] == 'handoff':
        return True
    if case['kind'] == 'dispatch':
        return out['status'] == 0 and len(case['conns']) >= 2
    if case['kind'] == 'ending':
        return TEN.nontrivial(case, out)
    if case['kind'] == 'multi':
        gone = [v for v in out['joint']['per'].values() if not v['live']]
        return len(gone) >= 2
    o = out['threaded']['obs']
    return any(c[0] == 'handle' for c in o['log']) and len(o['sent']) > 0


def classify(case, out, failure):
    return None


def extra_checks(rng, tier):
    cov, notes, failures = {}, [], []
    if tier == 'thorough':
        try:
            from props import exec_live as L
            live = L.c17_live(rng, workers=(1, 2, 4))
            cov['live_three_modes'] = {k: v for k, v in live.items() if k != 'reference'}
            cov['live_reference'] = live.get('reference')
            if live.get('failure'):
                failures.append(dict(case=dict(kind='live', what=live['failure']), out=None, what=live['failure']))
        except Exception as e:
            notes.append('live three-mode run failed to start: %r' % (e,))
    return dict(failures=failures, notes=notes, **cov)
