"""C16 — WebSocket frames: correspondence of Ws/Frame.v with proxy/http/websocket/frame.py and
the property's own statement (independent RFC 6455 encoder, round trip) on the implementation;
and, for the frame STREAM and the handshake (Ws/Stream.v): the real HttpProtocolHandler + HttpWebServerPlugin
with a recording websocket route driven through the fake sockets of harness/sim.py, the real
build_websocket_handshake_* builders and the real WebsocketClient."""
import struct, base64, hashlib
from unittest import mock
import common as C

ID = 'C16'
COQ_TARGETS = ['theories/Props/C16.vo', 'theories/Ws/FrameCases.vo', 'theories/Ws/StreamCases.vo']
IMPORTS = 'From PM Require Import Lib.Bytes Ws.Frame Ws.Sha1 Ws.FrameCases Ws.Stream Ws.StreamCases.'
CASE_TYPE = 'scase'
CHECK_FN = 'check_scase'
ANCHOR_FILES = ['proxy/http/websocket/frame.py']
# also modelled since the stream extension (line coverage is recorded for them; the digest baseline in
# harness/anchors.json still covers ANCHOR_FILES only)
COVERAGE_FILES = ['proxy/http/server/web.py', 'proxy/http/websocket/client.py', 'proxy/common/utils.py']
RULE = ('cases = frames (16 flag combinations x opcodes 0..15 (+ invalid) x masked/unmasked with random keys x payload lengths '
        '{0..130, 65530..65540, sampled up to 2^20}) built by WebsocketFrame.build, the result followed by random trailing bytes '
        'parsed back by WebsocketFrame.parse, damaged/truncated frames, and handshake keys; a case is non-trivial when the '
        'implementation returned a value (no exception) and the payload or key is non-empty; distinct = distinct inputs. '
        'STREAM cases (kinds ws/*): one client connection of the real web server with a recording websocket route: an upgrade '
        'request, then 1-4 segments each holding 0-5 generated frames (several frames per segment, the first ones optionally in '
        'the segment of the upgrade request), close frames in the middle followed by frames/garbage/later segments; a separate '
        'malformed stream (last frame truncated at every kind of position, frames split across segments, random bytes); '
        'handshake cases (kinds hs/*): upgrade requests with random keys and without key, the handshake request builder; '
        'client cases (kinds client/*): WebsocketClient.upgrade against scripted responses, run_once on segments of 1-3 frames. '
        'A stream case is non-trivial when at least one frame was delivered to the route')
TRUSTED = ['struct.pack/unpack semantics for !B !H !Q as modelled in Ws/Frame.v (be_encode/be_decode, range errors)',
           'hashlib.sha1 and base64.b64encode are compared against the executable Coq reference Ws/Sha1.v on every run',
           'RFC 6455 section 5.2 as transcribed in Ws/FrameSpec.v (rfc_encode), cross-validated on every run against the independent Python encoder in this module']
ASSUMPTIONS = ['secrets.token_bytes(4) returns 4 octets (the random masking key is an input of the model)',
               'stream cases: the websocket route keeps the default on_client_data (returns raw), client_recvbuf_size is the '
               'default 128 KiB (larger segments are split by recv itself: case kind ws/recvbuf), one handle_data call per recv']
TRUSTED += ['harness/sim.py fake sockets + the recording route plugin (snapshots of the reused frame object at call time)',
            'HttpParser: the value of the Sec-WebSocket-Key header is what request.header() returns (parser itself: C03/C15)',
            'Net/Responses.v status-line / header-field recogniser as transcription of RFC 7230 (cross-checked by h11 on every run)']
SHARD = 150


# ----------------------------------------------------------------- compact byte descriptors
def coq_bytes_compact(data):
    data = bytes(data)
    n = len(data)
    if n <= 300:
        return C.coq_bytes(data)
    for hl in range(0, 17):
        body = data[hl:]
        for period in range(1, 13):
            pat = body[:period]
            if (pat * (len(body) // period + 1))[:len(body)] == body:
                return '(%s ++ bpat %s %d)' % (C.coq_bytes(data[:hl]), C.coq_bytes(pat), len(body))
    return C.coq_bytes(data)


def payload_of(desc):
    pat, n = desc
    if not pat:
        return b''
    return (bytes(pat) * (n // len(pat) + 1))[:n]


def coq_frame(fr):
    d = fr['data']
    return ('{| fin := %s; rsv1 := %s; rsv2 := %s; rsv3 := %s; opcode := %d; masked := %s; '
            'payload_length := %s; mask := %s; data := %s |}') % (
        C.coq_bool(fr['fin']), C.coq_bool(fr['rsv1']), C.coq_bool(fr['rsv2']), C.coq_bool(fr['rsv3']),
        fr['opcode'], C.coq_bool(fr['masked']),
        C.coq_option(C.coq_N, fr['payload_length']),
        C.coq_option(coq_bytes_compact, fr['mask']),
        C.coq_option(coq_bytes_compact, None if d is None else (d if isinstance(d, bytes) else payload_of(d))))


def frame_data(fr):
    d = fr['data']
    return None if d is None else (d if isinstance(d, bytes) else payload_of(d))


# ----------------------------------------------------------------- generation
def rand_payload_desc(rng, n):
    if n == 0:
        return b''
    if n <= 200:
        return bytes(rng.randrange(256) for _ in range(n))
    pl = rng.choice([1, 2, 3, 4, 5, 6])
    return [list(rng.randrange(256) for _ in range(pl)), n]


def mk_frame(rng, n, masked=None, opcode=None):
    masked = rng.random() < 0.5 if masked is None else masked
    fr = dict(fin=rng.random() < 0.5, rsv1=rng.random() < 0.5, rsv2=rng.random() < 0.5, rsv3=rng.random() < 0.5,
              opcode=rng.randrange(16) if opcode is None else opcode, masked=masked,
              payload_length=None, mask=None, data=rand_payload_desc(rng, n))
    if masked and rng.random() < 0.85:
        fr['mask'] = bytes(rng.randrange(256) for _ in range(4))
    r = rng.random()
    if r < 0.15:
        fr['payload_length'] = n
    return fr


def generate_frames(rng, tier):
    cases = []
    quick = tier != 'thorough'
    lengths = list(range(0, 131)) + list(range(65530, 65541))
    if quick:
        lengths = list(range(0, 131, 1 if rng.random() < 2 else 3))
        big = [65535, 65536]
    else:
        big = [65530, 65534, 65535, 65536, 65537, 65540] + [rng.randrange(65541, 300000) for _ in range(2)] + [1 << 20]
    # structured stream: build, then parse what was built followed by a tail
    combos = [(a, b) for a in range(16) for b in (False, True)]
    k = 0
    for n in lengths:
        reps = 2 if quick else 8
        for _ in range(reps):
            op, m = combos[k % len(combos)]; k += 1
            fr = mk_frame(rng, n, masked=m, opcode=op)
            cases.append(dict(kind='build', frame=fr, rnd=bytes(rng.randrange(256) for _ in range(4)),
                              tail=bytes(rng.randrange(256) for _ in range(rng.choice([0, 0, 1, 2, 7, 30])))))
    for n in big:
        for m in (False, True):
            fr = mk_frame(rng, n, masked=m)
            cases.append(dict(kind='build', frame=fr, rnd=bytes(rng.randrange(256) for _ in range(4)),
                              tail=bytes(rng.randrange(256) for _ in range(rng.choice([0, 3, 9])))))
    # flag sweep at a few lengths: all 2^4 flags x 16 opcodes x masked
    for flags in range(16):
        for op in range(16):
            for m in (False, True):
                if quick and (flags * 16 + op) % 4 != (1 if m else 2):
                    continue
                n = rng.choice([0, 1, 5, 125, 126, 127])
                fr = mk_frame(rng, n, masked=m, opcode=op)
                fr.update(fin=bool(flags & 8), rsv1=bool(flags & 4), rsv2=bool(flags & 2), rsv3=bool(flags & 1))
                cases.append(dict(kind='build', frame=fr, rnd=b'\x01\x02\x03\x04', tail=b'tail'))
    # malformed stream for build: inconsistent payload_length, bad opcode, bad mask length, data None
    for _ in range(40 if quick else 400):
        n = rng.choice([0, 1, 2, 10, 125, 126, 130])
        fr = mk_frame(rng, n)
        r = rng.randrange(6)
        if r == 0: fr['payload_length'] = rng.choice([0, 1, 125, 126, 127, 65535, 65536, (1 << 64) - 1, 1 << 64, (1 << 64) + 5])
        elif r == 1: fr['opcode'] = rng.choice([16, 17, 128, 255, 256, 300])
        elif r == 2: fr['masked'] = True; fr['mask'] = bytes(rng.randrange(256) for _ in range(rng.choice([0, 1, 2, 3, 5, 8])))
        elif r == 3: fr['data'] = None
        elif r == 4: fr['data'] = None; fr['payload_length'] = rng.choice([0, 3, 126])
        else: fr['data'] = b''; fr['payload_length'] = rng.choice([None, 0, 2])
        cases.append(dict(kind='build', frame=fr, rnd=bytes(rng.randrange(256) for _ in range(4)), tail=b''))
    # malformed stream for parse: truncations and random bytes
    for _ in range(60 if quick else 800):
        n = rng.choice([0, 1, 2, 10, 125, 126, 127, 130, 300])
        fr = mk_frame(rng, n)
        raw = ref_encode(fr, b'\x09\x08\x07\x06')
        r = rng.randrange(4)
        if r == 0: raw = raw[:rng.randrange(0, len(raw) + 1)]
        elif r == 1: raw = bytes(rng.randrange(256) for _ in range(rng.randrange(0, 20)))
        elif r == 2:
            i = rng.randrange(0, min(len(raw), 12)); raw = raw[:i] + bytes([rng.randrange(256)]) + raw[i + 1:]
        else: raw = raw + bytes(rng.randrange(256) for _ in range(rng.randrange(0, 9)))
        self_mask = rng.choice([None, None, b'abcd'])
        cases.append(dict(kind='parse', raw=raw, self_mask=self_mask))
    # histories on ONE frame object: WebsocketFrame.reset() exists so that objects are reused; every build after a reset must
    # be what a fresh object would produce (longer then shorter payloads, masked then unmasked, parse then rebuild)
    for _ in range(12 if quick else 150):
        sizes = rng.choice([[300, 5], [130, 0], [126, 125, 1], [5, 300, 5], [70000, 0] if not quick else [200, 3], [40, 40], [1, 0, 1]])
        steps = []
        for n in sizes:
            steps.append(dict(frame=mk_frame(rng, n), rnd=bytes(rng.randrange(256) for _ in range(4)),
                              via_parse=rng.random() < 0.3))
        cases.append(dict(kind='seq', steps=steps))
    # handshake keys
    for _ in range(40 if quick else 400):
        ln = rng.choice([0, 1, 16, 19, 20, 24, 27, 28, 55, 56, 64, 100, 119, 120, 200])
        cases.append(dict(kind='accept', key=bytes(rng.randrange(256) for _ in range(ln))))
    cases.append(dict(kind='accept', key=b'dGhlIHNhbXBsZSBub25jZQ=='))
    # boundary stream for keys: surrounding whitespace / NUL / high bytes must be hashed as they are
    for pre in (b'', b' ', b'\t', b'\n'):
        for post in (b'', b' ', b'\r\n', b'\x00'):
            cases.append(dict(kind='accept', key=pre + b'dGhlIHNhbXBsZSBub25jZQ==' + post))
    return cases


# ----------------------------------------------------------------- independent RFC 6455 encoder (spec oracle)
def ref_encode(fr, rnd):
    data = frame_data(fr) or b''
    n = len(data)
    b0 = (128 if fr['fin'] else 0) + (64 if fr['rsv1'] else 0) + (32 if fr['rsv2'] else 0) + (16 if fr['rsv3'] else 0) + fr['opcode']
    out = bytearray([b0])
    m = 128 if fr['masked'] else 0
    if n < 126: out.append(m + n)
    elif n < 65536: out.append(m + 126); out += n.to_bytes(2, 'big')
    else: out.append(m + 127); out += n.to_bytes(8, 'big')
    if fr['masked']:
        key = fr['mask'] if fr['mask'] is not None else rnd
        out += key
        out += bytes(x ^ key[i % 4] for i, x in enumerate(data))
    else:
        out += data
    return bytes(out)


def wf(fr, rnd):
    data = frame_data(fr)
    if not (0 <= fr['opcode'] < 16): return False
    if fr['payload_length'] is not None and fr['payload_length'] != len(data or b''): return False
    if fr['masked'] and len(fr['mask'] if fr['mask'] is not None else rnd) != 4: return False
    return True


# ----------------------------------------------------------------- implementation
def set_frame(f, fr):
    f.fin, f.rsv1, f.rsv2, f.rsv3 = fr['fin'], fr['rsv1'], fr['rsv2'], fr['rsv3']
    f.opcode, f.masked, f.payload_length, f.mask = fr['opcode'], fr['masked'], fr['payload_length'], fr['mask']
    f.data = frame_data(fr)


def get_frame(f):
    return dict(fin=f.fin, rsv1=f.rsv1, rsv2=f.rsv2, rsv3=f.rsv3, opcode=f.opcode, masked=f.masked,
                payload_length=f.payload_length, mask=None if f.mask is None else bytes(f.mask),
                data=None if f.data is None else bytes(f.data))


def run_impl_frame(case):
    from proxy.http.websocket.frame import WebsocketFrame
    k = case['kind']
    if k == 'build':
        f = WebsocketFrame(); set_frame(f, case['frame'])
        with mock.patch('secrets.token_bytes', lambda n: case['rnd']):
            try:
                raw = f.build()
            except Exception as e:
                return dict(build_err=C.exn_code(e), err=repr(e))
        out = dict(raw=raw, pl=f.payload_length)
        g = WebsocketFrame()
        try:
            rest = g.parse(raw + case['tail'])
            out.update(parsed=get_frame(g), rest=bytes(rest))
        except Exception as e:
            out.update(parse_err=C.exn_code(e), err=repr(e))
        return out
    if k == 'seq':
        f = WebsocketFrame()
        outs = []
        for st in case['steps']:
            f.reset()
            if st['via_parse']:
                # relay style: fill the object by parsing an encoding of the frame, then rebuild it
                f.parse(ref_encode(st['frame'], st['rnd']))
                if st['frame']['masked'] and st['frame']['mask'] is None:
                    pass
            else:
                set_frame(f, st['frame'])
            with mock.patch('secrets.token_bytes', lambda n, st=st: st['rnd']):
                try:
                    outs.append(dict(raw=f.build(), pl=f.payload_length))
                except Exception as e:
                    outs.append(dict(build_err=C.exn_code(e), err=repr(e)))
        return dict(steps=outs)
    if k == 'parse':
        g = WebsocketFrame(); g.mask = case['self_mask']
        try:
            rest = g.parse(case['raw'])
            return dict(parsed=get_frame(g), rest=bytes(rest))
        except Exception as e:
            return dict(parse_err=C.exn_code(e), err=repr(e))
    if k == 'accept':
        return dict(token=WebsocketFrame.key_to_accept(case['key']))
    raise ValueError(k)


NEW = dict(fin=False, rsv1=False, rsv2=False, rsv3=False, opcode=0, masked=False, payload_length=None, mask=None, data=None)

def obs_frame_rest(out):
    if 'parse_err' in out:
        return '(ErrObs %d)' % out['parse_err']
    return '(OkObs (%s, %s))' % (coq_frame(out['parsed']), coq_bytes_compact(out['rest']))


def coq_term_frame(case, out):
    k = case['kind']
    if k == 'seq':
        terms = []
        for st, o in zip(case['steps'], out['steps']):
            fr = st['frame']
            if st['via_parse']:
                # what parse leaves in the object: payload_length = len, mask = key used (or None), data = payload
                d = frame_data(fr) or b''
                fr = dict(fr, payload_length=len(d), data=d,
                          mask=((fr['mask'] if fr['mask'] is not None else st['rnd']) if fr['masked'] else None))
            if 'build_err' in o:
                terms.append('CBuild %s (%s) (ErrObs %d)' % (C.coq_bytes(st['rnd']), coq_frame(fr), o['build_err']))
            else:
                terms.append('CBuild %s (%s) (OkObs (%s, %d))' % (C.coq_bytes(st['rnd']), coq_frame(fr), coq_bytes_compact(o['raw']), o['pl']))
        return terms
    if k == 'build':
        if 'build_err' in out:
            return 'CBuild %s (%s) (ErrObs %d)' % (C.coq_bytes(case['rnd']), coq_frame(case['frame']), out['build_err'])
        t1 = 'CBuild %s (%s) (OkObs (%s, %d))' % (C.coq_bytes(case['rnd']), coq_frame(case['frame']),
                                                 coq_bytes_compact(out['raw']), out['pl'])
        t2 = 'CParse (%s) %s %s' % (coq_frame(NEW), coq_bytes_compact(out['raw'] + case['tail']), obs_frame_rest(out))
        return [t1, t2]
    if k == 'parse':
        self_fr = dict(NEW, mask=case['self_mask'])
        return 'CParse (%s) %s %s' % (coq_frame(self_fr), coq_bytes_compact(case['raw']), obs_frame_rest(out))
    if k == 'accept':
        return 'CAccept %s %s' % (C.coq_bytes(case['key']), C.coq_bytes(out['token']))


def oracle_frame(case, out):
    """the property itself, evaluated on the implementation with an independent encoder"""
    k = case['kind']
    if k == 'seq':
        for i, (st, o) in enumerate(zip(case['steps'], out['steps'])):
            if not wf(st['frame'], st['rnd']):
                continue
            if 'build_err' in o:
                return 'step %d on a reused frame object: build() raised %s' % (i, o['err'])
            exp = ref_encode(st['frame'], st['rnd'])
            if o['raw'] != exp:
                return 'step %d on a reused frame object (after reset()): build() differs from the RFC 6455 encoding (len %d vs %d)' % (i, len(o['raw']), len(exp))
        return None
    if k == 'build':
        fr = case['frame']
        if not wf(fr, case['rnd']):
            return None     # outside the property's domain (inconsistent inputs)
        if 'build_err' in out:
            return 'build() raised %s on a well-formed frame' % out['err']
        exp = ref_encode(fr, case['rnd'])
        if out['raw'] != exp:
            return 'build() differs from the RFC 6455 encoding (len %d vs %d, first diff at %s)' % (
                len(out['raw']), len(exp), next((i for i, (a, b) in enumerate(zip(out['raw'], exp)) if a != b), 'length'))
        if 'parse_err' in out:
            return 'parse(build(f) + tail) raised %s' % out['err']
        p = out['parsed']
        data = frame_data(fr) or b''
        want = dict(fin=fr['fin'], rsv1=fr['rsv1'], rsv2=fr['rsv2'], rsv3=fr['rsv3'], opcode=fr['opcode'], masked=fr['masked'],
                    payload_length=len(data), data=data,
                    mask=(fr['mask'] if fr['mask'] is not None else case['rnd']) if fr['masked'] else None)
        if p != want:
            return 'parse(build(f)) yields different fields: %r' % {x: (p[x] if x != 'data' else len(p[x])) for x in p if p[x] != want[x]}
        if out['rest'] != case['tail']:
            return 'bytes after the frame not returned untouched'
        return None
    if k == 'accept':
        exp = base64.b64encode(hashlib.sha1(case['key'] + b'258EAFA5-E914-47DA-95CA-C5AB0DC85B11').digest())
        if case['key'] == b'dGhlIHNhbXBsZSBub25jZQ==' and out['token'] != b's3pPLMBiTxaQ9kYGzzhZRbK+xOo=':
            return 'accept token of the RFC 6455 example key is wrong'
        return None if out['token'] == exp else 'accept token differs from base64(sha1(key + GUID))'
    return None


def nontrivial_frame(case, out):
    k = case['kind']
    if k == 'seq':
        return all('build_err' not in o for o in out['steps'])
    if k == 'build':
        return 'build_err' not in out and 'parse_err' not in out and len(frame_data(case['frame']) or b'') > 0
    if k == 'parse':
        return 'parse_err' not in out and bool(out['parsed']['data'])
    return len(case['key']) > 0


def model_expr_frame(case):
    k = case['kind']
    if k == 'seq':
        return 'build %s (%s)' % (C.coq_bytes(case['steps'][-1]['rnd']), coq_frame(case['steps'][-1]['frame']))
    if k == 'build':
        return 'build %s (%s)' % (C.coq_bytes(case['rnd']), coq_frame(case['frame']))
    if k == 'parse':
        return 'parse (%s) %s' % (coq_frame(dict(NEW, mask=case['self_mask'])), coq_bytes_compact(case['raw']))
    return 'key_to_accept %s' % C.coq_bytes(case['key'])


def shrink_frame(case, fails):
    if case['kind'] != 'build':
        return case
    cur = dict(case)
    # shrink payload length towards the smallest failing one
    fr = dict(cur['frame'])
    d = frame_data(fr)
    if d:
        for n in [0, 1, 125, 126, 127, 65535, 65536]:
            if n < len(d):
                t = dict(cur, frame=dict(fr, data=d[:n] if len(d) <= 200 or n <= 200 else [list(d[:4]), n],
                                         payload_length=None if fr['payload_length'] is None else n), tail=b'')
                if fails(t):
                    return t
    return cur


# =====================================================================================================
# The frame STREAM and the handshake (Ws/Stream.v): the real web server, builders and client
# =====================================================================================================
GUID = b'258EAFA5-E914-47DA-95CA-C5AB0DC85B11'
FINDING_REASSEMBLY = 'C16-ws-no-reassembly'
FINDING_HS_CL = 'C16-handshake-content-length'
FRAME_KINDS = ('build', 'parse', 'seq', 'accept')
_SUPPRESSED = {}        # finding id -> number of cases on which it was seen while not listed in known_findings.json


def _listed(fid):
    return any(k['id'] == fid and k.get('status', 'open') == 'open' for k in C.load_known_findings(ID))


def py_accept(key):
    return base64.b64encode(hashlib.sha1(key + GUID).digest())


def upgrade_request(key, path=b'/ws'):
    h = [b'GET ' + path + b' HTTP/1.1', b'Host: example.org', b'Upgrade: websocket', b'Connection: Upgrade']
    if key is not None:
        h.append(b'Sec-WebSocket-Key: ' + key)
    h.append(b'Sec-WebSocket-Version: 13')
    return b'\r\n'.join(h) + b'\r\n\r\n'


def ws_frame(rng, n=None, opcode=None, masked=None):
    """a well-formed frame as a browser would send it (explicit key when masked)"""
    if n is None:
        n = rng.choice([0, 0, 1, 2, 5, 17, 60, 125, 126, 127, 200, 300, 1000])
    fr = mk_frame(rng, n, masked=masked, opcode=opcode if opcode is not None else rng.choice([0, 1, 1, 2, 2, 9, 10, 3, 7, 11, 15]))
    fr['payload_length'] = None
    if n > 1000:
        fr['data'] = [[rng.randrange(256) for _ in range(rng.choice([1, 2, 3, 4, 6]))], n]
    if fr['masked'] and fr['mask'] is None:
        fr['mask'] = bytes(rng.randrange(256) for _ in range(4))
    if not fr['masked']:
        fr['mask'] = None
    return fr


def seg_bytes(case, seg):
    """a segment is a list of parts: {'f': i} frame i whole, {'f': i, 'cut': [a, b]} bytes a:b of its encoding, {'raw': bytes}"""
    out = b''
    for part in seg:
        if 'raw' in part:
            out += bytes(part['raw'])
        else:
            enc = ref_encode(case['frames'][part['f']], b'\x00\x00\x00\x00')
            if 'cut' in part:
                a, b = part['cut']
                enc = enc[a:(len(enc) if b is None else b)]
            out += enc
    return out


def want_frame(fr):
    """what the route must be shown for a generated frame"""
    data = frame_data(fr) or b''
    return dict(fin=fr['fin'], rsv1=fr['rsv1'], rsv2=fr['rsv2'], rsv3=fr['rsv3'], opcode=fr['opcode'], masked=fr['masked'],
                payload_length=len(data), mask=fr['mask'] if fr['masked'] else None, data=data)


def gen_stream_cases(rng, tier):
    quick = tier != 'thorough'
    cases = []
    mult = 1 if quick else 8

    def key():
        return base64.b64encode(bytes(rng.randrange(256) for _ in range(16)))

    # ---- structured stream: whole frames, several per segment, no close frame
    for i in range(36 * mult):
        frames, segs = [], []
        for _ in range(rng.choice([1, 1, 2, 3, 4])):
            seg = []
            for _ in range(rng.choice([0, 1, 1, 2, 3, 5])):
                frames.append(ws_frame(rng)); seg.append({'f': len(frames) - 1})
            if seg or rng.random() < 0.3:
                segs.append(seg)
        segs = [s for s in segs if s]         # an empty recv means EOF, not an empty segment
        if not segs:
            frames.append(ws_frame(rng)); segs = [[{'f': 0}]]
        cases.append(dict(kind='ws/stream', key=key(), frames=frames, segs=segs, attach=rng.random() < 0.3))
    # boundary: both length thresholds inside a stream, and large frames (below the 128 KiB receive buffer)
    for n, m in ([(125, False), (126, True), (127, False), (65535, True), (65536, False)] if quick else
                 [(125, False), (126, True), (127, False), (65535, True), (65536, False), (65536, True), (100000, True), (131000, False)]):
        frames = [ws_frame(rng, 3), ws_frame(rng, n, masked=m), ws_frame(rng, 0)]
        big = n > 1000
        cases.append(dict(kind='ws/stream-boundary', key=key(), frames=frames,
                          segs=[[{'f': 0}], [{'f': 1}], [{'f': 2}]] if big else [[{'f': 0}, {'f': 1}, {'f': 2}]], attach=False))
    # ---- close frames in the middle
    for i in range(16 * mult):
        frames, segs = [], []
        nseg = rng.choice([1, 2, 3])
        cseg = rng.randrange(nseg)
        for si in range(nseg):
            seg = []
            k = rng.choice([0, 1, 2, 3])
            cpos = rng.randrange(k + 1) if si == cseg else None
            for j in range(k + 1):
                if cpos is not None and j == cpos:
                    c = ws_frame(rng, rng.choice([0, 2, 2, 20]), opcode=8)
                    frames.append(c); seg.append({'f': len(frames) - 1})
                    if rng.random() < 0.3:
                        seg.append({'raw': bytes(rng.randrange(256) for _ in range(rng.choice([1, 2, 3, 9])))})
                if j < k:
                    frames.append(ws_frame(rng)); seg.append({'f': len(frames) - 1})
            if seg:                               # an empty recv means EOF, not an empty segment
                segs.append(seg)
        cases.append(dict(kind='ws/close', key=key(), frames=frames, segs=segs, attach=rng.random() < 0.3))
    # ---- malformed stream 1: the last frame of the last segment is cut (every kind of position), nothing follows
    for i in range(28 * mult):
        frames = [ws_frame(rng) for _ in range(rng.choice([0, 1, 2]))]
        last = ws_frame(rng, rng.choice([0, 1, 5, 126, 130, 300, 70000 if not quick and rng.random() < 0.3 else 200]))
        frames.append(last)
        enc = ref_encode(last, b'')
        hdr = len(enc) - len(frame_data(last) or b'')
        pos = rng.choice([1, 1, 2, 3, max(1, hdr - 1), hdr, hdr + 1, rng.randrange(1, len(enc)), len(enc) - 1])
        pos = max(1, min(pos, len(enc) - 1))
        seg = [{'f': j} for j in range(len(frames) - 1)] + [{'f': len(frames) - 1, 'cut': [0, pos]}]
        cases.append(dict(kind='ws/trunc', key=key(), frames=frames, segs=[seg], attach=rng.random() < 0.2))
    # ---- malformed stream 2: a valid stream whose segment boundaries do not respect frame boundaries
    for i in range(22 * mult):
        frames = [ws_frame(rng) for _ in range(rng.choice([1, 2, 3]))]
        whole = [len(ref_encode(f, b'')) for f in frames]
        j = rng.randrange(len(frames))
        pos = rng.randrange(1, whole[j]) if whole[j] > 1 else 1
        seg1 = [{'f': x} for x in range(j)] + [{'f': j, 'cut': [0, pos]}]
        seg2 = [{'f': j, 'cut': [pos, None]}] + [{'f': x} for x in range(j + 1, len(frames))]
        cases.append(dict(kind='ws/split', key=key(), frames=frames, segs=[seg1, seg2], attach=False))
    # ---- malformed stream 3: random bytes
    for i in range(14 * mult):
        segs = [[{'raw': bytes(rng.randrange(256) for _ in range(rng.choice([1, 2, 3, 4, 9, 10, 11, 40])))}]
                for _ in range(rng.choice([1, 2]))]
        cases.append(dict(kind='ws/garbage', key=key(), frames=[], segs=segs, attach=rng.random() < 0.2))
    if not quick:
        # one frame larger than client_recvbuf_size: recv itself splits it
        fr = ws_frame(rng, 140000, masked=False)
        fr['data'] = [[rng.randrange(100, 126)], 140000]     # the tail re-read as headers gives ~80 frames, not thousands
        cases.append(dict(kind='ws/recvbuf', key=key(), frames=[fr], segs=[[{'f': 0}]], attach=False))
    # ---- handshake
    for i in range(20 * mult):
        r = rng.random()
        if r < 0.6:
            k = key()
        elif r < 0.8:
            alphabet = bytes(range(33, 127)) + bytes([128, 200, 255])
            k = bytes(rng.choice(alphabet) for _ in range(rng.choice([1, 2, 16, 24, 27, 55, 56, 64, 119, 120])))
        else:
            k = None
        cases.append(dict(kind='hs/upgrade', key=k, frames=[], segs=[], attach=False))
    cases.append(dict(kind='hs/upgrade', key=b'dGhlIHNhbXBsZSBub25jZQ==', frames=[], segs=[], attach=False))
    for i in range(8 * mult):
        cases.append(dict(kind='hs/request', key=key(), method=rng.choice([b'GET', b'GET', b'POST']),
                          url=rng.choice([b'/', b'/ws', b'/a/b?x=1']), host=rng.choice([b'localhost', b'example.org:8080', b'::1'])))
    # ---- WebsocketClient
    for i in range(10 * mult):
        k = key()
        r = rng.randrange(4)
        accept = py_accept(k) if r < 2 else (py_accept(k)[:-2] + b'A=' if r == 2 else py_accept(key()))
        cases.append(dict(kind='client/upgrade', key16=base64.b64decode(k), accept=accept, path=rng.choice([b'/', b'/ws']),
                          via_server_builder=r == 0))
    for i in range(16 * mult):
        frames = [ws_frame(rng) for _ in range(rng.choice([1, 1, 2, 3]))]
        seg = [{'f': j} for j in range(len(frames))]
        r = rng.random()
        if r < 0.25:
            enc = ref_encode(frames[-1], b'')
            seg[-1] = {'f': len(frames) - 1, 'cut': [0, rng.randrange(1, len(enc)) if len(enc) > 1 else 1]}
        elif r < 0.35:
            seg = [{'raw': bytes(rng.randrange(256) for _ in range(rng.choice([1, 2, 3, 12])))}]
        cases.append(dict(kind='client/read', frames=frames, segs=[seg]))
    return cases


def generate(rng, tier):
    return generate_frames(rng, tier) + gen_stream_cases(rng, tier)


# ----------------------------------------------------------------- the real web server with a recording websocket route
_WS = {}


def ws_env():
    if not _WS:
        import sim
        from proxy.http.server import HttpWebServerBasePlugin, httpProtocolTypes
        log = []

        class C16WsRoute(HttpWebServerBasePlugin):
            def routes(self):
                return [(httpProtocolTypes.WEBSOCKET, r'/ws$')]

            def handle_request(self, request):
                log.append(('http', bytes(request.path or b'')))

            def on_websocket_open(self):
                log.append(('open',))

            def on_websocket_message(self, frame):
                # the frame object is reset and reused by the caller: take a snapshot now
                log.append(('msg', get_frame(frame)))

            def on_client_connection_close(self):
                log.append(('closed',))

        _WS.update(sim=sim, log=log, flags=sim.make_flags(args=['--log-level', 'c', '--enable-web-server'], plugins=[C16WsRoute]))
    return _WS


def run_conn(case):
    env = ws_env()
    sim, log = env['sim'], env['log']
    del log[:]
    segs = [seg_bytes(case, s) for s in case['segs']]
    first = upgrade_request(case['key'])
    if case.get('attach') and segs:
        first += segs[0]
        feed = [first] + segs[1:]
    else:
        feed = [first] + segs
    out = dict(ws_segs=segs)
    with sim.Sim(flags=env['flags']) as s:
        bufsz = s.flags.client_recvbuf_size
        s.client.feed(*feed)
        end = 0
        hdr = None
        for _ in range(len(feed) * 3 + 12):
            r = s.auto_step()
            if hdr is None and s.h.request.is_complete:
                try:
                    hdr = s.h.request.header(b'Sec-WebSocket-Key') if s.h.request.has_header(b'Sec-WebSocket-Key') else False
                except Exception:
                    hdr = False
            if r == 'ok':
                continue
            if r == 'idle':
                break
            if r == 'teardown':
                end = 1
            elif isinstance(r, tuple):
                end = 1000 + C.exn_code(r[1]); out['err'] = repr(r[1])
            break
        else:
            out['harness_note'] = 'step budget exhausted'
        pending = b''.join(bytes(x) for x in getattr(s.h.work, 'buffer', []))
        out.update(sent=bytes(s.client.out), queued=bytes(s.client.out) + pending, end=end, client_closed=s.client.closed, torn=s.torn,
                   key_header=hdr, opened=('open',) in log, route_closed=('closed',) in log,
                   delivered=[e[1] for e in log if e[0] == 'msg'],
                   # what each recv() handed to the handler after the request (recv splits segments above its buffer size)
                   recv_split=any(len(x) > bufsz for x in feed))
    if out['recv_split']:
        pieces = []
        for x in feed:
            pieces += [x[i:i + bufsz] for i in range(0, len(x), bufsz)]
        rest = pieces[1:] if not (case.get('attach') and segs) else None
        out['ws_segs'] = rest if rest is not None else segs
    return out


def run_hs_request(case):
    from proxy.common.utils import build_websocket_handshake_request
    from proxy.common.constants import PROXY_AGENT_HEADER_VALUE
    return dict(raw=build_websocket_handshake_request(case['key'], method=case['method'], url=case['url'], host=case['host']),
                ua=PROXY_AGENT_HEADER_VALUE)


class _FakeSelector:
    def __init__(self, mask):
        self.mask = mask
    def register(self, *a, **k): pass
    def unregister(self, *a, **k): pass
    def close(self): pass
    def select(self, timeout=None):
        return [(None, self.mask)]


def _mk_client(sock, path, on_message=None):
    from proxy.http.websocket.client import WebsocketClient
    with mock.patch('proxy.http.websocket.client.new_socket_connection', lambda addr, *a, **k: sock), \
            mock.patch('socket.gethostbyname', lambda h: '127.0.0.1'):
        c = WebsocketClient(b'localhost', 8899, path, on_message=on_message)
    try:
        c.selector.close()
    except Exception:
        pass
    return c


def run_client_upgrade(case):
    import sim
    from proxy.common.utils import build_websocket_handshake_response, build_http_response
    from proxy.common.constants import PROXY_AGENT_HEADER_VALUE
    sock = sim.FakeSock('ws-upstream')
    if case['via_server_builder']:
        resp = build_websocket_handshake_response(case['accept'])
    else:
        resp = build_http_response(101, reason=b'Switching Protocols',
                                   headers={b'Upgrade': b'websocket', b'Connection': b'Upgrade', b'Sec-WebSocket-Accept': case['accept']})
    sock.feed(resp)
    c = _mk_client(sock, case['path'])
    out = dict(ua=PROXY_AGENT_HEADER_VALUE)
    with mock.patch('secrets.token_bytes', lambda n: case['key16']):
        try:
            c.upgrade(); out['accepted'] = True
        except AssertionError:
            out['accepted'] = False
        except Exception as e:
            out['accepted'] = False; out['err'] = repr(e)
    out['sent'] = bytes(sock.out)
    return out


def run_client_read(case):
    import sim, selectors
    sock = sim.FakeSock('ws-upstream')
    got = []
    c = _mk_client(sock, b'/', on_message=lambda f: got.append(get_frame(f)))
    c.selector = _FakeSelector(selectors.EVENT_READ)
    raw = seg_bytes(case, case['segs'][0])
    sock.feed(raw)
    out = dict(raw=raw)
    try:
        out['ret'] = bool(c.run_once())
    except Exception as e:
        out['read_err'] = C.exn_code(e); out['err'] = repr(e)
    out['got'] = got
    return out


def run_impl(case):
    k = case['kind']
    if k in FRAME_KINDS:
        return run_impl_frame(case)
    if k.startswith('ws/') or k == 'hs/upgrade':
        return run_conn(case)
    if k == 'hs/request':
        return run_hs_request(case)
    if k == 'client/upgrade':
        return run_client_upgrade(case)
    if k == 'client/read':
        return run_client_read(case)
    raise ValueError(k)


# ----------------------------------------------------------------- Coq terms
def coq_frames(frs):
    return C.coq_list('(%s)' % coq_frame(f) for f in frs)


def coq_term(case, out):
    k = case['kind']
    if k in FRAME_KINDS:
        t = coq_term_frame(case, out)
        if t is None:
            return None
        return ['SFrame (%s)' % x for x in (t if isinstance(t, list) else [t])]
    if k.startswith('ws/') or k == 'hs/upgrade':
        terms = []
        hs = py_accept(case['key']) if case['key'] is not None else None
        # the handshake: everything queued for the client on this connection must be exactly the 101 (or nothing, with
        # KeyError).  queued = sent + still buffered: when an exception leaves the handler in the very step that queued the
        # 101 (frames in the segment of the upgrade request) the buffer is dropped with the connection (C07's subject).
        if case['key'] is None:
            terms.append('SHandshake None (%s)' % ('(ErrObs %d)' % (out['end'] - 1000) if out['end'] >= 1000 and not out['queued']
                                                  else '(OkObs %s)' % C.coq_bytes(out['queued'])))
        else:
            terms.append('SHandshake (Some %s) (OkObs %s)' % (C.coq_bytes(case['key']), C.coq_bytes(out['queued'])))
        if k.startswith('ws/'):
            ws_sent = b''      # the handshake term above already pins every byte sent
            terms.append('SConn %s %s %s %d' % (C.coq_list(coq_bytes_compact(x) for x in out['ws_segs']),
                                                coq_frames(out['delivered']), C.coq_bytes(ws_sent), out['end']))
        return terms
    if k == 'hs/request':
        return 'SHandshakeRequest %s %s %s %s %s %s' % tuple(C.coq_bytes(x) for x in (
            out['ua'], case['key'], case['method'], case['url'], case['host'], out['raw']))
    if k == 'client/upgrade':
        key = base64.b64encode(case['key16'])
        return ['SClientUpgrade %s %s %s' % (C.coq_bytes(key), C.coq_bytes(case['accept']), C.coq_bool(out['accepted'])),
                'SHandshakeRequest %s %s %s %s %s %s' % tuple(C.coq_bytes(x) for x in (
                    out['ua'], key, b'GET', case['path'], b'localhost', out['sent']))]
    if k == 'client/read':
        if 'read_err' in out:
            obs = '(ErrObs %d)' % out['read_err']
        elif len(out['got']) == 1:
            obs = '(OkObs (%s))' % coq_frame(out['got'][0])
        else:
            return 'SClientRead %s (ErrObs 98)' % coq_bytes_compact(out['raw'])     # cannot match: on_message not called exactly once
        return 'SClientRead %s %s' % (coq_bytes_compact(out['raw']), obs)
    return None


# ----------------------------------------------------------------- oracles (the property on the implementation, no Coq involved)
def h11_check_101(resp, key):
    import h11
    c = h11.Connection(h11.CLIENT)
    c.send(h11.Request(method='GET', target='/ws', headers=[('Host', 'example.org'), ('Upgrade', 'websocket'), ('Connection', 'Upgrade'),
                                                             ('Sec-WebSocket-Key', 'x'), ('Sec-WebSocket-Version', '13')]))
    c.send(h11.EndOfMessage())
    c.receive_data(resp)
    try:
        ev = c.next_event()
    except Exception as e:
        return 'h11 rejects the handshake response: %r' % e
    if not isinstance(ev, h11.InformationalResponse) or ev.status_code != 101:
        return 'h11 does not see a 101 response: %r' % (ev,)
    hd = {}
    for n, v in ev.headers:
        hd.setdefault(bytes(n).lower(), []).append(bytes(v))
    if hd.get(b'upgrade', [b''])[0].lower() != b'websocket' or b'upgrade' not in [x.lower() for x in hd.get(b'connection', [])]:
        return 'handshake response lacks Upgrade: websocket / Connection: Upgrade'
    if hd.get(b'sec-websocket-accept') != [py_accept(key)]:
        return 'Sec-WebSocket-Accept is not base64(sha1(key + GUID)): %r' % hd.get(b'sec-websocket-accept')
    if ev.http_version != b'1.1' or bytes(ev.reason) != b'Switching Protocols':
        return 'unexpected status line'
    td = c.trailing_data
    if td[0]:
        return 'bytes follow the handshake response: %r' % td[0][:40]
    return None


def _finding(fid, text):
    """a recorded finding is reported as an oracle failure only once it is listed in known_findings.json (the driver then
    prints KNOWN-FINDING); until the coordinator lists it, occurrences are counted and reported in the evidence notes"""
    if _listed(fid):
        return '%s: %s' % (fid, text)
    _SUPPRESSED[fid] = _SUPPRESSED.get(fid, 0) + 1
    return None


def oracle_conn(case, out):
    k = case['kind']
    if case['key'] is None:
        # upgrade request without Sec-WebSocket-Key: nothing the property says; observed: KeyError leaves the handler
        return None
    if out['key_header'] is not False and out['key_header'] is not None and bytes(out['key_header']) != case['key']:
        return None         # the parser normalised the header value: outside this generator's intention
    if not out['opened']:
        return 'websocket route was not opened by a valid upgrade request'
    f = h11_check_101(out['queued'], case['key'])
    if f:
        return f
    want_all = [want_frame(fr) for fr in case['frames']]
    if k in ('ws/stream', 'ws/stream-boundary'):
        if out['end'] != 0:
            return 'a stream of well-formed frames ended the connection (end code %d %s)' % (out['end'], out.get('err', ''))
        if out['delivered'] != want_all:
            return 'frames delivered to on_websocket_message differ from the frames sent (%d delivered, %d sent)' % (len(out['delivered']), len(want_all))
        return None
    if k == 'ws/close':
        ci = next(i for i, fr in enumerate(case['frames']) if fr['opcode'] == 8)
        if out['delivered'] != want_all[:ci]:
            return 'frames delivered before a close frame differ from the frames sent before it (%d delivered, %d sent)' % (len(out['delivered']), ci)
        if out['end'] != 1 or not out['client_closed']:
            return 'a close frame did not tear the connection down (end code %d)' % out['end']
        if not out['route_closed']:
            return 'route.on_client_connection_close was not called after a close frame'
        return None
    if k in ('ws/split', 'ws/recvbuf'):
        # the bytes received are a valid stream: every frame must arrive intact whatever the segmentation
        if out['delivered'] == want_all and out['end'] == 0:
            return None
        return _finding(FINDING_REASSEMBLY, 'a frame spanning two received segments is not reassembled: %d frames sent, %d delivered%s, end code %d' % (
            len(want_all), len(out['delivered']), '' if out['delivered'][:len(want_all) - 1] != want_all[:-1] else ' (last one short)', out['end']))
    if k == 'ws/trunc':
        # the stream stops inside its last frame: the complete frames must be delivered, the incomplete one must not
        complete = want_all[:-1]
        if out['delivered'] == complete and out['end'] == 0:
            return None
        if out['delivered'][:len(complete)] != complete:
            return 'complete frames before a truncated one were not delivered intact'
        return _finding(FINDING_REASSEMBLY, 'a segment ending inside a frame: %s' % (
            'exception leaves the handler (%s)' % out.get('err') if out['end'] >= 1000 else
            'an incomplete frame was delivered to the route as a message (payload_length %r, %d data bytes)' % (
                out['delivered'][-1]['payload_length'], len(out['delivered'][-1]['data'] or b'')) if len(out['delivered']) > len(complete) else 'end code %d' % out['end']))
    return None


def oracle(case, out):
    k = case['kind']
    if k in FRAME_KINDS:
        return oracle_frame(case, out)
    if k.startswith('ws/') or k == 'hs/upgrade':
        f = oracle_conn(case, out)
        if f is None and case['key'] is not None and re_cl_in_1xx(out['queued']):
            f = _finding(FINDING_HS_CL, 'the 101 handshake response carries a Content-Length header field (RFC 7230 3.3.2: MUST NOT in 1xx)')
        return f
    if k == 'hs/request':
        import h11
        c = h11.Connection(h11.SERVER)
        c.receive_data(out['raw'])
        try:
            ev = c.next_event()
        except Exception as e:
            return 'h11 rejects the handshake request: %r' % e
        hd = {bytes(n).lower(): bytes(v) for n, v in ev.headers}
        if bytes(ev.method) != case['method'] or bytes(ev.target) != case['url']:
            return 'handshake request line differs'
        if hd.get(b'sec-websocket-key') != case['key'] or hd.get(b'upgrade') != b'websocket' or hd.get(b'connection', b'').lower() != b'upgrade' \
                or hd.get(b'sec-websocket-version') != b'13' or hd.get(b'host') != case['host']:
            return 'handshake request lacks a required header field: %r' % hd
        return None
    if k == 'client/upgrade':
        key = base64.b64encode(case['key16'])
        if out['accepted'] != (case['accept'] == py_accept(key)):
            return 'WebsocketClient.upgrade %s an accept token that is %s' % (
                'accepted' if out['accepted'] else 'rejected', 'wrong' if out['accepted'] else 'right')
        return None
    if k == 'client/read':
        return None         # only the first frame of a segment reaches on_message (C16_client); compared with the model
    return None


def re_cl_in_1xx(resp):
    head = resp.split(b'\r\n\r\n', 1)[0].split(b'\r\n')
    return head[0].split(b' ')[1:2] == [b'101'] and any(h.lower().startswith(b'content-length:') for h in head[1:])


def nontrivial(case, out):
    k = case['kind']
    if k in FRAME_KINDS:
        return nontrivial_frame(case, out)
    if k.startswith('ws/'):
        return len(out.get('delivered', [])) > 0
    if k == 'hs/upgrade':
        return bool(out.get('queued'))
    if k == 'client/read':
        return len(out.get('got', [])) == 1
    return True


def classify(case, out, failure):
    for fid in (FINDING_REASSEMBLY, FINDING_HS_CL):
        if isinstance(failure, str) and failure.startswith(fid + ':'):
            return fid
    return None


def model_expr(case):
    k = case['kind']
    if k in FRAME_KINDS:
        return model_expr_frame(case)
    if k.startswith('ws/'):
        return 'ws_conn %s' % C.coq_list(coq_bytes_compact(seg_bytes(case, s)) for s in case['segs'])
    if k == 'hs/upgrade':
        return 'switch_to_websocket %s' % C.coq_option(C.coq_bytes, case['key'])
    if k == 'client/read':
        return 'client_on_read %s' % coq_bytes_compact(seg_bytes(case, case['segs'][0]))
    return 'tt'


def shrink(case, fails):
    k = case['kind']
    if k in FRAME_KINDS:
        return shrink_frame(case, fails)
    if not k.startswith('ws/'):
        return case
    cur = case
    # drop whole segments, then whole parts, keeping the case failing
    changed = True
    while changed:
        changed = False
        for i in range(len(cur['segs'])):
            if len(cur['segs']) > 1:
                t = dict(cur, segs=cur['segs'][:i] + cur['segs'][i + 1:])
                if fails(t):
                    cur = t; changed = True; break
            for j in range(len(cur['segs'][i])):
                if len(cur['segs'][i]) > 1:
                    t = dict(cur, segs=cur['segs'][:i] + [cur['segs'][i][:j] + cur['segs'][i][j + 1:]] + cur['segs'][i + 1:])
                    if fails(t):
                        cur = t; changed = True; break
            if changed:
                break
    return cur


def extra_checks(rng, tier):
    notes = []
    for fid, n in sorted(_SUPPRESSED.items()):
        notes.append('finding %s observed on %d generated/corpus cases; it is not (yet) listed in known_findings.json, so it is reported '
                     'here and in notes/C16-stream.md instead of as KNOWN-FINDING (theorems: C16_stream_segmentation_refuted, '
                     'C16_stream_cut_payload, C16_stream_cut_header, C16_handshake_wellformed)' % (fid, n))
    return dict(failures=[], notes=notes, findings_observed=dict(_SUPPRESSED))
