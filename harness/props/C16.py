"""C16 — WebSocket frames: correspondence of Ws/Frame.v with proxy/http/websocket/frame.py and
the property's own statement (independent RFC 6455 encoder, round trip) on the implementation."""
import struct, base64, hashlib
from unittest import mock
import common as C

ID = 'C16'
COQ_TARGETS = ['theories/Props/C16.vo', 'theories/Ws/FrameCases.vo']
IMPORTS = 'From PM Require Import Lib.Bytes Ws.Frame Ws.Sha1 Ws.FrameCases.'
CASE_TYPE = 'case'
CHECK_FN = 'check_case'
ANCHOR_FILES = ['proxy/http/websocket/frame.py']
RULE = ('cases = frames (16 flag combinations x opcodes 0..15 (+ invalid) x masked/unmasked with random keys x payload lengths '
        '{0..130, 65530..65540, sampled up to 2^20}) built by WebsocketFrame.build, the result followed by random trailing bytes '
        'parsed back by WebsocketFrame.parse, damaged/truncated frames, and handshake keys; a case is non-trivial when the '
        'implementation returned a value (no exception) and the payload or key is non-empty; distinct = distinct inputs')
TRUSTED = ['struct.pack/unpack semantics for !B !H !Q as modelled in Ws/Frame.v (be_encode/be_decode, range errors)',
           'hashlib.sha1 and base64.b64encode are compared against the executable Coq reference Ws/Sha1.v on every run',
           'RFC 6455 section 5.2 as transcribed in Ws/FrameSpec.v (rfc_encode), cross-validated on every run against the independent Python encoder in this module']
ASSUMPTIONS = ['secrets.token_bytes(4) returns 4 octets (the random masking key is an input of the model)']
SHARD = 150


# ----------------------------------------------------------------- compact byte descriptors
def coq_bytes_compact(data):
    data = bytes(data)
    n = len(data)
    if n <= 300:
        return C.coq_bytes(data)
    for hl in range(0, 17):
        body = data[hl:]
        for period in range(1, 13):
            pat = body[:period]
            if (pat * (len(body) // period + 1))[:len(body)] == body:
                return '(%s ++ bpat %s %d)' % (C.coq_bytes(data[:hl]), C.coq_bytes(pat), len(body))
    return C.coq_bytes(data)


def payload_of(desc):
    pat, n = desc
    if not pat:
        return b''
    return (bytes(pat) * (n // len(pat) + 1))[:n]


def coq_frame(fr):
    d = fr['data']
    return ('{| fin := %s; rsv1 := %s; rsv2 := %s; rsv3 := %s; opcode := %d; masked := %s; '
            'payload_length := %s; mask := %s; data := %s |}') % (
        C.coq_bool(fr['fin']), C.coq_bool(fr['rsv1']), C.coq_bool(fr['rsv2']), C.coq_bool(fr['rsv3']),
        fr['opcode'], C.coq_bool(fr['masked']),
        C.coq_option(C.coq_N, fr['payload_length']),
        C.coq_option(coq_bytes_compact, fr['mask']),
        C.coq_option(coq_bytes_compact, None if d is None else (d if isinstance(d, bytes) else payload_of(d))))


def frame_data(fr):
    d = fr['data']
    return None if d is None else (d if isinstance(d, bytes) else payload_of(d))


# ----------------------------------------------------------------- generation
def rand_payload_desc(rng, n):
    if n == 0:
        return b''
    if n <= 200:
        return bytes(rng.randrange(256) for _ in range(n))
    pl = rng.choice([1, 2, 3, 4, 5, 6])
    return [list(rng.randrange(256) for _ in range(pl)), n]


def mk_frame(rng, n, masked=None, opcode=None):
    masked = rng.random() < 0.5 if masked is None else masked
    fr = dict(fin=rng.random() < 0.5, rsv1=rng.random() < 0.5, rsv2=rng.random() < 0.5, rsv3=rng.random() < 0.5,
              opcode=rng.randrange(16) if opcode is None else opcode, masked=masked,
              payload_length=None, mask=None, data=rand_payload_desc(rng, n))
    if masked and rng.random() < 0.85:
        fr['mask'] = bytes(rng.randrange(256) for _ in range(4))
    r = rng.random()
    if r < 0.15:
        fr['payload_length'] = n
    return fr


def generate(rng, tier):
    cases = []
    quick = tier != 'thorough'
    lengths = list(range(0, 131)) + list(range(65530, 65541))
    if quick:
        lengths = list(range(0, 131, 1 if rng.random() < 2 else 3))
        big = [65535, 65536]
    else:
        big = [65530, 65534, 65535, 65536, 65537, 65540] + [rng.randrange(65541, 300000) for _ in range(2)] + [1 << 20]
    # structured stream: build, then parse what was built followed by a tail
    combos = [(a, b) for a in range(16) for b in (False, True)]
    k = 0
    for n in lengths:
        reps = 2 if quick else 8
        for _ in range(reps):
            op, m = combos[k % len(combos)]; k += 1
            fr = mk_frame(rng, n, masked=m, opcode=op)
            cases.append(dict(kind='build', frame=fr, rnd=bytes(rng.randrange(256) for _ in range(4)),
                              tail=bytes(rng.randrange(256) for _ in range(rng.choice([0, 0, 1, 2, 7, 30])))))
    for n in big:
        for m in (False, True):
            fr = mk_frame(rng, n, masked=m)
            cases.append(dict(kind='build', frame=fr, rnd=bytes(rng.randrange(256) for _ in range(4)),
                              tail=bytes(rng.randrange(256) for _ in range(rng.choice([0, 3, 9])))))
    # flag sweep at a few lengths: all 2^4 flags x 16 opcodes x masked
    for flags in range(16):
        for op in range(16):
            for m in (False, True):
                if quick and (flags * 16 + op) % 4 != (1 if m else 2):
                    continue
                n = rng.choice([0, 1, 5, 125, 126, 127])
                fr = mk_frame(rng, n, masked=m, opcode=op)
                fr.update(fin=bool(flags & 8), rsv1=bool(flags & 4), rsv2=bool(flags & 2), rsv3=bool(flags & 1))
                cases.append(dict(kind='build', frame=fr, rnd=b'\x01\x02\x03\x04', tail=b'tail'))
    # malformed stream for build: inconsistent payload_length, bad opcode, bad mask length, data None
    for _ in range(40 if quick else 400):
        n = rng.choice([0, 1, 2, 10, 125, 126, 130])
        fr = mk_frame(rng, n)
        r = rng.randrange(6)
        if r == 0: fr['payload_length'] = rng.choice([0, 1, 125, 126, 127, 65535, 65536, (1 << 64) - 1, 1 << 64, (1 << 64) + 5])
        elif r == 1: fr['opcode'] = rng.choice([16, 17, 128, 255, 256, 300])
        elif r == 2: fr['masked'] = True; fr['mask'] = bytes(rng.randrange(256) for _ in range(rng.choice([0, 1, 2, 3, 5, 8])))
        elif r == 3: fr['data'] = None
        elif r == 4: fr['data'] = None; fr['payload_length'] = rng.choice([0, 3, 126])
        else: fr['data'] = b''; fr['payload_length'] = rng.choice([None, 0, 2])
        cases.append(dict(kind='build', frame=fr, rnd=bytes(rng.randrange(256) for _ in range(4)), tail=b''))
    # malformed stream for parse: truncations and random bytes
    for _ in range(60 if quick else 800):
        n = rng.choice([0, 1, 2, 10, 125, 126, 127, 130, 300])
        fr = mk_frame(rng, n)
        raw = ref_encode(fr, b'\x09\x08\x07\x06')
        r = rng.randrange(4)
        if r == 0: raw = raw[:rng.randrange(0, len(raw) + 1)]
        elif r == 1: raw = bytes(rng.randrange(256) for _ in range(rng.randrange(0, 20)))
        elif r == 2:
            i = rng.randrange(0, min(len(raw), 12)); raw = raw[:i] + bytes([rng.randrange(256)]) + raw[i + 1:]
        else: raw = raw + bytes(rng.randrange(256) for _ in range(rng.randrange(0, 9)))
        self_mask = rng.choice([None, None, b'abcd'])
        cases.append(dict(kind='parse', raw=raw, self_mask=self_mask))
    # histories on ONE frame object: WebsocketFrame.reset() exists so that objects are reused; every build after a reset must
    # be what a fresh object would produce (longer then shorter payloads, masked then unmasked, parse then rebuild)
    for _ in range(12 if quick else 150):
        sizes = rng.choice([[300, 5], [130, 0], [126, 125, 1], [5, 300, 5], [70000, 0] if not quick else [200, 3], [40, 40], [1, 0, 1]])
        steps = []
        for n in sizes:
            steps.append(dict(frame=mk_frame(rng, n), rnd=bytes(rng.randrange(256) for _ in range(4)),
                              via_parse=rng.random() < 0.3))
        cases.append(dict(kind='seq', steps=steps))
    # handshake keys
    for _ in range(40 if quick else 400):
        ln = rng.choice([0, 1, 16, 19, 20, 24, 27, 28, 55, 56, 64, 100, 119, 120, 200])
        cases.append(dict(kind='accept', key=bytes(rng.randrange(256) for _ in range(ln))))
    cases.append(dict(kind='accept', key=b'dGhlIHNhbXBsZSBub25jZQ=='))
    # boundary stream for keys: surrounding whitespace / NUL / high bytes must be hashed as they are
    for pre in (b'', b' ', b'\t', b'\n'):
        for post in (b'', b' ', b'\r\n', b'\x00'):
            cases.append(dict(kind='accept', key=pre + b'dGhlIHNhbXBsZSBub25jZQ==' + post))
    return cases


# ----------------------------------------------------------------- independent RFC 6455 encoder (spec oracle)
def ref_encode(fr, rnd):
    data = frame_data(fr) or b''
    n = len(data)
    b0 = (128 if fr['fin'] else 0) + (64 if fr['rsv1'] else 0) + (32 if fr['rsv2'] else 0) + (16 if fr['rsv3'] else 0) + fr['opcode']
    out = bytearray([b0])
    m = 128 if fr['masked'] else 0
    if n < 126: out.append(m + n)
    elif n < 65536: out.append(m + 126); out += n.to_bytes(2, 'big')
    else: out.append(m + 127); out += n.to_bytes(8, 'big')
    if fr['masked']:
        key = fr['mask'] if fr['mask'] is not None else rnd
        out += key
        out += bytes(x ^ key[i % 4] for i, x in enumerate(data))
    else:
        out += data
    return bytes(out)


def wf(fr, rnd):
    data = frame_data(fr)
    if not (0 <= fr['opcode'] < 16): return False
    if fr['payload_length'] is not None and fr['payload_length'] != len(data or b''): return False
    if fr['masked'] and len(fr['mask'] if fr['mask'] is not None else rnd) != 4: return False
    return True


# ----------------------------------------------------------------- implementation
def set_frame(f, fr):
    f.fin, f.rsv1, f.rsv2, f.rsv3 = fr['fin'], fr['rsv1'], fr['rsv2'], fr['rsv3']
    f.opcode, f.masked, f.payload_length, f.mask = fr['opcode'], fr['masked'], fr['payload_length'], fr['mask']
    f.data = frame_data(fr)


def get_frame(f):
    return dict(fin=f.fin, rsv1=f.rsv1, rsv2=f.rsv2, rsv3=f.rsv3, opcode=f.opcode, masked=f.masked,
                payload_length=f.payload_length, mask=None if f.mask is None else bytes(f.mask),
                data=None if f.data is None else bytes(f.data))


def run_impl(case):
    from proxy.http.websocket.frame import WebsocketFrame
    k = case['kind']
    if k == 'build':
        f = WebsocketFrame(); set_frame(f, case['frame'])
        with mock.patch('secrets.token_bytes', lambda n: case['rnd']):
            try:
                raw = f.build()
            except Exception as e:
                return dict(build_err=C.exn_code(e), err=repr(e))
        out = dict(raw=raw, pl=f.payload_length)
        g = WebsocketFrame()
        try:
            rest = g.parse(raw + case['tail'])
            out.update(parsed=get_frame(g), rest=bytes(rest))
        except Exception as e:
            out.update(parse_err=C.exn_code(e), err=repr(e))
        return out
    if k == 'seq':
        f = WebsocketFrame()
        outs = []
        for st in case['steps']:
            f.reset()
            if st['via_parse']:
                # relay style: fill the object by parsing an encoding of the frame, then rebuild it
                f.parse(ref_encode(st['frame'], st['rnd']))
                if st['frame']['masked'] and st['frame']['mask'] is None:
                    pass
            else:
                set_frame(f, st['frame'])
            with mock.patch('secrets.token_bytes', lambda n, st=st: st['rnd']):
                try:
                    outs.append(dict(raw=f.build(), pl=f.payload_length))
                except Exception as e:
                    outs.append(dict(build_err=C.exn_code(e), err=repr(e)))
        return dict(steps=outs)
    if k == 'parse':
        g = WebsocketFrame(); g.mask = case['self_mask']
        try:
            rest = g.parse(case['raw'])
            return dict(parsed=get_frame(g), rest=bytes(rest))
        except Exception as e:
            return dict(parse_err=C.exn_code(e), err=repr(e))
    if k == 'accept':
        return dict(token=WebsocketFrame.key_to_accept(case['key']))
    raise ValueError(k)


NEW = dict(fin=False, rsv1=False, rsv2=False, rsv3=False, opcode=0, masked=False, payload_length=None, mask=None, data=None)

def obs_frame_rest(out):
    if 'parse_err' in out:
        return '(ErrObs %d)' % out['parse_err']
    return '(OkObs (%s, %s))' % (coq_frame(out['parsed']), coq_bytes_compact(out['rest']))


def coq_term(case, out):
    k = case['kind']
    if k == 'seq':
        terms = []
        for st, o in zip(case['steps'], out['steps']):
            fr = st['frame']
            if st['via_parse']:
                # what parse leaves in the object: payload_length = len, mask = key used (or None), data = payload
                d = frame_data(fr) or b''
                fr = dict(fr, payload_length=len(d), data=d,
                          mask=((fr['mask'] if fr['mask'] is not None else st['rnd']) if fr['masked'] else None))
            if 'build_err' in o:
                terms.append('CBuild %s (%s) (ErrObs %d)' % (C.coq_bytes(st['rnd']), coq_frame(fr), o['build_err']))
            else:
                terms.append('CBuild %s (%s) (OkObs (%s, %d))' % (C.coq_bytes(st['rnd']), coq_frame(fr), coq_bytes_compact(o['raw']), o['pl']))
        return terms
    if k == 'build':
        if 'build_err' in out:
            return 'CBuild %s (%s) (ErrObs %d)' % (C.coq_bytes(case['rnd']), coq_frame(case['frame']), out['build_err'])
        t1 = 'CBuild %s (%s) (OkObs (%s, %d))' % (C.coq_bytes(case['rnd']), coq_frame(case['frame']),
                                                 coq_bytes_compact(out['raw']), out['pl'])
        t2 = 'CParse (%s) %s %s' % (coq_frame(NEW), coq_bytes_compact(out['raw'] + case['tail']), obs_frame_rest(out))
        return [t1, t2]
    if k == 'parse':
        self_fr = dict(NEW, mask=case['self_mask'])
        return 'CParse (%s) %s %s' % (coq_frame(self_fr), coq_bytes_compact(case['raw']), obs_frame_rest(out))
    if k == 'accept':
        return 'CAccept %s %s' % (C.coq_bytes(case['key']), C.coq_bytes(out['token']))


def extra_terms(case, out):
    return []


def oracle(case, out):
    """the property itself, evaluated on the implementation with an independent encoder"""
    k = case['kind']
    if k == 'seq':
        for i, (st, o) in enumerate(zip(case['steps'], out['steps'])):
            if not wf(st['frame'], st['rnd']):
                continue
            if 'build_err' in o:
                return 'step %d on a reused frame object: build() raised %s' % (i, o['err'])
            exp = ref_encode(st['frame'], st['rnd'])
            if o['raw'] != exp:
                return 'step %d on a reused frame object (after reset()): build() differs from the RFC 6455 encoding (len %d vs %d)' % (i, len(o['raw']), len(exp))
        return None
    if k == 'build':
        fr = case['frame']
        if not wf(fr, case['rnd']):
            return None     # outside the property's domain (inconsistent inputs)
        if 'build_err' in out:
            return 'build() raised %s on a well-formed frame' % out['err']
        exp = ref_encode(fr, case['rnd'])
        if out['raw'] != exp:
            return 'build() differs from the RFC 6455 encoding (len %d vs %d, first diff at %s)' % (
                len(out['raw']), len(exp), next((i for i, (a, b) in enumerate(zip(out['raw'], exp)) if a != b), 'length'))
        if 'parse_err' in out:
            return 'parse(build(f) + tail) raised %s' % out['err']
        p = out['parsed']
        data = frame_data(fr) or b''
        want = dict(fin=fr['fin'], rsv1=fr['rsv1'], rsv2=fr['rsv2'], rsv3=fr['rsv3'], opcode=fr['opcode'], masked=fr['masked'],
                    payload_length=len(data), data=data,
                    mask=(fr['mask'] if fr['mask'] is not None else case['rnd']) if fr['masked'] else None)
        if p != want:
            return 'parse(build(f)) yields different fields: %r' % {x: (p[x] if x != 'data' else len(p[x])) for x in p if p[x] != want[x]}
        if out['rest'] != case['tail']:
            return 'bytes after the frame not returned untouched'
        return None
    if k == 'accept':
        exp = base64.b64encode(hashlib.sha1(case['key'] + b'258EAFA5-E914-47DA-95CA-C5AB0DC85B11').digest())
        if case['key'] == b'dGhlIHNhbXBsZSBub25jZQ==' and out['token'] != b's3pPLMBiTxaQ9kYGzzhZRbK+xOo=':
            return 'accept token of the RFC 6455 example key is wrong'
        return None if out['token'] == exp else 'accept token differs from base64(sha1(key + GUID))'
    return None


def coq_term_all(case, out):
    return coq_term(case, out)


def nontrivial(case, out):
    k = case['kind']
    if k == 'seq':
        return all('build_err' not in o for o in out['steps'])
    if k == 'build':
        return 'build_err' not in out and 'parse_err' not in out and len(frame_data(case['frame']) or b'') > 0
    if k == 'parse':
        return 'parse_err' not in out and bool(out['parsed']['data'])
    return len(case['key']) > 0


def classify(case, out, failure):
    return None


def model_expr(case):
    k = case['kind']
    if k == 'seq':
        return 'build %s (%s)' % (C.coq_bytes(case['steps'][-1]['rnd']), coq_frame(case['steps'][-1]['frame']))
    if k == 'build':
        return 'build %s (%s)' % (C.coq_bytes(case['rnd']), coq_frame(case['frame']))
    if k == 'parse':
        return 'parse (%s) %s' % (coq_frame(dict(NEW, mask=case['self_mask'])), coq_bytes_compact(case['raw']))
    return 'key_to_accept %s' % C.coq_bytes(case['key'])


def shrink(case, fails):
    if case['kind'] != 'build':
        return case
    cur = dict(case)
    # shrink payload length towards the smallest failing one
    fr = dict(cur['frame'])
    d = frame_data(fr)
    if d:
        for n in [0, 1, 125, 126, 127, 65535, 65536]:
            if n < len(d):
                t = dict(cur, frame=dict(fr, data=d[:n] if len(d) <= 200 or n <= 200 else [list(d[:4]), n],
                                         payload_length=None if fr['payload_length'] is None else n), tail=b'')
                if fails(t):
                    return t
    return cur
