"""C19 — listening endpoints, reported ports, clean shutdown.

Correspondence of Boot/Listen.v with proxy/proxy.py (Proxy.setup/shutdown) and proxy/core/listener/*:
every case is a LIVE start/stop of proxy.Proxy([...]) on loopback inside a dedicated worker process
(fresh interpreter, own session, PYTHONPATH=$VERIF_REPO).  What the kernel answered (result of every
TCP bind in call order, set iteration orders, pid) is fed to the model as its oracle; flags.port,
flags.ports, the listener pool, the pid/port files, the unix socket, the child processes and the
state after shutdown are compared.  Independently of the model, `oracle` evaluates the property on
what /proc/net/{tcp,tcp6,unix}, the file system, the process table and real connections show.

The worker creates one unique directory under /tmp per case and removes it, kills stray children and
closes stray listeners in a `finally`, so a failing case leaves nothing behind."""
import os, sys, json, time, atexit, signal, select, subprocess, ipaddress, itertools
import common as C

ID = 'C19'
CASE_TIMEOUT = 300   # per-case wall-clock limit of the driver's hang detection (each case is a live start/stop of a real proxy (worker subprocesses); slow under load, never a loop in the code under test)
COQ_TARGETS = ['theories/Props/C19.vo', 'theories/Boot/ListenCases.vo']
IMPORTS = 'From PM Require Import Lib.Bytes Lib.PyStr Boot.Listen Boot.ListenCases.'
CASE_TYPE = 'case'
CHECK_FN = 'check_case'
ANCHOR_FILES = ['proxy/proxy.py', 'proxy/core/listener/pool.py', 'proxy/core/listener/tcp.py',
                'proxy/core/listener/unix.py', 'proxy/core/listener/base.py',
                'proxy/core/acceptor/pool.py', 'proxy/core/work/pool.py']
RULE = ('cases = configurations (--hostname/--hostnames over 127.0.0.1, 127.0.0.2, ::1 incl. duplicates; --port fixed/0; '
        '--ports with 0..3 entries fixed/0, zeros only with a single address; --unix-socket-path; --port-file/--pid-file; '
        'threaded / threadless-local / threadless-remote), each started and stopped LIVE on loopback; plus start-ups that must '
        'fail (port already in use, stale unix socket path) and stale pid/port files.  quick = the corpus witnesses + 12 fixed '
        'configurations + 2 drawn from the grid; thorough = the whole grid (588) + failures.  A case is non-trivial when the proxy '
        'started, at least one endpoint was listening and every endpoint was probed with a real connection before and after '
        'shutdown; distinct = distinct configurations')
TRUSTED = ['the oracle hypotheses os_spec (bind on a fixed port reports that port, bind on 0 a non-zero port; a Python set iterates '
           'each element once) - checked on every live run against getsockname() and /proc/net/tcp',
           'a flat model of the file system (open(...,"wb") creates/truncates, os.remove, bind() of a unix socket creates the path; '
           'parent directories exist and are writable)',
           'PARTIAL: that acceptors really accept on each bound socket and that join() of every child returns are runtime behaviour '
           'outside the model; probed live on every case (HTTP request answered on every endpoint; connection refused, no child in '
           '/proc, no LISTEN socket after shutdown)']
ASSUMPTIONS = ['--enable-events, --enable-ssh-tunnel, --enable-metrics, --enable-dashboard off (defaults)',
               'start-up succeeds (bind errors make Proxy.setup raise: the model returns Err and the theorems do not apply)',
               'OS-assigned ports only together with a single listening address (property quantifier)',
               'loopback only: 127.0.0.0/8 and ::1 of this sandbox']
SHARD = 200

V4A, V4B, V6 = '127.0.0.1', '127.0.0.2', '::1'
MODES = ('threaded', 'local', 'remote')
NAMES = dict(pid='pid', ports='ports', sock='sock')


# ===================================================================== worker (runs in its own process)
def _children_of(pid):
    out = []
    for d in os.listdir('/proc'):
        if not d.isdigit():
            continue
        try:
            with open('/proc/%s/stat' % d) as fh:
                st = fh.read()
            rest = st[st.rindex(')') + 2:].split()
            if int(rest[1]) == pid and rest[0] != 'Z':
                out.append(int(d))
        except (OSError, ValueError, IndexError):
            pass
    return sorted(out)


def _own_socket_inodes():
    ino = set()
    for fd in os.listdir('/proc/self/fd'):
        try:
            t = os.readlink('/proc/self/fd/' + fd)
        except OSError:
            continue
        if t.startswith('socket:['):
            ino.add(int(t[8:-1]))
    return ino


def _hex_addr(h):
    raw = bytes.fromhex(h)
    raw = b''.join(raw[i:i + 4][::-1] for i in range(0, len(raw), 4))
    return str(ipaddress.ip_address(raw))


def _listen_table():
    """[(host, port, inode)] of all TCP sockets in LISTEN state, [(path, inode)] of listening unix sockets"""
    tcp, unix = [], []
    for f in ('/proc/net/tcp', '/proc/net/tcp6'):
        try:
            lines = open(f).read().split('\n')[1:]
        except OSError:
            continue
        for ln in lines:
            p = ln.split()
            if len(p) > 9 and p[3] == '0A':
                a, port = p[1].rsplit(':', 1)
                tcp.append((_hex_addr(a), int(port, 16), int(p[9])))
    try:
        for ln in open('/proc/net/unix').read().split('\n')[1:]:
            p = ln.split()
            # Num RefCount Protocol Flags Type St Inode Path ; __SO_ACCEPTCON = 0x10000, St 01 = LISTEN
            if len(p) >= 8 and int(p[3], 16) & 0x10000:
                unix.append((p[7], int(p[6])))
    except OSError:
        pass
    return tcp, unix


PROBE_REQ = b'GET / HTTP/1.1\r\nHost: c19\r\n\r\n'

def _probe(family, addr, timeout=25.0):
    import socket
    s = socket.socket(family, socket.SOCK_STREAM)
    s.settimeout(timeout)
    try:
        try:
            s.connect(addr)
        except (ConnectionRefusedError, FileNotFoundError):
            return 'refused'
        except OSError as e:
            return 'connect-error:%s' % e.errno
        try:
            s.sendall(PROBE_REQ)
            d = s.recv(4096)
        except socket.timeout:
            return 'not-served'
        except OSError as e:
            return 'io-error:%s' % e.errno
        return 'served' if d.startswith(b'HTTP/1.1 ') else ('closed' if not d else 'garbage')
    finally:
        s.close()


def _fam(host):
    import socket
    return socket.AF_INET6 if ':' in host else socket.AF_INET


def _alloc_port(hosts, taken):
    """a port that is currently free on every host"""
    import socket
    for _ in range(50):
        socks = []
        try:
            s = socket.socket(_fam(hosts[0]), socket.SOCK_STREAM); socks.append(s)
            s.bind((hosts[0], 0))
            port = s.getsockname()[1]
            if port in taken:
                continue
            ok = True
            for h in hosts[1:]:
                t = socket.socket(_fam(h), socket.SOCK_STREAM); socks.append(t)
                try:
                    t.bind((h, port))
                except OSError:
                    ok = False
                    break
            if ok:
                return port
        finally:
            for s in socks:
                s.close()
    raise RuntimeError('no free port found')


def _mode_args(mode):
    # --timeout 300: the idle reaper must not be what ends the client connections that are open at shutdown time
    return {'threaded': ['--threaded'], 'local': ['--threadless', '--local-executor', '1'],
            'remote': ['--threadless', '--local-executor', '0']}[mode] + ['--timeout', '300']


def _run_case(case):
    import socket, stat, shutil, tempfile, multiprocessing
    import proxy
    from proxy.core.listener import tcp as tcp_mod
    me = os.getpid()
    out = {}
    tmp = tempfile.mkdtemp(prefix='c19-', dir='/tmp')
    path = {k: os.path.join(tmp, v) for k, v in NAMES.items()}
    hosts_cfg = [case['hostname']] + list(case['hostnames'])
    hosts = list(dict.fromkeys(hosts_cfg))
    blockers, p = [], None
    kids_before = set(_children_of(me))
    calls = []
    orig_listen = tcp_mod.TcpSocketListener.listen

    def recording_listen(self):
        rec = [str(self.hostname), self.port, None]
        calls.append(rec)
        sock = orig_listen(self)
        rec[2] = sock.getsockname()[1]
        return sock
    try:
        # ---- resolve symbolic fixed ports, occupy the ones that must fail
        sym, taken = {}, set()
        def res(x):
            if isinstance(x, str):
                if x not in sym:
                    sym[x] = _alloc_port(hosts, taken); taken.add(sym[x])
                return sym[x]
            return x
        port = res(case['port'])
        ports = [res(x) for x in case['ports']]
        for b in case.get('block', []):
            s = socket.socket(_fam(hosts[0]), socket.SOCK_STREAM)
            s.bind((hosts[0], res(b))); s.listen(1)
            blockers.append(s)
        pre = {}
        for name, kind in case.get('pre', {}).items():
            if kind == 'socket':
                s = socket.socket(socket.AF_UNIX, socket.SOCK_STREAM); s.bind(path[name]); s.close()   # stale path
            else:
                with open(path[name], 'wb') as fh:
                    fh.write(kind.encode())
            pre[name] = kind
        args = ['--hostname', case['hostname'], '--port', str(port),
                '--num-acceptors', str(case['acceptors']), '--num-workers', str(case['workers'])] + _mode_args(case['mode'])
        for h in case['hostnames']:
            args += ['--hostnames', h]
        if ports:
            args += ['--ports'] + [str(x) for x in ports]
        if case['unix']:
            args += ['--unix-socket-path', path['sock']]
        if case['port_file']:
            args += ['--port-file', path['ports']]
        if case['pid_file']:
            args += ['--pid-file', path['pid']]
        out['cfg'] = dict(hostname=case['hostname'], hostnames=list(case['hostnames']), port=port, ports=ports,
                          unix=bool(case['unix']), port_file=bool(case['port_file']), pid_file=bool(case['pid_file']),
                          mode=case['mode'], acceptors=case['acceptors'], workers=case['workers'], pre=pre)
        out['pid'] = me
        tcp_mod.TcpSocketListener.listen = recording_listen
        p = proxy.Proxy(args)
        try:
            p.setup()
        except BaseException as e:
            out['setup_err'] = C.exn_code(e) if isinstance(e, Exception) else 98
            out['setup_err_text'] = '%s: %s' % (type(e).__name__, e)
        out['binds'] = [list(c) for c in calls]
        if 'setup_err' in out:
            return out
        # ---- after start-up
        fl = p.flags
        out['flags_port'] = fl.port
        out['flags_ports'] = list(fl.ports)
        pool = []
        for l in p.listeners.pool:
            if type(l).__name__ == 'TcpSocketListener':
                pool.append(['tcp', str(l.hostname), l.port, l._port, l._socket.getsockname()[1]])
            else:
                pool.append(['unix', os.path.relpath(fl.unix_socket_path, tmp)])
        out['pool'] = pool
        own = _own_socket_inodes()
        tcp_l, unix_l = _listen_table()
        out['listen_tcp'] = sorted([h, q] for h, q, ino in tcp_l if ino in own)
        out['listen_unix'] = sorted(os.path.relpath(pth, tmp) for pth, ino in unix_l if ino in own)
        def rd(f):
            try:
                with open(f, 'rb') as fh:
                    return fh.read()
            except OSError:
                return None
        out['pid_file'] = rd(path['pid'])
        out['port_file'] = rd(path['ports'])
        try:
            out['unix_is_socket'] = stat.S_ISSOCK(os.stat(path['sock']).st_mode)
        except OSError:
            out['unix_is_socket'] = False
        out['dir_started'] = sorted(os.listdir(tmp))
        out['n_acceptors'] = len(p.acceptors.acceptors)
        out['n_executors'] = len(p.executors._processes) if p.executors is not None else 0
        # every listening socket of this process is probed with a real HTTP exchange
        endpoints = [('tcp', h, q) for h, q in out['listen_tcp']] + [('unix', u, 0) for u in out['listen_unix']]
        probes = []
        for kind, h, q in endpoints:
            r = _probe(_fam(h), (h, q)) if kind == 'tcp' else _probe(socket.AF_UNIX, os.path.join(tmp, h))
            probes.append([kind, h, q, r])
        out['probes'] = probes
        out['children'] = len(set(_children_of(me)) - kids_before)
        # client connections that are still OPEN when shutdown is requested (round-4 seed C19-r4-2): one silent, one in the
        # middle of a request, on the first TCP endpoint - shutdown must not wait for them
        lingering = []
        for kind, h, q in endpoints[:1]:
            if kind != 'tcp':
                continue
            for payload in (b'', b'GET / HTTP/1.1\r\nHost: lingering'):
                try:
                    ls = socket.socket(_fam(h), socket.SOCK_STREAM)
                    ls.settimeout(5.0)
                    ls.connect((h, q))
                    if payload:
                        ls.sendall(payload)
                    lingering.append(ls)
                except OSError:
                    pass
        out['lingering'] = len(lingering)
        if lingering:
            time.sleep(0.2)                      # let the acceptor hand them to their handler (thread / executor)
        # ---- shutdown (in a thread: a shutdown that does not return is an observation, not a stuck check)
        import threading
        sd = {}
        def _do_shutdown():
            try:
                p.shutdown()
            except BaseException as e:
                sd['err'] = e
        th = threading.Thread(target=_do_shutdown, daemon=True)
        th.start()
        th.join(45.0)
        if th.is_alive():
            out['shutdown_err'] = 97
            out['shutdown_err_text'] = 'Proxy.shutdown() did not return within 45 s with %d client connection(s) still open' % len(lingering)
        elif 'err' in sd:
            e = sd['err']
            out['shutdown_err'] = C.exn_code(e) if isinstance(e, Exception) else 98
            out['shutdown_err_text'] = '%s: %s' % (type(e).__name__, e)
        out['after_files'] = [os.path.lexists(path['pid']), os.path.lexists(path['ports']), os.path.lexists(path['sock'])]
        out['dir_after'] = sorted(os.listdir(tmp))
        own = _own_socket_inodes()
        tcp_l, unix_l = _listen_table()
        out['after_listen_own'] = len([1 for h, q, ino in tcp_l if ino in own]) + len([1 for pth, ino in unix_l if ino in own])
        still = set((h, q) for h, q, ino in tcp_l)
        out['after_listen_any'] = sorted([h, q] for kind, h, q in endpoints if kind == 'tcp' and (h, q) in still) + \
            sorted([pth, 0] for pth, ino in unix_l if pth.startswith(tmp))
        out['after_probes'] = [[kind, h, q, _probe(_fam(h), (h, q), 1.0) if kind == 'tcp'
                                else _probe(socket.AF_UNIX, os.path.join(tmp, h), 1.0)] for kind, h, q in endpoints]
        out['after_children'] = len(set(_children_of(me)) - kids_before)
        out['after_active_children'] = len(multiprocessing.active_children())
        for ls in lingering:
            try:
                ls.close()
            except OSError:
                pass
        return out
    finally:
        tcp_mod.TcpSocketListener.listen = orig_listen
        # nothing may survive a case, whatever happened above
        for k in set(_children_of(me)) - kids_before:
            try:
                os.kill(k, signal.SIGKILL)
            except OSError:
                pass
        try:
            import multiprocessing as mp
            for c in mp.active_children():
                c.join(2)
        except Exception:
            pass
        if p is not None and getattr(p, 'listeners', None) is not None:
            for l in list(p.listeners.pool):
                try:
                    if l._socket is not None:
                        l._socket.close()
                except Exception:
                    pass
        for s in blockers:
            s.close()
        shutil.rmtree(tmp, ignore_errors=True)
        for sig in (signal.SIGINT, signal.SIGTERM, signal.SIGHUP, signal.SIGQUIT):
            signal.signal(sig, signal.SIG_DFL)


class _CaseTimeout(Exception):
    pass


def worker_main():
    res = os.fdopen(os.dup(1), 'w')
    dn = os.open(os.devnull, os.O_WRONLY)
    os.dup2(dn, 1); os.dup2(dn, 2)
    def on_alarm(signum, frame):
        raise _CaseTimeout()
    for line in sys.stdin:
        line = line.strip()
        if not line:
            continue
        case = json.loads(line)
        signal.signal(signal.SIGALRM, on_alarm)
        signal.alarm(150)
        try:
            attempt = 0
            while True:
                out = _run_case(case)
                attempt += 1
                # a fixed port chosen a moment ago may have been taken by an unrelated process: retry with fresh ports
                if 'setup_err' in out and not case.get('expect_fail') and 'Address already in use' in out.get('setup_err_text', '') and attempt < 3:
                    continue
                out['attempts'] = attempt
                break
        except _CaseTimeout:
            out = {'worker_error': 'case timed out after 150 s'}
        except BaseException as e:
            import traceback
            out = {'worker_error': '%s: %s' % (type(e).__name__, e), 'tb': traceback.format_exc()[-1500:]}
        finally:
            signal.alarm(0)
        res.write(json.dumps(C.jsonable(out)) + '\n')
        res.flush()


# ===================================================================== parent side: worker processes
class Worker:
    """a dedicated interpreter (own session, PYTHONPATH=$VERIF_REPO) that starts/stops the proxy for us"""
    def __init__(self):
        env = dict(os.environ)
        env['PYTHONPATH'] = str(C.REPO) + os.pathsep + os.path.dirname(os.path.dirname(os.path.abspath(__file__)))
        code = 'import sys; import props.C19 as m; m.worker_main()'
        self.p = subprocess.Popen(['/venv/bin/python', '-c', code], stdin=subprocess.PIPE, stdout=subprocess.PIPE,
                                  stderr=subprocess.DEVNULL, env=env, cwd='/tmp', start_new_session=True, text=True)
        _ALL.append(self)

    def alive(self):
        return self.p is not None and self.p.poll() is None

    def kill(self):
        if self.p is not None:
            try:
                os.killpg(self.p.pid, signal.SIGKILL)     # the whole session: acceptors/executors included
            except OSError:
                pass
            try:
                self.p.wait(5)
            except Exception:
                pass
            self.p = None

    def close(self):
        if self.alive():
            try:
                self.p.stdin.close()
                self.p.wait(10)
            except Exception:
                pass
        self.kill()

    def run(self, case):
        c = {k: v for k, v in case.items() if k != 'origin'}
        self.p.stdin.write(json.dumps(c) + '\n'); self.p.stdin.flush()
        r, _, _ = select.select([self.p.stdout], [], [], 400)
        if not r:
            self.kill()
            raise RuntimeError('worker did not answer within 400 s')
        line = self.p.stdout.readline()
        if not line:
            self.kill()
            raise RuntimeError('worker died')
        out = C.unhex(json.loads(line))
        if 'worker_error' in out:
            self.kill()
            raise RuntimeError('worker: ' + out['worker_error'] + ' ' + out.get('tb', ''))
        return out


_ALL = []
_MAIN = None
_PENDING = []      # cases handed out by generate() and not yet run: executed in parallel on first use
_CACHE = {}

def _cleanup():
    for w in list(_ALL):
        w.kill()

atexit.register(_cleanup)


def _key(case):
    return json.dumps({k: v for k, v in case.items() if k != 'origin'}, sort_keys=True)


def _prefetch(cases, n):
    import threading, queue
    q = queue.Queue()
    todo = {}
    for c in cases:
        todo.setdefault(_key(c), c)
    for kv in todo.items():
        q.put(kv)
    def loop():
        w = None
        while True:
            try:
                k, c = q.get_nowait()
            except queue.Empty:
                break
            try:
                if w is None or not w.alive():
                    w = Worker()
                _CACHE[k] = w.run(c)
            except Exception as e:
                _CACHE[k] = e
        if w is not None:
            w.close()
    ts = [threading.Thread(target=loop) for _ in range(max(1, min(n, len(todo))))]
    for t in ts:
        t.start()
    for t in ts:
        t.join()


def run_impl(case):
    global _MAIN
    k = _key(case)
    if _PENDING and k not in _CACHE and any(_key(c) == k for c in _PENDING):
        cases = list(_PENDING); _PENDING[:] = []
        _prefetch(cases, int(os.environ.get('C19_WORKERS', '0')) or (8 if len(cases) > 60 else 4))
    if k in _CACHE:
        r = _CACHE[k]
        if isinstance(r, Exception):
            del _CACHE[k]
            raise r
        return r
    if _MAIN is None or not _MAIN.alive():
        _MAIN = Worker()
    return _MAIN.run(case)


# ===================================================================== Coq terms
def coq_addr(h):
    a = ipaddress.ip_address(h)
    return '(V%d %d)' % (a.version, int(a))

def coq_path(name):
    return C.coq_bytes(name.encode())

def coq_nat(n):
    return '%d%%nat' % n

def coq_config(cfg):
    return ('{| hostname := %s; hostnames := %s; port := %d; ports := %s; unix_socket_path := %s; port_file := %s; '
            'pid_file := %s; threadless := %s; local_executor := %s; num_acceptors := %s; num_workers := %s |}') % (
        coq_addr(cfg['hostname']), C.coq_list(coq_addr(h) for h in cfg['hostnames']), cfg['port'],
        C.coq_list(str(x) for x in cfg['ports']),
        C.coq_option(coq_path, NAMES['sock'] if cfg['unix'] else None),
        C.coq_option(coq_path, NAMES['ports'] if cfg['port_file'] else None),
        C.coq_option(coq_path, NAMES['pid'] if cfg['pid_file'] else None),
        C.coq_bool(cfg['mode'] != 'threaded'), C.coq_bool(cfg['mode'] != 'remote'),
        coq_nat(cfg['acceptors']), coq_nat(cfg['workers']))

def dedupe(xs):
    return list(dict.fromkeys(xs))

def coq_listener(l):
    if l[0] == 'tcp':
        return '(TcpL %s %d %d)' % (coq_addr(l[1]), l[2], l[3])
    return '(UnixL %s)' % coq_path(l[1])

def coq_term(case, out):
    cfg = out['cfg']
    binds = C.coq_list(C.coq_option(C.coq_N, b[2]) for b in out['binds'])
    host_order = C.coq_list(coq_addr(h) for h in dedupe(b[0] for b in out['binds']))
    pre = C.coq_list('(%s, %s)' % (coq_path(NAMES[n]), 'SocketFile' if k == 'socket' else 'Regular %s' % C.coq_bytes(k.encode()))
                     for n, k in sorted(cfg['pre'].items()))
    if 'setup_err' in out:
        exp = '(SetupErr %d)' % out['setup_err']
        port_order = '[]'
    else:
        port_order = C.coq_list(str(x) for x in dedupe(out['flags_ports']))
        exp = ('(Started {| e_port := %d; e_ports := %s; e_pool := %s; e_pid_file := %s; e_port_file := %s; '
               'e_unix_socket := %s; e_acceptors := %s; e_executors := %s; e_children := %s; e_listening := %s; '
               'e_after_err := %s; e_after_files := %s; e_after_listening := %s; e_after_children := %s |})') % (
            out['flags_port'], C.coq_list(str(x) for x in out['flags_ports']),
            C.coq_list(coq_listener(l) for l in out['pool']),
            C.coq_option(C.coq_bytes, out['pid_file'] if cfg['pid_file'] else None),
            C.coq_option(C.coq_bytes, out['port_file'] if cfg['port_file'] else None),
            C.coq_bool(out['unix_is_socket']), coq_nat(out['n_acceptors']), coq_nat(out['n_executors']),
            coq_nat(out['children']), coq_nat(len(out['listen_tcp']) + len(out['listen_unix'])),
            C.coq_option(C.coq_N, out.get('shutdown_err')),
            C.coq_list(C.coq_bool(b) for b in out['after_files']),
            coq_nat(max(out['after_listen_own'], len(out['after_listen_any']),
                        len([1 for pr in out['after_probes'] if pr[3] != 'refused']))),
            coq_nat(max(out['after_children'], out['after_active_children'])))
    return 'Case (%s) %s %s %s %d %s %s' % (coq_config(cfg), binds, host_order, port_order, out['pid'], pre, exp)


# ===================================================================== the property on the implementation
def oracle(case, out):
    cfg = out['cfg']
    if case.get('expect_fail'):
        return None     # outside the property (its premise is a successful start-up); only compared with the model
    unix = cfg['unix']
    hosts = dedupe([cfg['hostname']] + cfg['hostnames'])
    tports = ([] if unix else [cfg['port']]) + cfg['ports']
    fixed = [x for x in tports if x != 0]
    if len(set(fixed)) != len(fixed) or (0 in tports and len(hosts) > 1):
        # outside the property's domain: the same fixed port twice on one address cannot be bound, and an
        # OS-assigned port with several addresses is excluded by the quantifier (see C19_restriction_needed)
        return None
    if 'setup_err' in out:
        return 'start-up failed: %s' % out['setup_err_text']
    ltcp = [tuple(x) for x in out['listen_tcp']]
    # os_spec on this run: what a listener believes (_port) is what the kernel says (getsockname), fixed requests honoured
    for l in out['pool']:
        if l[0] == 'tcp':
            if l[3] != l[4]:
                return 'listener %s:%s stores _port=%s but its socket is bound to %s' % (l[1], l[2], l[3], l[4])
            if (l[2] != 0 and l[3] != l[2]) or l[3] == 0:
                return 'bind oracle hypothesis violated: requested %s got %s' % (l[2], l[3])
    # every configured endpoint listens (seen in /proc/net) ...
    for h in hosts:
        on_h = [q for hh, q in ltcp if hh == h]
        if len(on_h) != len(tports):
            return 'address %s: %d ports configured %r but %d listening sockets %r' % (h, len(tports), tports, len(on_h), on_h)
        for r in tports:
            if r != 0 and r not in on_h:
                return 'configured endpoint %s:%d is not listening' % (h, r)
    if len(ltcp) != len(hosts) * len(tports):
        return 'listening TCP sockets %r do not match the configured addresses %r x ports %r' % (ltcp, hosts, tports)
    if unix and out['listen_unix'] != [NAMES['sock']]:
        return 'unix socket path is not listening (%r)' % out['listen_unix']
    if unix and not out['unix_is_socket']:
        return 'unix socket path does not exist'
    if not unix and out['listen_unix']:
        return 'unexpected unix listener %r' % out['listen_unix']
    # ... and accepts: a real HTTP exchange on each of them
    for kind, h, q, r in out['probes']:
        if r != 'served':
            return 'endpoint %s %s:%s did not serve a connection after start-up (%s)' % (kind, h, q, r)
    # reported ports = bound ports, primary first
    reported = ([] if unix else [out['flags_port']]) + list(out['flags_ports'])
    bound = sorted(set(q for _, q in ltcp))
    if len(set(reported)) != len(reported):
        return 'reported ports contain duplicates: %r' % reported
    if sorted(reported) != bound:
        return 'flags.port/flags.ports report %r but the bound TCP ports are %r' % (reported, bound)
    if not unix:
        if cfg['port'] != 0 and out['flags_port'] != cfg['port']:
            return 'flags.port is %d but the primary port (--port) is %d' % (out['flags_port'], cfg['port'])
        if cfg['port'] == 0 and out['flags_port'] in [x for x in cfg['ports'] if x != 0]:
            return 'flags.port is the additional port %d' % out['flags_port']
    want = b''.join(b'%d\n' % q for q in reported)
    if cfg['port_file']:
        if out['port_file'] != want:
            return 'port file holds %r, expected %r' % (out['port_file'], want)
    elif NAMES['ports'] in out['dir_started'] and 'ports' not in cfg['pre']:
        return 'a port file was written although none is configured'
    if cfg['pid_file']:
        if out['pid_file'] != b'%d' % out['pid']:
            return 'pid file holds %r, expected %d' % (out['pid_file'], out['pid'])
    elif NAMES['pid'] in out['dir_started'] and 'pid' not in cfg['pre']:
        return 'a pid file was written although none is configured'
    # after shutdown
    if 'shutdown_err' in out:
        return 'shutdown raised %s' % out['shutdown_err_text']
    for kind, h, q, r in out['after_probes']:
        if r != 'refused':
            return 'endpoint %s %s:%s still reachable after shutdown (%s)' % (kind, h, q, r)
    if out['after_listen_own'] or out['after_listen_any']:
        return 'listening sockets remain after shutdown: %r' % (out['after_listen_any'] or out['after_listen_own'])
    if out['after_children'] or out['after_active_children']:
        return '%d child process(es) remain after shutdown' % max(out['after_children'], out['after_active_children'])
    left = [n for n, there, configured in zip(('pid file', 'port file', 'unix socket path'), out['after_files'],
                                              (cfg['pid_file'], cfg['port_file'], unix)) if there and configured]
    if left:
        return 'left behind after shutdown: ' + ', '.join(left)
    return None


def nontrivial(case, out):
    return 'setup_err' not in out and len(out['probes']) > 0 and len(out['after_probes']) == len(out['probes'])


def classify(case, out, failure):
    return None


# ===================================================================== generation
def mk(kind, hostname=V4A, hostnames=(), port=0, ports=(), unix=False, port_file=True, pid_file=True, mode='local',
       acceptors=1, workers=1, **kw):
    c = dict(kind=kind, hostname=hostname, hostnames=list(hostnames), port=port, ports=list(ports), unix=unix,
             port_file=port_file, pid_file=pid_file, mode=mode, acceptors=acceptors, workers=workers)
    c.update(kw)
    return c


HOSTS_SINGLE = [(V4A, ()), (V6, ()), (V4A, (V4A,))]
HOSTS_MULTI = [(V4A, (V4B,)), (V6, (V4A,))]
FILES = [(True, True), (False, False), (True, False), (False, True)]

def port_patterns(allow_zero):
    """(--port, --ports) with 0..3 additional entries, each fixed (distinct symbols) or 0"""
    res = []
    for n in range(4):
        for bits in itertools.product((False, True), repeat=n + 1):
            if any(bits) and not allow_zero:
                continue
            k = 0
            vals = []
            for z in bits:
                if z:
                    vals.append(0)
                else:
                    vals.append('F%d' % k); k += 1
            res.append((vals[0], vals[1:]))
    return res


def grid():
    cases = []
    i = 0
    for hostname, hostnames in HOSTS_SINGLE + HOSTS_MULTI:
        single = len(set((hostname,) + tuple(hostnames))) == 1
        for port, ports in port_patterns(single):
            for unix in (False, True):
                for mode in MODES:
                    pf, pidf = FILES[i % 4]; i += 1
                    cases.append(mk('grid', hostname, hostnames, port, ports, unix, pf, pidf, mode))
    return cases


def failures():
    return [
        mk('bind-fails', port='F0', block=['F0'], expect_fail=True),
        mk('bind-fails', port=0, ports=['F0', 0], block=['F0'], expect_fail=True, mode='threaded'),
        mk('bind-fails', hostname=V6, hostnames=[V4A], port='F0', ports=['F1'], block=['F1'], expect_fail=True),
        mk('bind-fails', port='F0', ports=['F0'], expect_fail=True),                  # the same fixed port twice
        mk('stale-unix-path', unix=True, pre={'sock': 'socket'}, expect_fail=True),
        mk('stale-files', port=0, ports=[0], pre={'pid': '1', 'ports': '1\n2\n3\n4\n'}, mode='remote'),
        mk('stale-files', unix=True, ports=['F0'], pre={'ports': 'x'}, port_file=True, pid_file=False),
    ]


def generate(rng, tier):
    cases = _generate(rng, tier)
    # the driver runs the corpus first and then these cases, one run_impl call each; all of them are executed
    # (in parallel, one live proxy per worker process) on the first call and served from the cache afterwards
    corpus = []
    for f in sorted((C.VERIF / 'corpus' / ID).glob('*.json')):
        obj = json.loads(f.read_text())
        corpus += obj if isinstance(obj, list) else [obj]
    _PENDING[:] = corpus + cases
    return cases


def _generate(rng, tier):
    if tier == 'thorough':
        cases = grid() + failures()
        for acc, wrk, mode in ((2, 2, 'remote'), (3, 1, 'local'), (2, 1, 'threaded')):
            cases.append(mk('many-children', port=0, ports=[0], acceptors=acc, workers=wrk, mode=mode))
            cases.append(mk('many-children', unix=True, ports=['F0'], acceptors=acc, workers=wrk, mode=mode))
        return cases
    fixed = [
        mk('grid', port=0, port_file=False, pid_file=False, mode='local'),
        mk('grid', port=0, ports=[0, 0], mode='remote'),
        mk('grid', hostname=V6, hostnames=[V4A], port='F0', ports=['F1'], mode='local'),
        mk('grid', hostname=V4A, hostnames=[V4B, V4A], port='F0', port_file=True, pid_file=False, mode='remote'),
        mk('grid', unix=True, ports=[0, 'F0'], mode='threaded'),
        mk('grid', hostname=V4A, hostnames=[V4A], port=0, ports=['F0', 0, 'F1'], port_file=False, pid_file=True, mode='local'),
        mk('grid', hostname=V4A, hostnames=[V4B], unix=True, ports=['F0', 'F1'], mode='remote'),
        mk('many-children', port='F0', ports=[0], acceptors=2, workers=2, mode='remote'),
    ]
    fl = failures()
    g = grid()
    return fixed + [fl[2], fl[4], fl[5], fl[6]] + [g[rng.randrange(len(g))] for _ in range(2)]


def shrink(case, fails):
    cur = dict(case)
    changed = True
    while changed:
        changed = False
        cands = []
        if cur['ports']:
            cands += [dict(cur, ports=cur['ports'][:i] + cur['ports'][i + 1:]) for i in range(len(cur['ports']))]
        if cur['hostnames']:
            cands += [dict(cur, hostnames=cur['hostnames'][:-1])]
        for k in ('port_file', 'pid_file', 'unix'):
            if cur[k]:
                cands.append(dict(cur, **{k: False}))
        if cur['mode'] != 'local':
            cands.append(dict(cur, mode='local'))
        for t in cands:
            try:
                if fails(t):
                    cur, changed = t, True
                    break
            except Exception:
                pass
    return cur
