"""C15 — HTTP message and chunked codecs round-trip and agree with a reference.
Correspondence of Http/Builders.v (+ Chunk.v/Parser.v) with proxy/common/utils.py builders and
HttpParser.build/build_response/update_body; the reference recognisers of Http/Grammar.v
(wf_message, ref_dechunk_bytes) against h11; and the property itself on the implementation
(parse(build(x)) == x, rebuild stability, h11 accepts what is built, zlib round trip)."""
import gzip, zlib, re
from unittest import mock
import common as C
from props import http_common as H

ID = 'C15'
COQ_TARGETS = ['theories/Props/C15.vo', 'theories/Http/BuildersCases.vo']
IMPORTS = ('From PM Require Import Lib.Bytes Lib.PyStr Http.Url Http.Chunk Http.Parser Http.HttpCases '
           'Http.Builders Http.Grammar Http.BuildersCases.\nFrom Coq Require Import ZArith.')
CASE_TYPE = 'bcase'
CHECK_FN = 'check_case'
SHARD = 200
ANCHOR_FILES = ['proxy/common/utils.py', 'proxy/http/parser/parser.py', 'proxy/http/parser/chunk.py', 'proxy/http/responses.py']
RULE = ('cases = builder arguments (methods, origin/absolute/authority targets, versions, 0-6 headers in any spelling incl. '
        'caller-supplied content-length / connection / user-agent / content-type / transfer-encoding, content_type, conn_close, '
        'no_ua / no_cl, status codes incl. 1xx/204/304/999, reasons None/empty/with (leading) spaces, bodies None/empty/binary/'
        'framing look-alikes/periodic ones of 131071..262145 bytes) for build_http_request/response, plus arguments damaged in 9 ways '
        '(correspondence only); wire messages of the grammar generator (Content-Length in any spelling, chunk layouts with '
        'extensions/trailers/leading zeros, empty chunked body) and 10 kinds of mutations, parsed and rebuilt with '
        'build(disable_headers, for_proxy, host)/build_response; a separate stream of build() argument combinations on well-formed '
        'requests (disable_headers: names of the message in lower case / in other casings (inert) / content-length / '
        'transfer-encoding / host / every header / absent names; host= on requests with and without a Host header; for_proxy on '
        'absolute-form, authority-form, CONNECT and origin-form (assert) targets; all three combined), each judged by an independent '
        'Python statement of the argument contract, by h11, and in Coq against the specification maps of Http/BuildArgs.v (BBuildSpec); '
        'update_body on parsed messages x Content-Encoding '
        '{none,gzip,GZIP,br,identity} x {Content-Length, chunked}; chunked streams (valid layouts + tails, mutations) for the '
        'reference decoders; (body, chunk size) pairs for to_chunks.  Every built/rebuilt/mutated message inside the comparable '
        'domain is also judged by wf_message (in Coq) against h11.  non-trivial = the implementation returned bytes (no exception) '
        'and the message has a header or a body (dechunk: the reference accepts a non-empty body); distinct = distinct inputs')
TRUSTED = ['CPython semantics of dict insertion order, bytes.lower/strip/split, str(int), "{:x}".format as modelled in Lib/PyStr.v',
           'gzip enters the model as a function gz with the single assumed law gunz (gz x) = x; zlib is the oracle for it',
           'RFC 7230 as transcribed in Http/Grammar.v (wf_message, chunked grammar), cross-validated on every run against h11 0.16',
           'Url.from_bytes is opaque in the round-trip theorems (hypothesis on its result); its model is checked by C14/C03']
ASSUMPTIONS = ['gunzip(gzip(x)) == x (zlib)', 'body length below 10^4300 (CPython int() digit limit, stated as len_ok)',
               'PROXY_AGENT_HEADER_VALUE is a model parameter read from /repo at run time']


def UA():
    from proxy.common.constants import PROXY_AGENT_HEADER_VALUE
    return PROXY_AGENT_HEADER_VALUE


# ------------------------------------------------------------------ compact Coq byte strings
def cbytes(data):
    """Coq term for a byte string; long periodic runs become bpat terms"""
    data = bytes(data)
    n = len(data)
    if n <= 400:
        return C.coq_bytes(data)
    segs, i, lit = [], 0, bytearray()
    while i < n:
        found = None
        if n - i >= 128:
            for period in (1, 2, 3, 4, 5, 6, 7, 8):
                pat = data[i:i + period]
                j = i + period
                # extend while periodic
                if data[i:i + 128] == (pat * (128 // period + 1))[:128]:
                    j = i + 128
                    step = 4096
                    while j < n:
                        k = min(n, j + step)
                        ph = (j - i) % period
                        want = ((pat[ph:] + pat[:ph]) * ((k - j) // period + 2))[:k - j]
                        if data[j:k] == want:
                            j = k
                        else:
                            # find exact end
                            lo = j
                            while lo < k and data[lo] == pat[(lo - i) % period]:
                                lo += 1
                            j = lo
                            break
                    found = (pat, j - i)
                    break
        if found:
            if lit:
                segs.append(C.coq_bytes(bytes(lit))); lit = bytearray()
            segs.append('bpat %s %d' % (C.coq_bytes(found[0]), found[1]))
            i += found[1]
        else:
            lit.append(data[i]); i += 1
    if lit:
        segs.append(C.coq_bytes(bytes(lit)))
    return '(' + ' ++ '.join(segs) + ')'

def cob(x):
    return 'None' if x is None else '(Some %s)' % cbytes(x)

def cdict(h):
    if h is None:
        return 'None'
    return '(Some %s)' % C.coq_list('(%s, %s)' % (cbytes(k), cbytes(v)) for k, v in h)

def cZ(n):
    return '(%d)%%Z' % n

def cobs(out, ok):
    if 'err' in out:
        return '(ErrObs %d %d)' % (out['err_idx'], out['err'])
    return '(OkObs %s)' % ok(out)

def coq_req(a):
    return '(mk_req %s %s %s %s %s %s %s %s)' % (cbytes(a['method']), cbytes(a['url']), cbytes(a['version']), cob(a['ctype']),
                                                 cdict(a['headers']), cob(a['body']), C.coq_bool(a['close']), C.coq_bool(a['noua']))

def coq_resp(a):
    return '(mk_resp %s %s %s %s %s %s %s)' % (cZ(a['status']), cbytes(a['version']), cob(a['reason']), cdict(a['headers']),
                                               cob(a['body']), C.coq_bool(a['close']), C.coq_bool(a['nocl']))

def pt(t):
    return 'REQUEST_PARSER' if t == 1 else 'RESPONSE_PARSER'


# ------------------------------------------------------------------ h11 as the independent parser
def h11_parse(ptype, raw, method=b'GET'):
    """returns dict(ok=True, start..., headers, body, trailing) or dict(ok=False, why)"""
    import h11
    if ptype == 1:
        c = h11.Connection(h11.SERVER, max_incomplete_event_size=1 << 26)
    else:
        c = h11.Connection(h11.CLIENT, max_incomplete_event_size=1 << 26)
        c.send(h11.Request(method=method, target=b'/', headers=[(b'host', b'x')]))
        c.send(h11.EndOfMessage())
    out = dict(ok=False, body=b'', informational=0)
    try:
        c.receive_data(raw)
        c.receive_data(b'')      # EOF: the message must be complete by now (or be close-delimited)
        while True:
            e = c.next_event()
            if e is h11.NEED_DATA:
                out['why'] = 'incomplete'; return out
            if e is h11.PAUSED:
                out['why'] = 'paused'; return out
            if isinstance(e, h11.InformationalResponse):
                out['info'] = dict(status=e.status_code, reason=bytes(e.reason), headers=[(bytes(k), bytes(v)) for k, v in e.headers],
                                   version=bytes(e.http_version))
                out['informational'] += 1
                continue
            if isinstance(e, h11.Request):
                out.update(method=bytes(e.method), target=bytes(e.target), version=bytes(e.http_version),
                           headers=[(bytes(k), bytes(v)) for k, v in e.headers])
            elif isinstance(e, h11.Response):
                out.update(status=e.status_code, reason=bytes(e.reason), version=bytes(e.http_version),
                           headers=[(bytes(k), bytes(v)) for k, v in e.headers])
            elif isinstance(e, h11.Data):
                out['body'] += bytes(e.data)
            elif isinstance(e, h11.EndOfMessage):
                out['trailers'] = [(bytes(k), bytes(v)) for k, v in e.headers]
                break
            elif isinstance(e, h11.ConnectionClosed):
                out['why'] = 'closed'; return out
    except Exception as ex:
        out['why'] = 'error: %s' % ex
        return out
    out['trailing'] = bytes(c.trailing_data[0])
    out['ok'] = True
    return out


FINAL = b'HTTP/1.1 200 OK\r\nContent-Length: 0\r\n\r\n'

def h11_verdict(ptype, raw):
    """True/False: raw is exactly one complete message for h11; None: outside the comparable domain"""
    if not comparable(ptype, raw):
        return None
    if ptype == 2 and re.match(rb'HTTP/[0-9]\.[0-9] 1[0-9][0-9]( |\r\n)', raw):
        # an interim response: h11 then waits for the final one; supply it and demand that nothing came between
        r = h11_parse(ptype, raw + FINAL)
        return bool(r['ok'] and r['informational'] == 1 and r['trailing'] == b'' and r.get('status') == 200 and r['body'] == b'')
    r = h11_parse(ptype, raw)
    if not r['ok'] or r.get('informational'):
        return False
    return r['trailing'] == b''


FRAMING_TRAILER = re.compile(rb'(?i)\r\n(transfer-encoding|content-length)[ \t]*:')
HEAD_END = re.compile(rb'\r\n\r\n|\n\n|\n\r\n')

def comparable(ptype, raw):
    """inputs on which wf_message (a sender-side RFC 7230 recogniser) and h11 (a lenient receiver) are expected to agree;
    everything excluded here is a documented, deliberate difference"""
    m = HEAD_END.search(raw)
    head = raw if m is None else raw[:m.end()]
    if re.search(rb'(?<!\r)\n', head):
        return False                                   # h11 accepts bare LF line ends
    lines = head.split(b'\r\n')
    if any(l[:1] in (b' ', b'\t') for l in lines[1:] if l):
        return False                                   # obs-fold: h11 unfolds, the recogniser rejects
    if lines and (lines[0][:1] in (b' ', b'\t') or lines[0] == b''):
        return False                                   # h11 skips leading blank lines
    names = [l.split(b':', 1)[0].lower() for l in lines[1:] if b':' in l]
    ncl, nte = names.count(b'content-length'), names.count(b'transfer-encoding')
    if ncl > 1 or (ncl and nte):
        return False                                   # h11 tolerates equal duplicates and TE+CL; a sender must not emit them
    for l in lines[1:]:
        if l.lower().startswith(b'content-length:') and (b',' in l):
            return False
        if l.lower().startswith(b'content-length:') and len(l) > 35:
            return False                               # h11 caps Content-Length at 20 digits
        if l.lower().startswith(b'connection:') or l.lower().startswith(b'upgrade:') or l.lower().startswith(b'expect:'):
            pass
    if ptype == 2:
        sl = lines[0].split(b' ')
        if len(sl) >= 2 and sl[1] == b'101':
            return False                               # needs a pending upgrade proposal in h11
    if re.search(rb'(^|\r\n)[0-9A-Fa-f]{21,}', raw):
        return False                                   # h11 caps chunk sizes at 20 hex digits
    if m is not None and FRAMING_TRAILER.search(raw, m.end() - 2):
        return False                                   # h11 re-validates framing fields met in a trailer
    if m is not None and nte:
        tr = trailer_region(raw[m.end():])
        if tr is not None and (re.search(rb'(?<!\r)\n', tr) or re.search(rb'\r\n[ \t]', tr)):
            return False                               # h11 also accepts bare LF / obs-fold inside a trailer section
    return True


def trailer_region(body):
    """the bytes after the last-chunk line of a chunked body (None when the chunks cannot be walked)"""
    pos = 0
    while True:
        i = body.find(b'\r\n', pos)
        if i < 0: return None
        mm = SIZE_LINE.fullmatch(body[pos:i])
        if not mm: return None
        n = int(mm.group(1), 16)
        pos = i + 2
        if n == 0: return body[pos - 2:]
        pos += n + 2
        if pos > len(body): return None


def h11_message(ptype, raw):
    """h11's reading of one message; an interim (1xx) response is followed by a canned final response,
    the interim head is reported and nothing may come between the two"""
    if ptype == 2 and re.match(rb'HTTP/[0-9]\.[0-9] 1[0-9][0-9]( |\r\n)', raw):
        r = h11_parse(ptype, raw + FINAL)
        if r['ok'] and (r['informational'] != 1 or r.get('status') != 200 or r['body'] != b''):
            return dict(ok=False, why='bytes between the interim response and the next one')
        if r['ok']:
            r.update(r['info'])
        return r
    r = h11_parse(ptype, raw)
    if r['ok'] and r['informational']:
        return dict(ok=False, why='unexpected interim response')
    return r


SIZE_LINE = re.compile(rb'([0-9A-Fa-f]+)(;[^\n]*|[ \t]*)')
FIELD_LINE = re.compile(rb"[-!#$%&'*+.^_`|~0-9A-Za-z]+:[^\x00\n\x0b\x0c\r]*")

def py_dechunk(raw):
    """RFC 7230 section 4.1 read strictly (CRLF line ends only), written independently of the Coq recogniser:
    (body, remainder) or None"""
    pos, body = 0, b''
    while True:
        i = raw.find(b'\r\n', pos)
        if i < 0: return None
        m = SIZE_LINE.fullmatch(raw[pos:i])
        if not m: return None
        n = int(m.group(1), 16)
        pos = i + 2
        if n == 0:
            while True:
                j = raw.find(b'\r\n', pos)
                if j < 0: return None
                line = raw[pos:j]
                pos = j + 2
                if line == b'': return body, raw[pos:]
                if not FIELD_LINE.fullmatch(line): return None
        if len(raw) < pos + n + 2 or raw[pos + n:pos + n + 2] != b'\r\n': return None
        body += raw[pos:pos + n]
        pos += n + 2


STATS = dict(buildargs_checked=0, buildargs_disable_te_on_chunked_outside_domain=0, buildargs_for_proxy_assert=0,
             wf_both_accept=0, wf_both_reject=0, wf_outside_comparable_domain=0,
             dechunk_all_accept=0, dechunk_all_reject=0, dechunk_h11_lenient_bare_lf=0, dechunk_h11_lenient_obs_fold=0, dechunk_h11_limits=0)

def h11_dechunk(stream):
    """reference decoding of a chunked body by h11: (body, remainder) or None"""
    r = h11_parse(1, b'POST / HTTP/1.1\r\nHost: a\r\nTransfer-Encoding: chunked\r\n\r\n' + stream)
    if not r['ok']:
        return None
    return r['body'], r['trailing']


# ------------------------------------------------------------------ generators
def rname(rng):
    return H.rtoken(rng, 1, 12)

def big_body(rng, n):
    pat = bytes(rng.randrange(256) for _ in range(rng.choice([1, 2, 4, 8])))
    return (pat * (n // len(pat) + 1))[:n]

def layout(rng, body):
    """wire form of a chunked body: the generator's random layout; a few large chunks for large bodies
    (the models' slicing is linear in the remaining length per chunk: thousands of tiny chunks of a 256 KiB body
    would only measure Coq's patience)"""
    if len(body or b'') <= 4096:
        return H.chunk_layout(rng, body or b'')[0]
    out, i = b'', 0
    while i < len(body):
        k = min(len(body) - i, rng.choice([65536, 100000, 131072]))
        out += (b'%X' if rng.random() < 0.3 else b'%x') % k + rng.choice([b'', b';big=1']) + b'\r\n' + body[i:i + k] + b'\r\n'
        i += k
    return out + b'0\r\n\r\n'


def gen_body(rng, allow_big=False):
    r = rng.random()
    if allow_big:
        return big_body(rng, rng.choice([131071, 131072, 131073, 140000, 262145]))
    if r < 0.12: return None
    if r < 0.22: return b''
    return H.rbody(rng, rng.choice([1, 2, 3, 7, 16, 60, 300]))

def spell(rng, name):
    return rng.choice([name, name.lower(), name.upper(), name.title()])

def gen_headers(rng, host=None):
    hs, names = [], set()
    for _ in range(rng.randint(0, 5)):
        n = rname(rng)
        if n.lower() in names or n.lower() in (b'content-length', b'transfer-encoding', b'host', b'connection', b'user-agent', b'content-type', b'content-encoding'):
            continue
        names.add(n.lower()); hs.append((n, H.rvalue(rng)))
    if host is not None:
        hs.insert(rng.randint(0, len(hs)), (spell(rng, b'Host'), host))
    return hs

def gen_req_args(rng, big=False):
    """well-formed by construction (inside wf_req_args and rfc_req_args)"""
    method = rng.choice(H.METHODS)
    host = H.rhost(rng)
    form = rng.randrange(4)
    path = H.rpath(rng)
    prt = rng.choice([None, 80, 8080, 443])
    if form == 0: url = path
    elif form == 1: url = b'http://' + host + (b':%d' % prt if prt else b'') + path
    elif form == 2: url = b'https://' + host + (b':%d' % prt if prt else b'')
    else: method, url = b'CONNECT', host + b':%d' % (prt or 443)
    version = rng.choice([b'HTTP/1.1', b'HTTP/1.1', b'HTTP/1.0'])
    hs = gen_headers(rng, host if (version == b'HTTP/1.1' or rng.random() < 0.5) else None)
    body = gen_body(rng, big)
    ctype = rng.choice([None, None, b'text/plain', b'application/json; charset=utf-8'])
    r = rng.random()
    if r < 0.2:
        # chunked: the caller supplies the encoded body
        hs.insert(rng.randint(0, len(hs)), (spell(rng, b'Transfer-Encoding'), rng.choice([b'chunked', b'Chunked', b'CHUNKED'])))
        body = layout(rng, body or b'')
    elif r < 0.45 and body:
        # caller already put a Content-Length under some spelling: the builder must overwrite it in place
        hs.insert(rng.randint(0, len(hs)), (spell(rng, b'Content-Length'), rng.choice([b'%d' % len(body), b'0', b'999'])))
    elif r < 0.5 and not body:
        hs.insert(rng.randint(0, len(hs)), (spell(rng, b'Content-Length'), rng.choice([b'0', b'00'])))
    if rng.random() < 0.2:
        hs.insert(rng.randint(0, len(hs)), (spell(rng, b'User-Agent'), b'curl/8.0'))
    if rng.random() < 0.15:
        hs.insert(rng.randint(0, len(hs)), (spell(rng, b'Connection'), b'keep-alive'))
    if rng.random() < 0.15 and ctype is not None:
        hs.insert(rng.randint(0, len(hs)), (spell(rng, b'Content-Type'), b'x/y'))
    headers = hs if (hs or rng.random() < 0.5) else None
    return dict(method=method, url=url, version=version, ctype=ctype, headers=headers, body=body,
                close=rng.random() < 0.3, noua=rng.random() < 0.5)

def gen_resp_args(rng, big=False):
    status = rng.choice([200, 200, 201, 301, 404, 500, 204, 304, 100, 102, 999, 418])
    version = rng.choice([b'HTTP/1.1', b'HTTP/1.0'])
    reason = rng.choice([None, b'', b'OK', b'Not Found', b'Moved  Permanently', b' leading', b'X Y Z', b'Connection established'])
    hs = gen_headers(rng)
    body = gen_body(rng, big)
    if status < 200 or status in (204, 304):
        body = rng.choice([None, b''])
    nocl = rng.random() < 0.2
    r = rng.random()
    if r < 0.2 and body is not None and not (status < 200 or status in (204, 304)):
        hs.insert(rng.randint(0, len(hs)), (spell(rng, b'Transfer-Encoding'), rng.choice([b'chunked', b'Chunked'])))
        body = layout(rng, body)
    elif r < 0.45:
        hs.insert(rng.randint(0, len(hs)), (spell(rng, b'Content-Length'), rng.choice([b'%d' % len(body or b''), b'0', b'7'])))
        if nocl and body:
            hs[[i for i, (k, _) in enumerate(hs) if k.lower() == b'content-length'][0]] = (b'content-length', b'%d' % len(body))
        elif nocl:
            hs = [(k, (b'0' if k.lower() == b'content-length' else v)) for k, v in hs]
    elif nocl and body:
        nocl = False
    if rng.random() < 0.15:
        hs.insert(rng.randint(0, len(hs)), (spell(rng, b'Connection'), b'keep-alive'))
    headers = hs if (hs or rng.random() < 0.5) else None
    return dict(status=status, version=version, reason=reason, headers=headers, body=body,
                close=rng.random() < 0.3, nocl=nocl)

def damage_args(rng, a, kind):
    """arguments the builders do not reject but that lie outside the round-trip domain"""
    a = dict(a)
    hs = list(a['headers'] or [])
    r = rng.randrange(9)
    bad = rng.choice([b'a\r\nb', b'a\nb', b' lead', b'trail ', b'x\r', b'\tq', b'p q'])
    if r == 0 and kind == 'req': a['method'] = rng.choice([b'GE T', b'', b'G\r\nET', b'G:ET'])
    elif r == 0: a['version'] = rng.choice([b'HTTP/1.1 ', b'HT TP/1.1', b'', b'HTTP/1.1\r\n'])
    elif r == 1 and kind == 'req': a['url'] = rng.choice([b'/a b', b'', b'/a\r\nb', b'//x/y', b'ftp://h/'])
    elif r == 1: a['reason'] = rng.choice([b'O\r\nK', b'O\nK', b'\r'])
    elif r == 2: hs.append((bad, b'v'))
    elif r == 3: hs.append((b'X-Bad', bad))
    elif r == 4 and hs: hs.append((hs[0][0].swapcase() if hs[0][0].swapcase() != hs[0][0] else hs[0][0] + b'x', b'dup'))
    elif r == 5: hs.append((b'Transfer-Encoding', rng.choice([b'gzip', b'chunked, gzip', b'identity'])))
    elif r == 6: hs.append((b'Content-Length', rng.choice([b'x', b'-1', b'1_0', b' 5', b'+3'])))
    elif r == 7: hs.append((b'na:me', b'v'))
    else:
        if kind == 'req': a['version'] = rng.choice([b'HTTP/1.1 x', b'', b'HTTP/2'])
        else: a['status'] = rng.choice([0, -1, 7, 1000, 99])
    # duplicates by exact key cannot exist in a dict
    seen, out = set(), []
    for k, v in hs:
        if k in seen: continue
        seen.add(k); out.append((k, v))
    a['headers'] = out
    return a


def mutate(rng, raw):
    r = rng.randrange(10)
    if not raw: return raw
    if r == 0: return raw[:rng.randrange(0, len(raw) + 1)]
    if r == 1:
        i = rng.randrange(0, len(raw) + 1); return raw[:i] + b'\r\n' + raw[i:]
    if r == 2:
        i = raw.find(b'\r\n', rng.randrange(0, len(raw))); return raw if i < 0 else raw[:i] + rng.choice([b'\r', b'\n', b'']) + raw[i + 2:]
    if r == 3: return re.sub(rb'(?i)content-length: ?', lambda m: m.group(0) + rng.choice([b'x', b'-', b'+', b'1_', b'0', b'9' * 25]), raw, 1)
    if r == 4:
        i = rng.randrange(0, len(raw) + 1); return raw[:i] + bytes([rng.choice([0xff, 0xc3, 0x80, 0x00, 0x7f, 0x0b])]) + raw[i:]
    if r == 5: return raw.replace(b'\r\n\r\n', b'\r\nContent-Length: %d\r\n\r\n' % rng.choice([0, 3, 50]), 1)
    if r == 6: return raw.replace(b'\r\n\r\n', b'\r\nTransfer-Encoding: %s\r\n\r\n' % rng.choice([b'chunked', b'gzip', b'gzip, chunked']), 1)
    if r == 7: return raw.replace(b' ', rng.choice([b'', b'  ', b'\t']), 1)
    if r == 8: return raw + rng.choice([b'x', b'\r\n', b'0\r\n\r\n', b'GET / HTTP/1.1\r\n\r\n'])
    i = rng.randrange(0, len(raw)); return raw[:i] + bytes([rng.randrange(256)]) + raw[i + 1:]



HOST_ARGS = [b'override.example:8080', b'backend', b'[::1]:81', b'h', b'a.b:65535']

def recase(rng, name):
    """another spelling of a header name (never the lower-case one, if the name has a letter)"""
    alts = [x for x in (name.upper(), name.title(), name.swapcase()) if x != name.lower()]
    return rng.choice(alts) if alts else name

def gen_build_args(rng, d, i):
    """one argument combination of HttpParser.build for the well-formed request d (i cycles through the kinds)"""
    lows = [k.lower() for k, _ in d['headers']]
    pick = lambda: rng.sample(lows, min(len(lows), rng.randint(1, 3))) if lows else []
    dis, fp, host = [], False, None
    r = i % 12
    if r == 0: dis = pick() + [b'not-there']
    elif r == 1: dis = [recase(rng, n) for n in pick()] + [b'Not-There']            # not lower-case: disables nothing
    elif r == 2: dis = [b'content-length'] + (pick() if rng.random() < 0.5 else [])  # re-added for a non-empty body
    elif r == 3: dis = [b'transfer-encoding'] + (pick() if rng.random() < 0.3 else [])
    elif r == 4: host = rng.choice(HOST_ARGS)
    elif r == 5: fp = True
    elif r == 6: dis, host = pick(), rng.choice(HOST_ARGS)
    elif r == 7: dis, fp, host = pick(), True, rng.choice(HOST_ARGS)
    elif r == 8: dis, host = [b'host'], rng.choice(HOST_ARGS)                         # disabled AND overridden: removed
    elif r == 9: dis = list(lows)                                                     # every header of the message
    elif r == 10: fp, dis = True, [b'content-length', b'host']
    else: dis = lows[:1] + [recase(rng, n) for n in lows[1:2]] + [b'']
    return dict(disable=dis, for_proxy=fp, host=host)

def gen_wire(rng, kind=None):
    """a well-formed wire message inside the rebuild domain, plus its description"""
    while True:
        d = H.gen_message(rng, kind)
        if d['ptype'] == 1 and d.get('path') and d['path'].startswith(b'//'):
            continue
        if d['ptype'] == 2 and d['code'] in (b'100', b'204') and d['framing'] != 'cl0':
            continue        # interim / no-content responses never carry a body (RFC 7230 3.3.3)
        if d['ptype'] == 1 and d['version'] == b'HTTP/1.1' and not any(k.lower() == b'host' for k, _ in d['headers']):
            continue        # Host is mandatory in HTTP/1.1 (the independent parser insists)
        return d


def generate(rng, tier):
    quick = tier != 'thorough'
    cases = []
    n = 80 if quick else 2500
    for i in range(n):
        a = gen_req_args(rng, big=(i % (40 if quick else 200) == 7))
        cases.append(dict(kind='req', args=a, wf=True))
    for i in range(n):
        a = gen_resp_args(rng, big=(i % (40 if quick else 200) == 9))
        cases.append(dict(kind='resp', args=a, wf=True))
    for i in range(30 if quick else 1000):
        if rng.random() < 0.5:
            cases.append(dict(kind='req', args=damage_args(rng, gen_req_args(rng), 'req'), wf=False))
        else:
            cases.append(dict(kind='resp', args=damage_args(rng, gen_resp_args(rng), 'resp'), wf=False))
    # rebuild of parsed messages
    for i in range(90 if quick else 3000):
        d = gen_wire(rng)
        opts = dict(disable=[], for_proxy=False, host=None)
        r = rng.random()
        names = [k.lower() for k, _ in d['headers']]
        if r < 0.15 and names:
            opts['disable'] = rng.sample(names, min(len(names), rng.randint(1, 2))) + [b'not-there']
        elif r < 0.3 and d['ptype'] == 1:
            opts['for_proxy'] = True
        elif r < 0.4 and d['ptype'] == 1:
            opts['host'] = b'override.example:8080'
        cases.append(dict(kind='rebuild', ptype=d['ptype'], raw=d['raw'], opts=opts, wf=(opts == dict(disable=[], for_proxy=False, host=None)),
                          fp=bool(opts['for_proxy'] and d.get('host') and d.get('port')),
                          meta=dict(framing=d['framing'], body=d['body'], nheaders=len(d['headers']))))
    # the arguments of build(): disable_headers / for_proxy / host, alone and combined, on well-formed requests
    for i in range(48 if quick else 2400):
        d = gen_wire(rng, 1)
        cases.append(dict(kind='rebuild', ptype=1, raw=d['raw'], opts=gen_build_args(rng, d, i), wf=False, dom=True, bargs=True,
                          meta=dict(framing=d['framing'], body=d['body'], nheaders=len(d['headers']), target=d['target'],
                                    method=d['method'])))
    # a chunked body larger than DEFAULT_BUFFER_SIZE: received as one chunk, rebuilt as two
    for nbig, pt_ in ((140000, 1), (131073, 2)) if quick else ((140000, 1), (131073, 2), (262145, 1), (131072, 2)):
        bb = big_body(rng, nbig)
        head = (b'POST /big HTTP/1.1\r\nHost: a\r\n' if pt_ == 1 else b'HTTP/1.1 200 OK\r\n') + b'Transfer-Encoding: chunked\r\n\r\n'
        cases.append(dict(kind='rebuild', ptype=pt_, raw=head + b'%x\r\n' % nbig + bb + b'\r\n0\r\n\r\n',
                          opts=dict(disable=[], for_proxy=False, host=None), wf=True, fp=False,
                          meta=dict(framing='chunked', body=bb, nheaders=2 if pt_ == 1 else 1)))
    for i in range(40 if quick else 1200):
        d = H.gen_message(rng)
        raw = mutate(rng, d['raw'])
        if rng.random() < 0.3: raw = mutate(rng, raw)
        if not raw: continue
        cases.append(dict(kind='rebuild', ptype=d['ptype'], raw=raw, opts=dict(disable=[], for_proxy=rng.random() < 0.2, host=None), wf=False, meta=None))
    # update_body
    for i in range(40 if quick else 1200):
        d = gen_wire(rng)
        if d['framing'] == 'none' and rng.random() < 0.7:
            continue
        ce = rng.choice([None, b'gzip', b'gzip', b'br', b'GZIP', b'identity'])
        raw = d['raw']
        if ce is not None:
            raw = raw.replace(b'\r\n', b'\r\n' + spell(rng, b'Content-Encoding') + b': ' + ce + b'\r\n', 1)
        nb = rng.choice([b'', H.rbody(rng, rng.choice([1, 5, 40, 200])), b'{"key": "modified"}'])
        cases.append(dict(kind='update', ptype=d['ptype'], raw=raw, new_body=nb, ctype=rng.choice([b'application/json', b'text/plain']),
                          meta=dict(framing=d['framing'], ce=ce)))
    # chunked streams for the reference decoder
    for i in range(50 if quick else 1500):
        body = rng.choice([b'', H.rbody(rng, rng.choice([1, 3, 17, 80]))])
        wire, _ = H.chunk_layout(rng, body)
        tail = rng.choice([b'', b'', b'xyz', b'\r\n', b'0\r\n\r\n', b'GET / HTTP/1.1\r\n\r\n'])
        raw_ = wire + tail
        # the same stream also delivered in pieces (round-3 seed C15-r3-1): cuts next to every line end of the size lines,
        # the last-chunk line, the trailer fields and the final blank line, plus random cuts - the decoder must reach the
        # reference's answer whatever the delivery (segmentation independence proper is C03's theorem; here it is the
        # decoder-vs-reference agreement that is observed under it)
        pts = set()
        ends = [m.end() for m in re.finditer(rb'\r\n', raw_)]
        for e in rng.sample(ends, min(len(ends), 3)):
            pts.add(e + rng.choice([-2, -1, -1, 0, 1]))
        t0_ = len(wire) - 2
        pts.update(rng.sample([t0_ - 3, t0_ - 2, t0_ - 1, t0_, t0_ + 1, len(wire)], 2))
        for _ in range(rng.choice([0, 1, 3])):
            pts.add(rng.randrange(0, len(raw_) + 1))
        cuts = sorted(x for x in pts if 0 < x < len(raw_))
        cases.append(dict(kind='dechunk', raw=raw_, cuts=cuts, meta=dict(body=body, tail=tail)))
        if rng.random() < 0.6:
            cases.append(dict(kind='dechunk', raw=mutate(rng, wire + tail), meta=None))
    # to_chunks
    for i in range(25 if quick else 400):
        body = rng.choice([b'', H.rbody(rng, rng.randint(1, 70))])
        cases.append(dict(kind='tochunks', body=body, k=rng.choice([1, 2, 3, 7, 15, 16, 17, 64, 255, 256, 4096, 131072])))
    cases.append(dict(kind='tochunks', body=b'abc', k=0))
    cases.append(dict(kind='tochunks', body=big_body(rng, 300000), k=131072))
    return cases


# ------------------------------------------------------------------ implementation
def obs_err(e, idx):
    return dict(err=C.exn_code(e), err_idx=idx, exc=repr(e))

def parse_impl(ptype, raw):
    from proxy.http.parser import HttpParser
    p = HttpParser(ptype)
    p.parse(memoryview(raw))
    return p

def run_impl(case):
    from proxy.common.utils import build_http_request, build_http_response
    from proxy.http.parser.chunk import ChunkParser
    k = case['kind']
    if k == 'req':
        a = case['args']
        raw = build_http_request(a['method'], a['url'], a['version'], content_type=a['ctype'],
                                 headers=None if a['headers'] is None else dict(a['headers']), body=a['body'],
                                 conn_close=a['close'], no_ua=a['noua'])
        return dict(raw=raw, parsed=H.run_parser(1, [raw]))
    if k == 'resp':
        a = case['args']
        raw = build_http_response(a['status'], a['version'], reason=a['reason'],
                                  headers=None if a['headers'] is None else dict(a['headers']), body=a['body'],
                                  conn_close=a['close'], no_cl=a['nocl'])
        return dict(raw=raw, parsed=H.run_parser(2, [raw]))
    if k == 'rebuild':
        try:
            p = parse_impl(case['ptype'], case['raw'])
        except Exception as e:
            return obs_err(e, 0)
        out = dict(first=H.obs_parser(p))
        # the same wire message delivered in two pieces at a few cuts inside the body / the last lines (round-4 seed
        # C15-r4-1: a decoder object that is falsy while its body is empty gets replaced between reads): "parse back"
        # must not depend on the delivery.  Segmentation independence proper is C03's theorem; here the decoded message
        # the rebuild starts from is observed under it.
        raw_ = case['raw']
        he = raw_.find(b'\r\n\r\n')
        if he >= 0 and len(raw_) > he + 4:
            cuts = sorted({min(len(raw_) - 1, he + 4 + d) for d in (0, 1, 2, 3, 5)} | {len(raw_) - 2, len(raw_) - 1, len(raw_) - 4})
            pw = []
            for c_ in cuts:
                if 0 < c_ < len(raw_):
                    pw.append([c_, H.run_parser(case['ptype'], [raw_[:c_], raw_[c_:]])])
            out['piecewise'] = pw
        try:
            o = case['opts']
            if case['ptype'] == 1:
                raw = p.build(disable_headers=list(o['disable']), for_proxy=o['for_proxy'], host=o['host'])
            else:
                raw = p.build_response()
        except Exception as e:
            out.update(obs_err(e, 1)); return out
        out['raw'] = raw
        out['second'] = H.run_parser(case['ptype'], [raw])
        return out
    if k == 'update':
        try:
            p = parse_impl(case['ptype'], case['raw'])
        except Exception as e:
            return obs_err(e, 0)
        rec = {}
        real = gzip.compress
        def fake(data, *a, **kw):
            rec['in'] = bytes(data); rec['out'] = real(data, *a, **kw); return rec['out']
        out = dict(first=H.obs_parser(p))
        try:
            with mock.patch('gzip.compress', fake):
                p.update_body(case['new_body'], case['ctype'])
        except Exception as e:
            out.update(obs_err(e, 1)); return out
        out['gz'] = rec
        out['after'] = H.obs_parser(p)
        try:
            raw = p.build() if case['ptype'] == 1 else p.build_response()
        except Exception as e:
            out.update(obs_err(e, 2)); return out
        out['raw'] = raw
        out['second'] = H.run_parser(case['ptype'], [raw])
        return out
    if k == 'dechunk':
        o = dict(impl=H.run_chunk([case['raw']]), h11=h11_dechunk(case['raw']), ref=py_dechunk(case['raw']))
        if case.get('cuts'):
            raw_, cs = case['raw'], [0] + list(case['cuts']) + [len(case['raw'])]
            o['impl_cut'] = H.run_chunk([raw_[a:b] for a, b in zip(cs, cs[1:])])
            o['impl_bytewise'] = H.run_chunk([raw_[i:i + 1] for i in range(len(raw_))]) if len(raw_) <= 400 else None
        return o
    if k == 'tochunks':
        try:
            w = ChunkParser.to_chunks(case['body'], case['k'])
        except Exception as e:
            return obs_err(e, 0)
        return dict(raw=w, back=H.run_chunk([w + b'tail']))
    raise ValueError(k)


# ------------------------------------------------------------------ Coq terms
def wf_term(ptype, raw):
    v = h11_verdict(ptype, raw)
    if v is None:
        STATS['wf_outside_comparable_domain'] += 1
        return None
    STATS['wf_both_accept' if v else 'wf_both_reject'] += 1     # "both": the Coq side is compared with v by check_case
    return 'BWf %s %s %s' % (pt(ptype), cbytes(raw), C.coq_bool(v))

def rfc_args_py(kind, a):
    """is the generator-built argument set meant to be RFC-valid (and so accepted by h11)?"""
    return True

def coq_term(case, out):
    k = case['kind']
    ua = cbytes(UA())
    if k == 'req':
        ts = ['BReq %s %s %s' % (ua, coq_req(case['args']), cbytes(out['raw']))]
        if case['wf']:
            ts.append('BDomReq %s %s true true' % (ua, coq_req(case['args'])))
        ts.append(wf_term(1, out['raw']))
        return ts
    if k == 'resp':
        ts = ['BResp %s %s' % (coq_resp(case['args']), cbytes(out['raw']))]
        if case['wf']:
            ts.append('BDomResp %s true true' % coq_resp(case['args']))
        ts.append(wf_term(2, out['raw']))
        return ts
    if k == 'rebuild':
        o = case['opts']
        t = 'BRebuild %s %s %s %s %s %s %s' % (ua, pt(case['ptype']), cbytes(case['raw']), C.coq_list(cbytes(x) for x in o['disable']),
                                              C.coq_bool(o['for_proxy']), cob(o['host']), cobs(out, lambda r: cbytes(r['raw'])))
        ts = [t, wf_term(case['ptype'], case['raw'])]
        if 'raw' in out:
            ts.append(wf_term(case['ptype'], out['raw']))
        if case.get('dom', case['wf']):
            # the parser state of a generator-well-formed wire message lies inside the (decidable) domain of C15_rebuild_stable_*_bool
            ts.append('BRebuildDom %s %s' % (pt(case['ptype']), cbytes(case['raw'])))
        if case.get('bargs') and case.get('dom') and 'second' in out and 'err' not in out['second']:
            # the specification header map of C15_build_disable_headers/_host_override/_for_proxy, evaluated in Coq on the
            # parsed request, against the header map the implementation's output parsed back to
            ts.append('BBuildSpec %s %s %s %s' % (cbytes(case['raw']), C.coq_list(cbytes(x) for x in o['disable']), cob(o['host']),
                                                  H.coq_headers(out['second']['headers'])))
        return ts
    if k == 'update':
        gz = out.get('gz', {}).get('out', b'')
        def ok(r):
            a = r['after']
            return '(%s, %s, %s)' % (H.coq_headers(a['headers']), cob(a['body']), cbytes(r['raw']))
        ts = ['BUpdate %s %s %s %s %s %s %s' % (ua, pt(case['ptype']), cbytes(case['raw']), cbytes(gz), cbytes(case['new_body']),
                                                cbytes(case['ctype']), cobs(out, ok))]
        if 'raw' in out:
            ts.append(wf_term(case['ptype'], out['raw']))
        if out.get('first', {}).get('state') == 6:
            # domain of C15_update_body_rebuild_*: the parsed message is re-serialisable
            ts.append('BRebuildDom %s %s' % (pt(case['ptype']), cbytes(case['raw'])))
        return ts
    if k == 'dechunk':
        r = out['ref']
        return 'BDechunk %s %s' % (cbytes(case['raw']), 'None' if r is None else '(Some (%s, %s))' % (cbytes(r[0]), cbytes(r[1])))
    if k == 'tochunks':
        return 'BToChunks %s %d %s' % (cbytes(case['body']), case['k'], cobs(out, lambda r: cbytes(r['raw'])))


# ------------------------------------------------------------------ the property on the implementation
def expected_req_headers(a):
    """independent statement of what build_http_request promises to put on the wire"""
    hs = [list(x) for x in (a['headers'] or [])]
    def put(name, value):
        for kv in hs:
            if kv[0].lower() == name.lower():
                kv[1] = value; return
        hs.append([name, value])
    if a['ctype'] is not None: put(b'Content-Type', a['ctype'])
    te = any(k.lower() == b'transfer-encoding' for k, _ in hs)
    has_ua = any(k.lower() == b'user-agent' for k, _ in hs)
    if a['body'] and not te: put(b'Content-Length', b'%d' % len(a['body']))
    if not has_ua and not a['noua']: hs.append([b'User-Agent', UA()])
    if a['close']: put(b'Connection', b'close')
    return [(k, v) for k, v in hs]

def expected_resp_headers(a):
    hs = [list(x) for x in (a['headers'] or [])]
    def put(name, value):
        for kv in hs:
            if kv[0].lower() == name.lower():
                kv[1] = value; return
        hs.append([name, value])
    te = any(k.lower() == b'transfer-encoding' for k, _ in hs)
    if not te and not a['nocl']: put(b'Content-Length', b'%d' % len(a['body']) if a['body'] else b'0')
    if a['close']: put(b'Connection', b'close')
    return [(k, v) for k, v in hs]

def decoded_body(hs, body):
    if any(k.lower() == b'transfer-encoding' for k, _ in hs):
        r = h11_dechunk(body or b'')
        return None if r is None else r[0]
    return body or b''

def same_fields(p, q, keys):
    return [k for k in keys if p.get(k) != q.get(k)]


def oracle_build_args(case, out):
    """the contract of build(disable_headers, for_proxy, host) stated independently of the model, on a well-formed request"""
    o, meta = case['opts'], case['meta']
    D, fp, host = o['disable'], o['for_proxy'], o['host']
    if 'first' not in out or out['first']['state'] != 6:
        return 'well-formed request does not parse to a complete message'
    p = out['first']
    if fp and not (p['host'] and p['port']):
        # origin-form: `assert self.host and self.port and self._url`
        STATS['buildargs_for_proxy_assert'] += 1
        return None if out.get('err') == C.exn_code(AssertionError()) else 'build(for_proxy=True) without a host did not raise AssertionError'
    if 'err' in out:
        return 'build(%r) raised %s on a well-formed request' % (o, out['exc'])
    q = out['second']
    if p['chunked'] and b'transfer-encoding' in D:
        # te_guard / C15_build_disable_te_refuted: the chunk-encoded bytes are announced by Content-Length.  Recorded defect
        # (known_findings.json C15-disable-te-chunked): reported when the re-parsed body differs, never silently skipped
        STATS['buildargs_disable_te_on_chunked_outside_domain'] += 1
        if 'err' in q or q.get('body') != p.get('body') or q['state'] != 6:
            return TE_FINDING
        return None
    STATS['buildargs_checked'] += 1
    if 'err' in q or q['state'] != 6 or q['buffer']:
        return 'build(%r): the result does not parse to one complete message' % (o,)
    if same_fields(p, q, ['method', 'version', 'chunked', 'tunnel']):
        return 'build(%r): %s changed' % (o, same_fields(p, q, ['method', 'version', 'chunked', 'tunnel']))
    if (p['body'] or b'') != (q['body'] or b'') or (p['body'] or b'') != meta['body']:
        return 'build(%r): body changed: %r -> %r' % (o, (p['body'] or b'')[:40], (q['body'] or b'')[:40])
    # headers: the client's, minus the disabled names, Host value replaced, order and spelling kept;
    # a non-empty un-chunked body is announced (in place if a Content-Length survived, else appended)
    exp = [[n, (host if host is not None and n.lower() == b'host' else v)] for _, n, v in (p['headers'] or []) if n.lower() not in D]
    body = p['body'] or b''
    if body and not p['chunked']:
        for kv in exp:
            if kv[0].lower() == b'content-length':
                kv[1] = b'%d' % len(body); break
        else:
            exp.append([b'Content-Length', b'%d' % len(body)])
    got = [[n, v] for _, n, v in (q['headers'] or [])]
    if got != exp:
        return 'build(%r): headers %r, expected %r' % (o, got, exp)
    # what must not change: every header not named in D, other than Host under host=, keeps name, value, relative order
    keep = [(n, v) for _, n, v in (p['headers'] or []) if n.lower() not in D and n.lower() not in (b'host', b'content-length')]
    if [(n, v) for n, v in got if n.lower() not in (b'host', b'content-length')] != keep:
        return 'build(%r): a header that was not disabled changed' % (o,)
    # the request-target
    line = out['raw'].split(b'\r\n', 1)[0].split(b' ')
    if fp:
        if p['tunnel']:
            want = p['host'] + b':%d' % p['port']
        else:
            want = b'http://' + p['host'] + b':%d' % p['port'] + (p['path'] or b'/')
        if line[1] != want:
            return 'build(for_proxy=True) wrote the target %r, expected %r' % (line[1], want)
        if (q['host'], q['port']) != (p['host'], p['port']) or (not p['tunnel'] and q['path'] != (p['path'] or b'/')):
            return 'request rebuilt for an upstream proxy names %r, the original named %r' % (
                (q['host'], q['port'], q['path']), (p['host'], p['port'], p['path']))
        # an independent reading of the absolute-form target
        if not p['tunnel']:
            from urllib.parse import urlsplit
            u = urlsplit(want.decode('latin-1'))
            uh = u.hostname or ''
            ph = p['host'].decode('latin-1').strip('[]').lower()
            if uh != ph or u.port != p['port']:
                return 'urllib reads %r as (%r, %r), the request named (%r, %r)' % (want, uh, u.port, ph, p['port'])
    else:
        if line[1] != (p['path'] or b'/') or q['path'] != (p['path'] or b'/'):
            return 'build(%r): target %r, path was %r' % (o, line[1], p['path'])
    # the independent parser (it insists on Host for HTTP/1.1, so not when Host itself was disabled)
    if b'host' not in D:
        h = h11_message(1, out['raw'])
        if not h['ok']:
            return 'h11 rejects build(%r): %s' % (o, h.get('why'))
        if h['trailing']:
            return 'h11 sees %d bytes after build(%r)' % (len(h['trailing']), o)
        if h['method'] != p['method'] or h['target'] != line[1]:
            return 'h11 reads another request line from build(%r)' % (o,)
        hh = [(n.lower(), v.lower() if n.lower() == b'transfer-encoding' else v) for n, v in exp]
        if h['headers'] != hh:
            return 'h11 reads other headers from build(%r): %r vs %r' % (o, h['headers'], hh)
        if h['body'] != meta['body']:
            return 'h11 decodes another body from build(%r)' % (o,)
    return None

def oracle(case, out):
    k = case['kind']
    if k in ('req', 'resp'):
        if not case['wf']:
            return None
        a, p = case['args'], out['parsed']
        ptype = 1 if k == 'req' else 2
        exp = expected_req_headers(a) if k == 'req' else expected_resp_headers(a)
        if 'err' in p:
            return 'parsing the built message raised %s' % p['exc']
        if p['state'] != 6:
            return 'built message does not parse to a complete message (state %d)' % p['state']
        if p['buffer']:
            return 'bytes left over after the built message: %r' % p['buffer'][:40]
        if k == 'req':
            if (p['method'], p['version']) != (a['method'], a['version']):
                return 'start line differs: %r' % ((p['method'], p['version']),)
        else:
            if (p['version'], p['code'], p['reason']) != (a['version'], b'%d' % a['status'], a['reason'] or None):
                return 'status line differs: %r' % ((p['version'], p['code'], p['reason']),)
        got = [(n, v) for _, n, v in (p['headers'] or [])]
        if got != exp:
            return 'headers differ: parsed %r, built from %r' % (got, exp)
        want = decoded_body(exp, a['body'])
        if (p['body'] or b'') != want:
            return 'body differs after the round trip (%d vs %d bytes)' % (len(p['body'] or b''), len(want or b''))
        # the independent parser
        h = h11_message(ptype, out['raw'])
        if not h['ok']:
            return 'h11 rejects the built message: %s' % h.get('why')
        if h['trailing']:
            return 'h11 sees %d bytes after the built message' % len(h['trailing'])
        if k == 'req' and (h['method'], h['target']) != (a['method'], a['url']):
            return 'h11 reads another request line: %r' % ((h['method'], h['target']),)
        if k == 'resp' and (h['status'], h['reason']) != (a['status'], a['reason'] or b''):
            return 'h11 reads another status line: %r' % ((h['status'], h['reason']),)
        hh = [(n.lower(), v.lower() if n.lower() == b'transfer-encoding' else v) for n, v in exp]
        if h['headers'] != hh:
            return 'h11 reads other headers: %r vs %r' % (h['headers'], hh)
        bodyless = ptype == 2 and (a['status'] < 200 or a['status'] in (204, 304))
        if not bodyless and h['body'] != want:
            return 'h11 reads another body'
        return None
    if k == 'rebuild' and 'first' in out and out['first'].get('state') == 6 and case.get('wf', True):
        for c_, o2 in out.get('piecewise', []):
            f1 = out['first']
            if 'err' in o2:
                return 'message parses in one piece but raises %s when delivered in two pieces cut at %d' % (o2.get('exc'), c_)
            bad = [x for x in ('state', 'method', 'code', 'headers', 'body', 'chunked', 'buffer') if x in f1 and o2.get(x) != f1.get(x)]
            if bad:
                return ('message parses to another %s when delivered in two pieces cut at %d (%r vs %r in one piece)'
                        % (bad[0], c_, o2.get(bad[0]) if bad[0] != 'body' else (o2.get('body') or b'')[:40],
                           f1.get(bad[0]) if bad[0] != 'body' else (f1.get('body') or b'')[:40]))
    if k == 'rebuild' and case.get('bargs'):
        return oracle_build_args(case, out)
    if k == 'rebuild':
        if case.get('fp') and 'first' in out and out['first']['state'] == 6:
            # build(for_proxy=True): the absolute-form (or authority-form) target must lead back to the same origin
            if 'err' in out:
                return 'build(for_proxy=True) raised %s on a complete request that names its origin' % out['exc']
            p, q = out['first'], out['second']
            if 'err' in q or q['state'] != 6:
                return 'request rebuilt for an upstream proxy does not parse to a complete message'
            if (p['host'], p['port']) != (q['host'], q['port']) or (not p['tunnel'] and (p['path'] or b'/') != (q['path'] or b'/')):
                return 'request rebuilt for an upstream proxy names %r, the original named %r' % (
                    (q['host'], q['port'], q['path']), (p['host'], p['port'], p['path']))
            return None
        if not case['wf'] or 'err' in out:
            if case['wf'] and 'err' in out:
                return 'well-formed message: %s' % out['exc']
            return None
        p, q = out['first'], out['second']
        if p['state'] != 6:
            return 'well-formed message not complete'
        if 'err' in q:
            return 're-parsing the rebuilt message raised %s' % q['exc']
        p, q = dict(p, reason=p['reason'] or None), dict(q, reason=q['reason'] or None)
        diff = same_fields(p, q, ['state', 'method', 'version', 'code', 'reason', 'buffer', 'chunked'])
        if diff:
            return 'rebuilt message parses differently in %s' % diff
        if (p['path'] or b'/') != (q['path'] or b'/'):
            return 'path changes on rebuild: %r -> %r' % (p['path'], q['path'])
        if (p['body'] or b'') != (q['body'] or b''):
            return 'body changes on rebuild: %r -> %r' % ((p['body'] or b'')[:40], (q['body'] or b'')[:40])
        hp, hq = p['headers'] or [], q['headers'] or []
        def canon(h):   # a Content-Length value is a number: `05` may come back as `5`
            return [(a, b, (b'%d' % int(c)) if a == b'content-length' and c.isdigit() else c) for a, b, c in h]
        if canon(hp) != canon(hq):
            return 'headers change on rebuild: %r -> %r' % (hp, hq)
        if (p['body'] or b'') != case['meta']['body']:
            return 'decoded body differs from what was sent'
        h = h11_message(case['ptype'], out['raw'])
        if not h['ok']:
            return 'h11 rejects the rebuilt message: %s' % h.get('why')
        if h['trailing']:
            return 'h11 sees %d bytes after the rebuilt message' % len(h['trailing'])
        bodyless = case['ptype'] == 2 and (h['status'] < 200 or h['status'] in (204, 304))
        if not bodyless and h['body'] != case['meta']['body']:
            return 'h11 decodes another body from the rebuilt message'
        return None
    if k == 'update':
        if 'err' in out:
            return 'update_body/rebuild raised %s' % out['exc']
        p, a, q = out['first'], out['after'], out['second']
        if p['state'] != 6:
            return None
        ce = dict((kk, v) for kk, _, v in (p['headers'] or [])).get(b'content-encoding')
        nb = case['new_body']
        if ce == b'gzip':
            if not out['gz'] or zlib.decompress(out['gz']['out'], 31) != nb:
                return 'gzip-encoded message: stored body does not decompress to the new body'
            want = out['gz']['out']
        else:
            want = nb
            if ce is not None and any(kk == b'content-encoding' for kk, _, _ in a['headers']):
                return 'unsupported content-encoding header survives update_body'
        hd = dict((kk, v) for kk, _, v in a['headers'])
        if p['chunked']:
            if b'content-length' in hd:
                return 'chunked message keeps a content-length after update_body'
        elif hd.get(b'content-length') != b'%d' % len(want):
            return 'content-length %r after update_body, body has %d bytes' % (hd.get(b'content-length'), len(want))
        if hd.get(b'content-type') != case['ctype']:
            return 'content-type not set'
        if 'err' in q or q['state'] != 6:
            return 'message rebuilt after update_body does not parse to a complete message'
        if (q['body'] or b'') != want:
            return 'message rebuilt after update_body carries body %r, expected %r' % ((q['body'] or b'')[:50], want[:50])
        if case['ptype'] == 2 and (p['code'] or b'').isdigit() and (int(p['code']) < 200 or int(p['code']) in (204, 304)):
            return None     # 1xx/204/304 never carry a body for an RFC 7230 recipient: giving them one is outside the property
        h = h11_message(case['ptype'], out['raw'])
        if not h['ok']:
            return 'h11 rejects the message rebuilt after update_body: %s' % h.get('why')
        bodyless = case['ptype'] == 2 and (h['status'] < 200 or h['status'] in (204, 304))
        if not bodyless and (h['body'] != want or h['trailing']):
            return 'h11 decodes another body from the message rebuilt after update_body'
        return None
    if k == 'dechunk':
        ref, h, imp = out['ref'], out['h11'], out['impl']
        raw = case['raw']
        # the two references (strict RFC reading, h11) must agree, up to h11's documented leniency and limits
        if ref != h:
            if re.search(rb'(^|\r\n)[0-9A-Fa-f]{21,}', raw) or FRAMING_TRAILER.search(raw):
                STATS['dechunk_h11_limits'] += 1
            elif ref is None and re.search(rb'(?<!\r)\n', raw):
                STATS['dechunk_h11_lenient_bare_lf'] += 1
            elif ref is None and re.search(rb'\r\n[ \t]', raw):
                STATS['dechunk_h11_lenient_obs_fold'] += 1
            else:
                return 'the reference decoders disagree: strict RFC reading %r, h11 %r' % (ref, h)
        else:
            STATS['dechunk_all_accept' if ref is not None else 'dechunk_all_reject'] += 1
        if case['meta'] is not None:
            if ref is None:
                return 'the reference rejects a stream of the generator grammar'
            if ref != (case['meta']['body'], case['meta']['tail']):
                return 'the reference decodes the generated stream differently'
        if ref is not None:
            if 'err' in imp:
                return 'decoder raised %s on a stream the reference accepts' % imp['exc']
            if imp['state'] != 3 or imp['body'] != ref[0] or imp['remainder'] != ref[1]:
                return 'decoder disagrees with the reference: state %d body %r remainder %r, reference %r' % (
                    imp['state'], imp['body'][:40], imp['remainder'][:40], (ref[0][:40], ref[1][:40]))
            for how in ('impl_cut', 'impl_bytewise'):
                ic = out.get(how)
                if ic is None:
                    continue
                if 'err' in ic:
                    return 'decoder raised %s on a stream the reference accepts when it is delivered in pieces (%s, cuts %r)' % (
                        ic['exc'], how, case.get('cuts'))
                if ic['state'] != 3 or ic['body'] != ref[0] or ic['remainder'] != ref[1]:
                    return ('decoder disagrees with the reference when the stream is delivered in pieces (%s, cuts %r): state %d body %r '
                            'remainder %r, reference %r' % (how, case.get('cuts'), ic['state'], ic['body'][:40], ic['remainder'][:40],
                                                            (ref[0][:40], ref[1][:40])))
        return None
    if k == 'tochunks':
        if case['k'] <= 0:
            return None
        if 'err' in out:
            return 'to_chunks raised %s' % out['exc']
        b = out['back']
        if 'err' in b or b['state'] != 3 or b['body'] != case['body'] or b['remainder'] != b'tail':
            return 'decode(to_chunks(body, %d) + tail) is not (body, tail)' % case['k']
        r = h11_dechunk(out['raw'] + b'tail')
        if r != (case['body'], b'tail'):
            return 'h11 decodes to_chunks(body, %d) differently' % case['k']
        return None


def nontrivial(case, out):
    k = case['kind']
    if 'err' in out:
        return False
    if k in ('req', 'resp'):
        return bool(case['args']['headers'] or case['args']['body'])
    if k == 'rebuild':
        return out['first']['state'] == 6 and bool(out['first']['headers'])
    if k == 'update':
        return out['first']['state'] == 6
    if k == 'dechunk':
        return out['ref'] is not None and bool(out['ref'][0])
    return bool(case['body'])


TE_FINDING = ('build(disable_headers) with transfer-encoding disabled on a chunked request: the rebuilt message announces the '
              'chunk-ENCODED bytes with Content-Length, its body is not the client\'s body')


def classify(case, out, failure):
    if failure == TE_FINDING:
        return 'C15-disable-te-chunked'
    return None


def model_expr(case):
    k = case['kind']
    ua = cbytes(UA())
    if k == 'req':
        return 'build_request %s %s' % (ua, coq_req(case['args']))
    if k == 'resp':
        return 'build_response_of %s' % coq_resp(case['args'])
    if k == 'rebuild':
        o = case['opts']
        return ('match parse (new_parser %s) %s with Ok p => res_obs 1 (rebuild %s p %s %s %s) | Err x => ErrObs 0 (exn_code x) end'
                % (pt(case['ptype']), cbytes(case['raw']), ua, C.coq_list(cbytes(x) for x in o['disable']), C.coq_bool(o['for_proxy']), cob(o['host'])))
    if k == 'dechunk':
        return 'ref_dechunk_bytes %s' % cbytes(case['raw'])
    if k == 'tochunks':
        return 'to_chunks %s %d' % (cbytes(case['body']), case['k'])
    return 'tt'


def shrink(case, fails):
    cur = dict(case)
    if case['kind'] in ('req', 'resp'):
        a = dict(cur['args'])
        hs = list(a['headers'] or [])
        i = 0
        while i < len(hs):
            t = dict(cur, args=dict(a, headers=hs[:i] + hs[i + 1:]))
            if fails(t):
                hs = hs[:i] + hs[i + 1:]; a = t['args']; cur = t
            else:
                i += 1
        for key, val in (('ctype', None), ('close', False), ('body', b'x' if a['body'] else a['body'])):
            t = dict(cur, args=dict(cur['args'], **{key: val}))
            if fails(t):
                cur = t
    return cur


# ------------------------------------------------------------------ extra exploration on the implementation
def extra_checks(rng, tier):
    from proxy.http.parser.chunk import ChunkParser
    failures, notes = [], []
    nmax = 24 if tier != 'thorough' else 64
    count = 0
    for k in range(1, nmax + 1):
        for n in range(0, nmax + 1):
            body = H.rbody(rng, n) if n else b''
            case = dict(kind='tochunks', body=body, k=k)
            out = run_impl(case)
            f = oracle(case, out)
            count += 1
            if f:
                failures.append(dict(case=case, out=out, what=f))
    notes.append('to_chunks/decoder/h11 round trip checked exhaustively for chunk sizes 1..%d x body lengths 0..%d (%d pairs)' % (nmax, nmax, count))
    notes.append('wf_message (Coq) vs h11 and ref_dechunk_bytes (Coq) vs strict reading vs h11: see reference_cross_validation')
    return dict(failures=failures[:3], notes=notes, exhaustive_chunk_pairs=count, reference_cross_validation=dict(STATS))


def debug_mismatches(seed=0, tier='quick', limit=8, kinds=None):
    import random
    rng = random.Random(seed * 1000003 + sum(map(ord, ID)))
    cases = generate(rng, tier)
    if kinds:
        cases = [c for c in cases if c['kind'] in kinds]
    outs = [run_impl(c) for c in cases]
    terms, idx = [], []
    for i, (c, o) in enumerate(zip(cases, outs)):
        t = coq_term(c, o)
        for t1 in (t if isinstance(t, list) else [t]):
            if t1 is not None:
                terms.append(t1); idx.append(i)
    mism, errs = C.run_coq_cases(ID, IMPORTS, CASE_TYPE, CHECK_FN, terms, shard=SHARD)
    print('terms', len(terms), 'mismatches', len(mism), errs[:2])
    import collections
    print(collections.Counter(terms[j].split()[0] for j in mism))
    for j in mism[:limit]:
        c, o = cases[idx[j]], outs[idx[j]]
        print('---', terms[j][:300], '...', terms[j][-30:])
        print({k: v for k, v in c.items() if k != 'meta'})
    fails = [(c, oracle(c, o)) for c, o in zip(cases, outs)]
    fails = [(c, f) for c, f in fails if f]
    print('oracle failures', len(fails))
    for c, f in fails[:limit]:
        print('***', f, {k: v for k, v in c.items() if k != 'meta'})
    return cases, outs, terms, mism
