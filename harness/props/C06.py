"""C06 — any input yields service, a well-formed error response, or a clean close.

Correspondence of Net/FirstRequest.v (first-request path of HttpProtocolHandler) and Net/Responses.v
(build_http_response / build_http_pkt / canned packets / okResponse / redirects / exception
responses) with /repo, driven through the REAL HttpProtocolHandler via harness/sim.py, and the
property's own statement on the implementation judged by h11 (independent of the Coq model)."""
import copy, gzip, ssl, socket, errno, random
import common as C
from props import http_common as H

ID = 'C06'
COQ_TARGETS = ['theories/Props/C06.vo', 'theories/Net/FirstRequestCases.vo']
IMPORTS = ('From PM Require Import Lib.Bytes Lib.PyStr Http.Url Http.Chunk Http.Parser Net.Responses '
           'Net.FirstRequest Net.FirstRequestCases.\nFrom Coq Require Import ZArith.')
CASE_TYPE = 'case'
CHECK_FN = 'check_case'
SHARD = 200
ANCHOR_FILES = ['proxy/http/handler.py', 'proxy/core/base/tcp_server.py', 'proxy/http/responses.py',
                'proxy/common/utils.py', 'proxy/http/exception/base.py', 'proxy/http/exception/http_request_rejected.py',
                'proxy/http/exception/proxy_auth_failed.py', 'proxy/http/exception/proxy_conn_failed.py',
                'proxy/http/parser/parser.py', 'proxy/http/url.py', 'proxy/core/connection/connection.py']
RULE = ('handler cases = (plugin set-up, event list): byte strings (30 % well-formed requests from http_common.gen_message, 70 % '
        'malformed: truncations, mutations, concatenations, oversized / non-numeric / negative / underscored lengths, unknown '
        'schemes and methods, non-UTF-8 bytes, lone CR / LF, random bytes) x segmentations (whole, 2-cut, n-cut, cuts around '
        'CR/LF, one byte per piece), interleaved with client-writable events with short writes, EOF and recv errors; set-ups: '
        'default flags (HttpProxyPlugin), enable_web_server, proxy with basic auth, refused upstream connect, no matching plugin, '
        'plugin key absent, scripted plugin whose on_request_complete / on_client_data return or raise every kind of outcome '
        '(bool, non-bool, each HttpProtocolException subclass with and without response, OSError, SSLWantReadError, other). '
        'builder cases = argument tuples of build_http_response / okResponse (+-gzip, min_compression_length) / redirects / '
        'HttpRequestRejected / canned packets, well-formed and not, plus mutated packets for the recogniser-vs-h11 cross-validation. '
        'non-trivial = handler case that left the waiting state (served, rejected or closed) or builder case whose arguments are '
        'in the domain wf_args; distinct = distinct inputs')
TRUSTED = ['RFC 7230 sections 3.1.2, 3.2, 3.3.3 as transcribed in Net/Responses.v (recognise / framing_ok), cross-validated on every run against h11 0.16 '
           '(documented divergences: h11 also accepts control characters in field values / reason, bare LF line ends, obs-fold, comma lists in '
           'Content-Length, chunked bodies; the recogniser additionally requires a close-delimited response to announce Connection: close)',
           'the Http/{Parser,Url,Chunk}.v models of the request parser (shared, checked by C03)',
           'FakeSock / Sim.step as stand-ins for the kernel socket and the executor (threadless semantics: a raising handle_events is torn down)']
ASSUMPTIONS = ['--enable-proxy-protocol off, no TLS to the client (defaults)',
               'send() on the client socket does not raise while flushing (short writes are covered; errors belong to C07)',
               'plugin constructors and klass.protocols() do not raise',
               'gzip.compress is an arbitrary function bytes -> bytes in the builder theorems']


# ====================================================================== Coq emission
cb = H.cb
cob = H.cob

def cN(n):
    return str(n)

def cZ(n):
    return '(%d)%%Z' % n

def coq_hdrs(h):
    if h is None:
        return 'None'
    return '(Some %s)' % C.coq_list('(%s, %s)' % (cb(k), cb(v)) for k, v in h)

def coq_bargs(a):
    return ('{| a_status := %s; a_version := %s; a_reason := %s; a_headers := %s; a_body := %s; '
            'a_conn_close := %s; a_no_cl := %s |}') % (
        cZ(a['status']), cb(a['version']), cob(a['reason']), coq_hdrs(a['headers']), cob(a['body']),
        C.coq_bool(a['conn_close']), C.coq_bool(a['no_cl']))

def coq_proto_exn(x):
    k = x[0]
    if k == 'plain': return '(PlainProtocol 0)'
    if k == 'rejected':
        _, status, reason, headers, body = x
        return '(RequestRejected %s %s %s %s)' % ('None' if status is None else '(Some %s)' % cZ(status), cob(reason), coq_hdrs(headers), cob(body))
    if k == 'auth': return 'AuthFailed'
    if k == 'conn': return 'ConnFailed'
    if k == 'custom': return '(CustomProtocol %s)' % cob(x[1])
    raise ValueError(x)

OTHER_EXN = {'ValueError': 'ValueError', 'KeyError': 'KeyError', 'TypeError': 'TypeError', 'AssertionError': 'AssertionError',
             'IndexError': 'IndexError', 'UnicodeDecodeError': 'UnicodeDecodeError', 'RuntimeError': 'StructError'}

def coq_hexn(x):
    k = x[0]
    if k == 'other': return '(Other %s)' % OTHER_EXN.get(x[1], 'TypeError')
    if k == 'oserror': return '(Other (OSError %d))' % (2 if x[1] == 'sslwantread' else 1)
    return '(Proto %s)' % coq_proto_exn(x)

def coq_orc(o):
    end = o['end']
    if end[0] == 'ret': e = '(RetBool %s)' % C.coq_bool(end[1])
    elif end[0] == 'retsock': e = 'RetSocket'
    elif end[0] == 'retother': e = 'RetOther'
    else: e = '(OrcRaise %s)' % coq_hexn(end[1])
    return '(%s, %s)' % (C.coq_list(cb(q) for q in o['queue']), e)

def coq_ocd(o):
    end = o['end']
    e = 'OcdReturn' if end[0] == 'ret' else '(OcdRaise %s)' % coq_hexn(end[1])
    return '(%s, %s)' % (C.coq_list(cb(q) for q in o['queue']), e)

PROTO_NAME = {1: 'UNKNOWN_PROTO', 2: 'WEB_SERVER', 3: 'HTTP_PROXY'}

def coq_event(ev):
    w = 'None' if ev.get('w') is None else '(Some %d)' % ev['w']
    r = ev.get('r')
    if r is None: rr = 'None'
    elif r == 'eof': rr = '(Some Eof)'
    elif isinstance(r, str): rr = '(Some RecvErr)'
    else: rr = '(Some (Data %s))' % cb(r)
    return '{| ev_w := %s; ev_r := %s |}' % (w, rr)

def coq_obs(o):
    rb = o.get('rbuf', 'skip')
    rbuf = 'None' if rb == 'skip' else '(Some %s)' % cob(rb)
    return '(mk_obs %s %s %s %s %s %s %s %s %d %s %d %s %s)' % (
        C.coq_list(cb(x) for x in o['buffer']), C.coq_bool(o['must_flush']), C.coq_bool(o['reads_teared']),
        C.coq_bool(o['torn']), 'None' if o['plugin'] is None else '(Some %d)' % o['plugin'],
        'None' if o['state'] is None else '(Some %d)' % o['state'], cb(o['sent']),
        C.coq_list(cb(x) for x in o['hq']), o['orc'], C.coq_list(cb(x) for x in o['ocd']), o['parse'],
        C.coq_bool(o['raised']), rbuf)


# ====================================================================== h11 as the independent judge
def h11_parse(raw, connect=False):
    """client-side h11 reading of the server bytes `raw` followed by EOF: exactly one complete response?"""
    import h11
    c = h11.Connection(h11.CLIENT)
    if connect:
        c.send(h11.Request(method='CONNECT', target='a:443', headers=[('Host', 'a:443')]))
    else:
        c.send(h11.Request(method='GET', target='/', headers=[('Host', 'a')]))
    c.send(h11.EndOfMessage())
    resp, body, done, fed_eof = None, b'', False, False
    try:
        c.receive_data(raw)
        for _ in range(100000):
            ev = c.next_event()
            if ev is h11.NEED_DATA:
                if fed_eof:
                    return dict(ok=False, why='needs data after EOF')
                c.receive_data(b''); fed_eof = True
                continue
            if ev is h11.PAUSED:
                if resp is not None and c.states[h11.SERVER] is h11.SWITCHED_PROTOCOL:
                    done = True
                break
            if isinstance(ev, h11.InformationalResponse):
                return dict(ok=False, why='informational response')
            if isinstance(ev, h11.Response):
                if resp is not None:
                    return dict(ok=False, why='two responses')
                resp = ev
            elif isinstance(ev, h11.Data):
                body += bytes(ev.data)
            elif isinstance(ev, h11.EndOfMessage):
                done = True
                break
            elif isinstance(ev, h11.ConnectionClosed):
                break
    except h11.RemoteProtocolError as e:
        return dict(ok=False, why='h11: %s' % e)
    if resp is None or not done:
        return dict(ok=False, why='incomplete response')
    if c.trailing_data[0]:
        return dict(ok=False, why='%d bytes after the end of the response' % len(c.trailing_data[0]))
    return dict(ok=True, status=resp.status_code, headers=[(bytes(k), bytes(v)) for k, v in resp.headers],
                body=body, reason=bytes(resp.reason))


def h11_lenient_trigger(raw):
    """True when the head contains something h11 knowingly accepts although RFC 7230 (and the
    Coq recogniser) does not, or that lies outside the recogniser's domain"""
    head = raw.split(b'\r\n\r\n', 1)[0]
    if any((c < 32 and c not in (9, 13, 10)) or c == 127 for c in head):
        return True                                  # control characters in values / reason
    lines = head.split(b'\r\n')
    if any(b'\n' in ln or b'\r' in ln for ln in lines):
        return True                                  # bare LF / CR inside a line
    if b'\n\n' in raw.split(b'\r\n\r\n', 1)[0] or (b'\r\n\r\n' not in raw and b'\n' in raw):
        return True
    for ln in lines[1:]:
        if ln[:1] in (b' ', b'\t'):
            return True                              # obs-fold
        name, _, val = ln.partition(b':')
        if name.lower() == b'transfer-encoding':
            return True                              # chunked bodies: outside the recogniser's domain
        if name.lower() == b'content-length' and b',' in val:
            return True
    return False


# ====================================================================== driving the real handler
def exc_spec_of(e, request):
    from proxy.http.exception import HttpProtocolException, HttpRequestRejected, ProxyAuthenticationFailed, ProxyConnectionFailed
    if isinstance(e, HttpProtocolException):
        if type(e) is HttpProtocolException: return ('plain',)
        if type(e) is HttpRequestRejected:
            return ('rejected', e.status_code, e.reason, None if e.headers is None else list(e.headers.items()), e.body)
        if type(e) is ProxyAuthenticationFailed: return ('auth',)
        if type(e) is ProxyConnectionFailed: return ('conn',)
        r = e.response(request)
        return ('custom', None if r is None else bytes(r))
    if isinstance(e, ssl.SSLWantReadError): return ('oserror', 'sslwantread')
    if isinstance(e, OSError): return ('oserror', 'generic')
    return ('other', type(e).__name__)


def make_exc(spec):
    from proxy.http.exception import HttpProtocolException, HttpRequestRejected, ProxyAuthenticationFailed, ProxyConnectionFailed
    k = spec[0]
    if k == 'plain': return HttpProtocolException('scripted')
    if k == 'rejected':
        _, status, reason, headers, body = spec
        return HttpRequestRejected(status_code=status, reason=reason, headers=None if headers is None else dict(headers), body=body)
    if k == 'auth': return ProxyAuthenticationFailed()
    if k == 'conn': return ProxyConnectionFailed('h', 80, 'scripted')
    if k == 'custom':
        resp = spec[1]
        class Custom(HttpProtocolException):
            def response(self, _request):
                return None if resp is None else memoryview(resp)
        return Custom('custom')
    if k == 'oserror':
        if spec[1] == 'sslwantread': return ssl.SSLWantReadError()
        if spec[1] == 'refused': return ConnectionRefusedError(errno.ECONNREFUSED, 'refused')
        return OSError(errno.EIO, 'I/O error')
    if k == 'other':
        if spec[1] == 'UnicodeDecodeError': return UnicodeDecodeError('utf-8', b'\xff', 0, 1, 'scripted')
        return {'ValueError': ValueError, 'KeyError': KeyError, 'TypeError': TypeError, 'AssertionError': AssertionError,
                'IndexError': IndexError, 'RuntimeError': RuntimeError}[spec[1]]('scripted')
    raise ValueError(spec)


_FLAGS = {}

def base_flags(**opts):
    import sim
    key = tuple(sorted(opts.items()))
    if key not in _FLAGS:
        _FLAGS[key] = sim.make_flags(**opts)
    return _FLAGS[key]


def scripted_klass(script, protos):
    from proxy.http.plugin import HttpProtocolHandlerPlugin

    class Scripted(HttpProtocolHandlerPlugin):
        @staticmethod
        def protocols():
            return list(protos)

        async def get_descriptors(self):
            return [], []

        async def write_to_descriptors(self, w):
            return False

        async def read_from_descriptors(self, r):
            return False

        def on_client_data(self, raw):
            i = getattr(self, '_n', 0)
            self._n = i + 1
            s = script['ocd'][i] if i < len(script['ocd']) else dict(queue=[], end=('ret',))
            for q in s['queue']:
                self.client.queue(memoryview(q))
            if s['end'][0] == 'raise':
                raise make_exc(s['end'][1])
            return None

        def on_request_complete(self):
            s = script['orc']
            for q in s['queue']:
                self.client.queue(memoryview(q))
            end = s['end']
            if end[0] == 'ret':
                return end[1]
            if end[0] == 'retother':
                return None
            raise make_exc(end[1])

        def on_response_chunk(self, chunk):
            return chunk

        def on_client_connection_close(self):
            pass
    return Scripted


def scripted_klasses(script):
    """plugin classes (one per protocols list) that behave as the script says"""
    return [scripted_klass(script, protos) for protos in script['protocols']]


def setup_flags(case):
    """returns (flags, connect_script)"""
    import sim
    su = case['setup']
    if su == 'proxy': return base_flags(), []
    if su == 'web': return base_flags(enable_web_server=True), []
    if su == 'auth': return base_flags(basic_auth='user:pass'), []
    if su == 'refused': return base_flags(), [sim.io_error('refused')] * 4
    f = copy.copy(base_flags())
    f.plugins = dict(f.plugins)
    if su == 'noplugin': f.plugins[b'HttpProtocolHandlerPlugin'] = []
    elif su == 'nokey': del f.plugins[b'HttpProtocolHandlerPlugin']
    elif su == 'scripted': f.plugins[b'HttpProtocolHandlerPlugin'] = scripted_klasses(case['script'])
    else: raise ValueError(su)
    return f, []


def run_handler(case, drain=True):
    import sim, logging
    from proxy.http.handler import HttpProtocolHandler
    logging.disable(logging.CRITICAL)
    flags, connect_script = setup_flags(case)
    rec = dict(qlog=[], in_plugin=False, orc_calls=0, orc=None, ocd=[], ocd_data=[], parse=0)

    class RecHandler(HttpProtocolHandler):
        def _initialize_plugin(self, klass):
            p = super()._initialize_plugin(klass)
            o_orc, o_ocd = p.on_request_complete, p.on_client_data
            handler = self
            def orc():
                rec['orc_calls'] += 1
                rec['in_plugin'] = True; start = len(rec['qlog'])
                try:
                    out = o_orc()
                    end = ('ret', out) if isinstance(out, bool) else (('retsock',) if isinstance(out, ssl.SSLSocket) else ('retother',))
                    rec['orc'] = dict(queue=[b for _, b in rec['qlog'][start:]], end=end)
                    return out
                except Exception as e:
                    rec['orc'] = dict(queue=[b for _, b in rec['qlog'][start:]], end=('raise', exc_spec_of(e, handler.request)))
                    raise
                finally:
                    rec['in_plugin'] = False
            def ocd(raw):
                rec['ocd_data'].append(bytes(raw))
                rec['in_plugin'] = True; start = len(rec['qlog'])
                try:
                    out = o_ocd(raw)
                    rec['ocd'].append(dict(queue=[b for _, b in rec['qlog'][start:]], end=('ret',)))
                    return out
                except Exception as e:
                    rec['ocd'].append(dict(queue=[b for _, b in rec['qlog'][start:]], end=('raise', exc_spec_of(e, handler.request))))
                    raise
                finally:
                    rec['in_plugin'] = False
            p.on_request_complete, p.on_client_data = orc, ocd
            return p

    klasses = flags.plugins.get(b'HttpProtocolHandlerPlugin')
    steps = []
    with sim.Sim(flags=flags, connect_script=connect_script, handler_klass=RecHandler) as s:
        work = s.h.work
        o_queue = work.queue
        def queue(mv):
            rec['qlog'].append((rec['in_plugin'], bytes(mv)))
            return o_queue(mv)
        work.queue = queue
        o_parse = s.h.request.parse
        def parse(*a, **k):
            rec['parse'] += 1
            return o_parse(*a, **k)
        s.h.request.parse = parse
        for ev in case['events']:
            names, _ = s.interest() if not s.torn else ({}, None)
            want = names.get('client', '')
            r, w = [], []
            if ev.get('w') is not None and 'w' in want:
                s.client.script_send(ev['w']); w = ['client']
            x = ev.get('r')
            if x is not None and 'r' in want:
                if x == 'eof': s.client.feed(sim.EOF)
                elif isinstance(x, str): s.client.feed(sim.io_error(x))
                else: s.client.feed(x)
                r = ['client']
            s.step(r=r, w=w)
            s.client.inq.clear(); s.client.send_script.clear()
            hq = [b for inp, b in rec['qlog'] if not inp]
            steps.append(dict(
                buffer=[bytes(b) for b in s.h.work.buffer], must_flush=bool(s.h.must_flush_before_shutdown),
                reads_teared=bool(s.h.reads_teared), torn=bool(s.torn),
                plugin=None if s.h.plugin is None else klasses.index(type(s.h.plugin)),
                state=None if hq else s.h.request.state, sent=bytes(s.client.out), hq=hq, orc=rec['orc_calls'],
                ocd=list(rec['ocd_data']), parse=rec['parse'], raised=any(t[0] == 'raised' for t in s.trace),
                complete=bool(s.h.request.is_complete),
                rbuf='skip' if hq else (None if s.h.request.buffer is None else bytes(s.h.request.buffer))))
        final = None
        if drain:
            # let everything queued drain: the client accepts all, sends nothing more
            res = s.run(n=500)
            hq = [b for inp, b in rec['qlog'] if not inp]
            final = dict(res=res if isinstance(res, str) else 'raised', out=bytes(s.client.out), closed=bool(s.client.closed),
                         torn=bool(s.torn), plugin=s.h.plugin is not None, complete=bool(s.h.request.is_complete),
                         hq=hq, pq=[b for inp, b in rec['qlog'] if inp], parse=rec['parse'], orc=rec['orc_calls'],
                         buffer_left=sum(len(b) for b in s.h.work.buffer), close_count=s.client.close_count,
                         method=None if s.h.request.method is None else bytes(s.h.request.method))
    from proxy.common.constants import PROXY_AGENT_HEADER_VALUE
    return dict(steps=steps, final=final, agent=bytes(PROXY_AGENT_HEADER_VALUE),
                klasses=None if klasses is None else [list(k.protocols()) for k in klasses],
                max_send=flags.max_sendbuf_size, orc=rec['orc'], ocd=rec['ocd'])


def term_handler(case, out):
    """CHandler term; byte strings that occur more than once (the queued response shows up in the buffer,
    hq and sent columns of every later observation) are bound once with a Coq let"""
    import collections
    count = collections.Counter()
    def visit(x):
        if isinstance(x, (bytes, bytearray)) and len(x) >= 12:
            count[bytes(x)] += 1
    orc = out['orc'] or dict(queue=[], end=('ret', False))
    for q in orc['queue']: visit(q)
    for o in out['ocd']:
        for q in o['queue']: visit(q)
    for e in case['events']:
        visit(e.get('r'))
    for o in out['steps']:
        for x in o['buffer'] + o['hq'] + o['ocd'] + [o['sent']]: visit(x)
    names = {b: 'p%d' % i for i, (b, n) in enumerate(count.items()) if n > 1}
    global cb
    plain_cb = cb
    def shared_cb(x):
        x = bytes(x)
        return names[x] if x in names else plain_cb(x)
    kl = out['klasses']
    cfg = '{| agent := %s; plugin_klasses := %s; max_send := %d |}' % (
        plain_cb(out['agent']),
        'None' if kl is None else '(Some %s)' % C.coq_list(C.coq_list(PROTO_NAME[p] for p in ps if p in PROTO_NAME) for ps in kl),
        out['max_send'])
    cb = shared_cb
    try:
        body = 'CHandler %s %s %s %s %s' % (cfg, coq_orc(orc), C.coq_list(coq_ocd(o) for o in out['ocd']),
                                            C.coq_list(coq_event(e) for e in case['events']),
                                            C.coq_list(coq_obs(o) for o in out['steps']))
    finally:
        cb = plain_cb
    lets = ''.join('let %s := %s in ' % (n, plain_cb(b)) for b, n in names.items())
    return '(%s%s)' % (lets, body) if lets else body


# ====================================================================== builders on the implementation
def call_build(a):
    from proxy.common.utils import build_http_response
    return build_http_response(a['status'], protocol_version=a['version'], reason=a['reason'],
                               headers=None if a['headers'] is None else dict(a['headers']), body=a['body'],
                               conn_close=a['conn_close'], no_cl=a['no_cl'])


TCHAR = set(b"!#$%&'*+-.^_`|~0123456789abcdefghijklmnopqrstuvwxyzABCDEFGHIJKLMNOPQRSTUVWXYZ")

def field_ok(v):
    return all(c in (9, 32) or 33 <= c <= 126 or 128 <= c <= 255 for c in v)

def wf_args_py(a, connect):
    """the builders' domain, written independently of the Coq definition (same English)"""
    v = a['version']
    if not (len(v) == 8 and v[:5] == b'HTTP/' and chr(v[5]).isdigit() and v[6:7] == b'.' and chr(v[7]).isdigit()): return False
    if not 200 <= a['status'] <= 999: return False
    if a['reason'] is not None and not field_ok(a['reason']): return False
    hs = a['headers'] or []
    if len(set(k for k, _ in hs)) != len(hs): return False
    if sum(1 for k, _ in hs if k.lower() == b'content-length') > (0 if a['no_cl'] else 1): return False
    for k, val in hs:
        if not k or any(c not in TCHAR for c in k) or not field_ok(val): return False
        if k.lower() == b'transfer-encoding': return False
    nobody = a['status'] in (204, 304) or (connect and a['status'] < 300)
    if nobody and a['body']: return False
    if a['no_cl'] and not nobody and not a['conn_close']: return False
    return True


def run_impl(case):
    k = case['kind']
    if k == 'handler':
        return run_handler(case)
    if k == 'build':
        raw = call_build(case['args'])
        return dict(raw=raw, h11=h11_parse(raw, case.get('connect', False)))
    if k == 'ok':
        from proxy.http import responses as R
        from unittest import mock
        with mock.patch('gzip.compress', lambda content: case['gz_out']):
            raw = bytes(R.okResponse(content=case['content'], headers=None if case['headers'] is None else dict(case['headers']),
                                     compress=case['compress'], min_compression_length=case['min_len'],
                                     conn_close=case['conn_close'], no_cl=case['no_cl']))
        real = bytes(R.okResponse(content=case['content'], headers=None if case['headers'] is None else dict(case['headers']),
                                  compress=case['compress'], min_compression_length=case['min_len'],
                                  conn_close=case['conn_close'], no_cl=case['no_cl']))
        return dict(raw=raw, real=real, h11=h11_parse(real, False))
    if k == 'canned':
        from proxy.http import responses as R
        from proxy.common.constants import PROXY_AGENT_HEADER_VALUE
        name = CANNED[case['which']]
        raw = bytes(getattr(R, name))
        return dict(raw=raw, agent=bytes(PROXY_AGENT_HEADER_VALUE), h11=h11_parse(raw, case['which'] == 0))
    if k == 'redirect':
        from proxy.http import responses as R
        raw = bytes((R.permanentRedirectResponse if case['permanent'] else R.seeOthersResponse)(case['location']))
        return dict(raw=raw, h11=h11_parse(raw, False))
    if k == 'exn':
        from proxy.common.constants import PROXY_AGENT_HEADER_VALUE
        from proxy.http.parser import HttpParser
        e = make_exc(case['exc'])
        r = e.response(HttpParser(1))
        raw = None if r is None else bytes(r)
        return dict(raw=raw, agent=bytes(PROXY_AGENT_HEADER_VALUE), h11=None if raw is None else h11_parse(raw, False))
    if k == 'recognise':
        return dict(h11=h11_parse(case['raw'], case['connect']), lenient=h11_lenient_trigger(case['raw']))
    raise ValueError(k)


CANNED = ['PROXY_TUNNEL_ESTABLISHED_RESPONSE_PKT', 'PROXY_TUNNEL_UNSUPPORTED_SCHEME', 'PROXY_AUTH_FAILED_RESPONSE_PKT',
          'BAD_REQUEST_RESPONSE_PKT', 'NOT_FOUND_RESPONSE_PKT', 'NOT_IMPLEMENTED_RESPONSE_PKT', 'BAD_GATEWAY_RESPONSE_PKT']


def recog_args(raw, h, lenient):
    """h11's verdict as Coq arguments: code status nheaders blen body"""
    if not h['ok']:
        return '0 0 0 0 None'
    # h11 folds repeated identical Content-Length lines into one header; count the lines as sent
    ncl = sum(1 for ln in raw.split(b'\r\n\r\n', 1)[0].split(b'\r\n')[1:] if ln.split(b':', 1)[0].lower() == b'content-length')
    nh = len(h['headers']) + max(0, ncl - 1)
    body = h['body']
    is_suffix = raw.endswith(body) if body else True
    return '%d %d %d %d %s' % (2 if lenient else 1, h['status'], nh, len(body), 'None' if is_suffix else '(Some %s)' % cb(body))


def term_recognise(raw, connect, h, lenient):
    return 'CRecognise %s %s %s' % (C.coq_bool(connect), cb(raw), recog_args(raw, h, lenient))


def coq_term(case, out):
    k = case['kind']
    if k == 'handler':
        return term_handler(case, out)
    if k == 'build':
        connect = case.get('connect', False)
        return 'CBuild %s %s %s %s' % (C.coq_bool(connect), coq_bargs(case['args']), cb(out['raw']),
                                       recog_args(out['raw'], out['h11'], h11_lenient_trigger(out['raw'])))
    if k == 'ok':
        return 'COk %s %s %s %s %s %s %s %s' % (cb(case['gz_out']), cob(case['content']), coq_hdrs(case['headers']),
                                                C.coq_bool(case['compress']), cZ(case['min_len']), C.coq_bool(case['conn_close']),
                                                C.coq_bool(case['no_cl']), cb(out['raw']))
    if k == 'canned':
        return 'CCanned %s %d %s' % (cb(out['agent']), case['which'], cb(out['raw']))
    if k == 'redirect':
        return 'CRedirect %s %s %s' % (C.coq_bool(case['permanent']), cb(case['location']), cb(out['raw']))
    if k == 'exn':
        return 'CExnResponse %s %s %s' % (cb(out['agent']), coq_proto_exn(case['exc']), cob(out['raw']))
    if k == 'recognise':
        return term_recognise(case['raw'], case['connect'], out['h11'], out['lenient'])


# ====================================================================== the property on the implementation
def oracle(case, out):
    k = case['kind']
    if k == 'handler':
        return oracle_handler(case, out)
    if k == 'build':
        if wf_args_py(case['args'], case.get('connect', False)):
            return check_h11(out['h11'], case['args']['status'], case['args']['body'] or b'', 'build_http_response')
        return None
    if k == 'ok':
        a = dict(status=200, version=b'HTTP/1.1', reason=b'OK', headers=case['headers'], body=b'x', conn_close=case['conn_close'], no_cl=case['no_cl'])
        if not wf_args_py(a, False):
            return None
        content = case['content'] or b''
        compressed = case['compress'] and bool(content) and len(content) > case['min_len']
        f = check_h11(out['h11'], 200, None, 'okResponse')
        if f: return f
        body = out['h11']['body']
        hd = dict(out['h11']['headers'])
        if compressed:
            if hd.get(b'content-encoding') != b'gzip': return 'okResponse compressed without Content-Encoding: gzip'
            if gzip.decompress(body) != content: return 'okResponse: gunzip(body) differs from the content'
        elif body != content:
            return 'okResponse: body differs from the content'
        return None
    if k == 'canned':
        return check_h11(out['h11'], None, None, CANNED[case['which']])
    if k == 'redirect':
        a = dict(status=308, version=b'HTTP/1.1', reason=b'x', headers=[(b'Location', case['location'])], body=None, conn_close=True, no_cl=False)
        if not wf_args_py(a, False):
            return None
        f = check_h11(out['h11'], 308 if case['permanent'] else 303, b'', 'redirect response')
        if f: return f
        if dict(out['h11']['headers']).get(b'location') != case['location'].strip(b' \t'):
            return 'redirect response lost its Location'
        return None
    if k == 'exn':
        x = case['exc']
        if out['raw'] is None:
            return None
        if x[0] == 'rejected':
            a = dict(status=x[1], version=b'HTTP/1.1', reason=x[2], headers=x[3], body=x[4], conn_close=True, no_cl=False)
            if not wf_args_py(a, False):
                return None
            return check_h11(out['h11'], x[1], x[4] or b'', 'HttpRequestRejected.response')
        if x[0] in ('auth', 'conn'):
            return check_h11(out['h11'], None, None, 'exception response')
        return None
    return None


def check_h11(h, status, body, what):
    if not h['ok']:
        return '%s is not accepted by h11 as exactly one complete response: %s' % (what, h['why'])
    if status is not None and h['status'] != status:
        return '%s: h11 sees status %d, expected %d' % (what, h['status'], status)
    if body is not None and h['body'] != body:
        return '%s: h11 sees a body of %d bytes, expected %d' % (what, len(h['body']), len(body))
    return None


def oracle_handler(case, out):
    """the property itself, from what the client socket saw; independent of the Coq model"""
    fin = out['final']
    steps = out['steps']
    scripted = case['setup'] == 'scripted'
    # never more than one response of the handler's own making; once it has rejected, nothing more is parsed or handed to a plugin
    rejected_at = None
    for i, s in enumerate(steps):
        if len(s['hq']) > 1:
            return 'the handler queued %d responses of its own (%r ...)' % (len(s['hq']), [x[:24] for x in s['hq']])
        if s['hq'] and rejected_at is None:
            rejected_at = i
            if not (s['must_flush'] or s['torn']):
                return 'a response was queued at event %d but no teardown was requested (connection kept open after rejecting)' % i
        elif rejected_at is not None:
            p = steps[rejected_at]
            if (s['parse'], s['orc'], s['ocd']) != (p['parse'], p['orc'], p['ocd']):
                return 'input was parsed / handed to a plugin after the rejection at event %d' % rejected_at
    if fin is None:
        return None
    gone = any(isinstance(e.get('r'), str) for e in case['events'])
    if fin['hq']:
        # rejected: exactly that response, whole, then EOF
        if not fin['closed']:
            return 'rejected (%r...) but the connection is still open after draining' % fin['hq'][0][:24]
        expect = b''.join(fin['pq']) + fin['hq'][0]
        if fin['out'] != expect and not gone:
            return 'client received %d bytes, the queued response has %d (partial / extra output)' % (len(fin['out']), len(expect))
        if scripted and (fin['pq'] or case['script'].get('junk')):
            return None                      # the scripted plugin's own output is not the handler's
        if gone:
            return None
        connect = fin['method'] == b'CONNECT'
        if scripted:
            # a scripted HttpRequestRejected whose arguments lie outside the builders' domain for this
            # request (e.g. a 2xx status with a body in reply to CONNECT) is the plugin's own doing
            specs = [out['orc']['end']] if out.get('orc') else []
            specs += [o['end'] for o in out.get('ocd', [])]
            for sp in specs:
                if sp[0] == 'raise' and sp[1][0] == 'rejected' and sp[1][1]:
                    x = sp[1]
                    a = dict(status=x[1], version=b'HTTP/1.1', reason=x[2], headers=x[3], body=x[4], conn_close=True, no_cl=False)
                    if call_build(a) == fin['hq'][0] and not wf_args_py(a, connect):
                        return None
        h = h11_parse(fin['out'], connect)
        if not h['ok']:
            return 'what the client received is not exactly one well-formed response followed by EOF: %s (%r...)' % (h['why'], fin['out'][:60])
        return None
    if fin['out'] and not fin['plugin']:
        return 'bytes were sent although the handler queued nothing and no plugin exists'
    if not fin['out'] and not fin['closed']:
        # still open: either waiting for the rest of the request, or a plugin is serving
        if fin['complete'] and not fin['plugin']:
            return 'request complete, no plugin, nothing sent, connection open: neither waiting, serving nor rejected'
        return None
    if fin['plugin'] and not scripted and fin['out'] and fin['closed'] and not gone:
        # the real plugins' own replies (tunnel acknowledgement, web-server 404) are the proxy's own making too
        h = h11_parse(fin['out'], fin['method'] == b'CONNECT')
        if not h['ok']:
            return 'plugin reply is not exactly one well-formed response followed by EOF: %s (%r...)' % (h['why'], fin['out'][:60])
    if fin['closed'] and fin['buffer_left'] and not fin['plugin'] :
        return 'closed with %d queued bytes undelivered' % fin['buffer_left']
    return None


def nontrivial(case, out):
    if case['kind'] == 'handler':
        fin = out['final']
        return bool(fin and (fin['hq'] or fin['plugin'] or fin['closed']))
    if case['kind'] == 'build':
        return wf_args_py(case['args'], case.get('connect', False))
    if case['kind'] == 'recognise':
        return out['h11']['ok']
    return True


def classify(case, out, failure):
    return None


def model_expr(case):
    if case['kind'] != 'handler':
        return None
    out = run_handler(case, drain=False)
    t = term_handler(case, out)
    # CHandler cfg orc ocd evs expected -> the model's trace
    return ('match (%s) with CHandler cfg orc ocd evs _ => map (fun h => (buffer h, (must_flush h, reads_teared h, torn h), plugin h, '
            'state (request h), Parser.buffer (request h), sent h, map fst (hq h), (orc_calls h, ocd h, parse_calls h), escaped h)) (run_trace cfg orc ocd evs) | _ => [] end') % t


# ====================================================================== generation
SCHEMES = [b'ftp', b'gopher', b'ws', b'file', b'HTTP', b'htt', b'httpss', b'']
ODD_METHODS = [b'BREW', b'get', b'G\xc3\x89T', b'PROPFIND', b'M-SEARCH', b'', b'GET\t', b'\x00', b'CONNECT']

def malform(rng, raw):
    r = rng.randrange(16)
    if r == 0: return raw[:rng.randrange(0, len(raw) + 1)]                                   # truncation
    if r == 1:
        i = rng.randrange(0, len(raw) + 1); return raw[:i] + rng.choice([b'\r\n', b'\r', b'\n', b'\n\r']) + raw[i:]
    if r == 2:
        i = raw.find(b'\r\n', rng.randrange(0, len(raw))); return raw if i < 0 else raw[:i] + rng.choice([b'\r', b'\n', b'']) + raw[i + 2:]
    if r == 3:                                                                               # bad lengths
        bad = rng.choice([b'x', b'-1', b'+5', b'1_0', b' 0x10', b'9' * 30, b'9' * 5000, b'', b'1e3', b'0b1', '\u0661\u0662'.encode(), b' 7 ', b'5,5'])
        if b'ontent-' in raw:
            i = raw.lower().find(b'content-length:'); j = raw.find(b'\r\n', i)
            return raw[:i + 15] + b' ' + bad + raw[j:] if i >= 0 and j >= 0 else raw
        return raw.replace(b'\r\n\r\n', b'\r\nContent-Length: ' + bad + b'\r\n\r\n', 1)
    if r == 4:
        i = rng.randrange(0, len(raw) + 1); return raw[:i] + bytes([rng.choice([0xff, 0xc3, 0x80, 0x00, 0xfe, 0xed])]) + raw[i:]
    if r == 5: return raw.replace(b'http://', rng.choice(SCHEMES) + b'://', 1) if b'http://' in raw else b'GET ' + rng.choice(SCHEMES) + b'://h/ HTTP/1.1\r\n\r\n'
    if r == 6: return rng.choice(ODD_METHODS) + raw[raw.find(b' '):] if b' ' in raw else raw
    if r == 7: return raw.replace(b' ', rng.choice([b'', b'  ', b'\t', b'   ']), 1)
    if r == 8: return raw.replace(b'HTTP/1.', rng.choice([b'HTTP/2.', b'HTTP/0.', b'http/1.', b'HTTPS/1.', b'HTTP/1.1.', b'']), 1)
    if r == 9: return raw + raw[:rng.randrange(0, len(raw) + 1)]                               # concatenation
    if r == 10: return raw.replace(b'\r\n\r\n', b'\r\nTransfer-Encoding: chunked\r\n\r\n' + rng.choice([b'zz\r\n', b'-1\r\n', b'5;x\r\nab', b'0x\r\n', b'fffffffffffffffffffff\r\n']), 1)
    if r == 11: return bytes(rng.randrange(256) for _ in range(rng.randrange(1, 60)))         # random bytes
    if r == 12: return raw.replace(b'\r\n', b'\n')                                            # bare LF
    if r == 13: return raw.replace(b':', rng.choice([b'', b'::', b' :']), 1)
    if r == 14:
        t = rng.choice([b'a:b:c', b'[::1', b'::1]:x', b'h:99999999999999999999', b'h:-1', b'h:8_0', b'u:p@h:1', b'@', b'h:', b':80', b'//', b'/\xff', b'*', b'h:\xff'])
        parts = raw.split(b' ', 2)
        return parts[0] + b' ' + t + b' ' + parts[2] if len(parts) == 3 else raw
    i = rng.randrange(0, len(raw)); return raw[:i] + bytes([rng.randrange(256)]) + raw[i + 1:]


def segmentations(rng, data, tier):
    n = len(data)
    out = [[]]
    if n <= 1:
        return out
    pts = set()
    for i, ch in enumerate(data):
        if ch in (13, 10):
            for d in (-1, 0, 1, 2): pts.add(i + d)
    pts = sorted(p for p in pts if 0 < p < n)
    out.append([rng.randrange(1, n)])
    if pts:
        out.append([rng.choice(pts)])
        out.append(sorted(rng.sample(pts, min(len(pts), rng.randint(2, 5)))))
    out.append(H.random_cuts(rng, n, rng.randint(2, 5)))
    if n <= 48 or (tier == 'thorough' and n <= 120):
        out.append(list(range(1, n)))
    k = 3 if tier != 'thorough' else 4
    if len(out) > k:
        out = [out[0]] + rng.sample(out[1:], k - 1)
    return out


def ev_data(pieces):
    return [dict(w=None, r=p) for p in pieces]


def sprinkle(rng, events):
    """interleave writable events (short writes), occasionally EOF / recv errors"""
    out = []
    for e in events:
        if rng.random() < 0.25:
            out.append(dict(w=rng.choice([0, 1, 5, 40, 100000]), r=None))
        if rng.random() < 0.15:
            e = dict(e, w=rng.choice([1, 7, 100000]))
        out.append(e)
    r = rng.random()
    if r < 0.10: out.append(dict(w=None, r='eof'))
    elif r < 0.14: out.append(dict(w=None, r=rng.choice(['reset', 'timeout', 'oserror'])))
    for _ in range(rng.randrange(0, 4)):
        out.append(dict(w=rng.choice([0, 3, 17, 64, 100000]), r=rng.choice([None, None, b'zz', b'GET / HTTP/1.1\r\n\r\n'])))
    return out


OK_SMALL = None

def valid_pkts():
    from proxy.http import responses as R
    return [bytes(R.okResponse(b'hello')), bytes(R.NOT_FOUND_RESPONSE_PKT), bytes(R.okResponse(b'x' * 30, compress=False, conn_close=True))]


def gen_exc_spec(rng, wf_only=False):
    r = rng.randrange(9)
    if r == 0: return ('plain',)
    if r == 1: return ('auth',)
    if r == 2: return ('conn',)
    if r == 3: return ('custom', rng.choice([None, b'', b'HTTP/1.1 418 teapot\r\nContent-Length: 0\r\nConnection: close\r\n\r\n']))
    if r in (4, 5):
        a = gen_args(rng, wf=True)
        return ('rejected', rng.choice([a['status'], a['status'], None, 0]), a['reason'], a['headers'], a['body'])
    if r == 6: return ('other', rng.choice(['ValueError', 'KeyError', 'TypeError', 'AssertionError', 'IndexError', 'UnicodeDecodeError', 'RuntimeError']))
    if r == 7: return ('oserror', rng.choice(['generic', 'refused']))
    return ('oserror', 'sslwantread')


def gen_script(rng):
    protos = rng.choice([[[3]], [[2]], [[3], [2]], [[2], [3]], [[2, 3]], [[4], [3]], [[1], [2, 3]], [[3], [3]]])
    r = rng.randrange(10)
    queue = []
    if r < 3: end = ('ret', False)
    elif r < 5: end = ('ret', True)
    elif r == 5: end = ('retother',)
    else: end = ('raise', gen_exc_spec(rng))
    if end[0] == 'ret' and rng.random() < 0.5:
        queue = [rng.choice(valid_pkts())]
    ocd = []
    for _ in range(rng.randrange(0, 3)):
        e = ('ret',) if rng.random() < 0.6 else ('raise', gen_exc_spec(rng))
        ocd.append(dict(queue=[rng.choice(valid_pkts())] if e[0] == 'ret' and rng.random() < 0.3 else [], end=e))
    return dict(protocols=protos, orc=dict(queue=queue, end=end), ocd=ocd)


RVAL = b"abcXYZ019 ,;=/:()\"'*%$-_.~!@#&+<>?[]^`{|}\t\xe9\xff"

def gen_args(rng, wf=True):
    names = [b'Server', b'X-A', b'Content-Type', b'Cache-Control', b'x-b', b'Location', b'Proxy-agent', b'Set-Cookie', b'Via', b'connection', b'A']
    hs = []
    for n in rng.sample(names, rng.randint(0, 4)):
        v = bytes(rng.choice(RVAL) for _ in range(rng.randint(0, 12)))
        hs.append((n, v))
    if rng.random() < 0.15: hs.append((rng.choice([b'Content-Length', b'Content-Length', b'content-length']), rng.choice([b'0', b'7', b'99'])))
    body = rng.choice([None, b'', b'x', H.rbody(rng, rng.randint(1, 40)), b'y' * rng.choice([9, 10, 11, 99, 100, 101, 999, 1000])])
    status = rng.choice([200, 201, 204, 301, 304, 400, 404, 407, 500, 502, 599, 999, 226])
    a = dict(status=status, version=rng.choice([b'HTTP/1.1', b'HTTP/1.1', b'HTTP/1.0']),
             reason=rng.choice([None, b'', b'OK', b'Not Found', b'a  b\tc', b'caf\xe9']),
             headers=rng.choice([None, hs, hs, hs]), body=body, conn_close=rng.random() < 0.5, no_cl=rng.random() < 0.3)
    if wf:
        if a['no_cl']:
            a['conn_close'] = True
            if a['headers']: a['headers'] = [(k, v) for k, v in a['headers'] if k.lower() != b'content-length']
        if status in (204, 304): a['body'] = rng.choice([None, b''])
        return a
    r = rng.randrange(12)
    hs = list(a['headers'] or [])
    if r == 0: a['status'] = rng.choice([0, 7, 99, 100, 101, 199, 1000, 12345, -1, -200])
    elif r == 1: a['reason'] = rng.choice([b'a\r\nb', b'x\ny', b'\x00', b'a\x7fb'])
    elif r == 2: hs.append((rng.choice([b'Bad Name', b'', b'a:b', b'n\xe9', b'x\r\n']), b'v')); a['headers'] = hs
    elif r == 3: hs.append((b'X-Inj', rng.choice([b'a\r\nSet-Cookie: x', b'a\nb', b'\x01', b'a\rb']))); a['headers'] = hs
    elif r == 4: hs.append((rng.choice([b'Transfer-Encoding', b'transfer-encoding']), rng.choice([b'chunked', b'gzip']))); a['headers'] = hs
    elif r == 5: hs.append((rng.choice([b'content-length', b'CONTENT-LENGTH']), rng.choice([b'1', b'0', b'x']))); a['headers'] = hs
    elif r == 6: a['no_cl'] = True; a['conn_close'] = False; a['body'] = b'abc'
    elif r == 7: a['status'] = rng.choice([204, 304]); a['body'] = b'abc'
    elif r == 8: a['version'] = rng.choice([b'HTTP/1', b'HTTP/11', b'http/1.1', b'', b'HTTP/1.1 ', b'HTTP/x.y'])
    elif r == 9: a['no_cl'] = True; hs.append((b'Content-Length', rng.choice([b'3', b'0']))); a['headers'] = hs; a['body'] = b'abcd'
    elif r == 10: a['reason'] = None; a['status'] = rng.choice([200, 404])
    if a['headers'] is not None:
        a['headers'] = list(dict(a['headers']).items())      # the argument is a dict: keys are distinct
    return a


def mutate_pkt(rng, raw):
    r = rng.randrange(10)
    if r == 0: return raw[:rng.randrange(0, len(raw) + 1)]
    if r == 1: return raw + bytes(rng.randrange(256) for _ in range(rng.randint(1, 4)))
    if r == 2:
        i = raw.lower().find(b'content-length: ')
        if i >= 0:
            j = raw.find(b'\r\n', i); n = raw[i + 16:j]
            try: return raw[:i + 16] + b'%d' % max(0, int(n) + rng.choice([-1, 1, 10])) + raw[j:]
            except ValueError: return raw
        return raw
    if r == 3: return raw.replace(b'Connection: close\r\n', b'', 1)
    if r == 4: return raw.replace(b'\r\n', b'\n', 1)
    if r == 5: return raw.replace(b'\r\n\r\n', b'\r\nContent-Length: %d\r\n\r\n' % rng.choice([0, 1, 3]), 1)
    if r == 6: return raw.replace(b': ', rng.choice([b':', b':\t ', b' : ', b':  ']), 1)
    if r == 7: return raw.replace(b'HTTP/1.1 ', rng.choice([b'HTTP/1.1  ', b'HTTP/1.1', b'HTTP/2 ', b'HTTP/1.10 ', b'http/1.1 ']), 1)
    if r == 8:
        i = raw.find(b'\r\n'); return raw[:i] + rng.choice([b' ', b'\t', b'\x01', b'']) + raw[i:] if i >= 0 else raw
    i = rng.randrange(0, len(raw)); return raw[:i] + bytes([rng.randrange(256)]) + raw[i + 1:]


def generate(rng, tier):
    quick = tier != 'thorough'
    cases = []
    # ---------------- handler: byte strings x segmentations, real plugins
    nstr = 330 if quick else 4500
    for _ in range(nstr):
        d = H.gen_message(rng, kind=1, max_body=40)
        raw = d['raw']
        malformed = rng.random() < 0.7
        if malformed:
            raw = malform(rng, raw)
            if rng.random() < 0.25 and raw:
                raw = malform(rng, raw)
        elif rng.random() < 0.3:
            raw = raw + rng.choice([b'GET / HTTP/1.1\r\n\r\n', b'xyz', H.gen_message(rng, kind=1)['raw']])
        if not raw:
            continue
        setup = rng.choice(['proxy', 'proxy', 'proxy', 'web', 'web', 'noplugin', 'nokey', 'auth', 'refused'])
        for cuts in segmentations(rng, raw, tier):
            evs = ev_data(H.cut(raw, cuts))
            if rng.random() < 0.35:
                evs = sprinkle(rng, evs)
            cases.append(dict(kind='handler', setup=setup, events=evs, gen='malformed' if malformed else 'valid'))
    # ---------------- handler: scripted plugin outcomes
    for _ in range(170 if quick else 2500):
        d = H.gen_message(rng, kind=1, max_body=20)
        raw = d['raw']
        if rng.random() < 0.15:
            raw = malform(rng, raw) or raw
        tail = [rng.choice([b'more', b'GET / HTTP/1.1\r\n\r\n', b'\x00\xff']) for _ in range(rng.randrange(0, 4))]
        evs = ev_data(H.cut(raw, rng.choice(segmentations(rng, raw, 'quick'))) + tail)
        if rng.random() < 0.5:
            evs = sprinkle(rng, evs)
        cases.append(dict(kind='handler', setup='scripted', script=gen_script(rng), events=evs, gen='scripted'))
    # ---------------- builders
    nb = 450 if quick else 12000
    for i in range(nb):
        a = gen_args(rng, wf=rng.random() < 0.65)
        connect = rng.random() < 0.15
        if connect and rng.random() < 0.5:
            a['status'] = rng.choice([200, 201]); a['body'] = None
        cases.append(dict(kind='build', args=a, connect=connect))
    for i in range(110 if quick else 3000):
        a = gen_args(rng, wf=rng.random() < 0.85)
        content = rng.choice([None, b'', b'x' * rng.choice([1, 19, 20, 21, 22, 100]), H.rbody(rng, rng.randint(1, 60))])
        cases.append(dict(kind='ok', content=content, headers=a['headers'], compress=rng.random() < 0.7,
                          min_len=rng.choice([20, 20, 0, 1, 19, 21, 100, -1]), conn_close=a['conn_close'], no_cl=a['no_cl'] and a['conn_close'],
                          gz_out=rng.choice([b'\x1f\x8b' + H.rbody(rng, rng.randint(1, 30)), b'', b'z'])))
    for w in range(len(CANNED)):
        cases.append(dict(kind='canned', which=w))
    for _ in range(30 if quick else 500):
        loc = rng.choice([b'http://x/', b'/a?b=c', b'', b'https://h:8443/p q', b'a\r\nb', H.rpath(rng), bytes(rng.choice(RVAL) for _ in range(rng.randint(1, 20)))])
        cases.append(dict(kind='redirect', permanent=rng.random() < 0.5, location=loc))
    for _ in range(60 if quick else 1000):
        x = gen_exc_spec(rng)
        if x[0] in ('other', 'oserror'):
            continue
        cases.append(dict(kind='exn', exc=x))
    # ---------------- recogniser vs h11 on mutated packets
    for _ in range(260 if quick else 6000):
        a = gen_args(rng, wf=True)
        connect = rng.random() < 0.1
        try:
            raw = call_build(a)
        except Exception:
            continue
        raw = mutate_pkt(rng, raw)
        if rng.random() < 0.2:
            raw = mutate_pkt(rng, raw)
        cases.append(dict(kind='recognise', raw=raw, connect=connect))
    return cases


def shrink(case, fails):
    if case['kind'] != 'handler':
        return case
    cur = dict(case)
    evs = list(cur['events'])
    # merge data pieces / drop events while it still fails
    improved = True
    while improved and len(evs) > 1:
        improved = False
        for i in range(len(evs)):
            t = dict(cur, events=evs[:i] + evs[i + 1:])
            if fails(t):
                evs = t['events']; cur = t; improved = True; break
            if i + 1 < len(evs) and isinstance(evs[i].get('r'), bytes) and isinstance(evs[i + 1].get('r'), bytes) \
                    and evs[i].get('w') is None and evs[i + 1].get('w') is None:
                t = dict(cur, events=evs[:i] + [dict(w=None, r=evs[i]['r'] + evs[i + 1]['r'])] + evs[i + 2:])
                if fails(t):
                    evs = t['events']; cur = t; improved = True; break
    return cur


# ====================================================================== thorough: every prefix of valid requests
def extra_checks(rng, tier):
    failures, notes = [], []
    n = 25 if tier != 'thorough' else 200
    count = 0
    for _ in range(n):
        d = H.gen_message(rng, kind=1, max_body=12)
        raw = d['raw']
        setup = rng.choice(['proxy', 'web'])
        step = 1 if tier == 'thorough' else max(1, len(raw) // 12)
        for k in range(1, len(raw) + 1, step):
            for evs in (ev_data([raw[:k]]), ev_data([raw[:k]]) + [dict(w=None, r='eof')]):
                case = dict(kind='handler', setup=setup, events=evs, gen='prefix')
                out = run_handler(case)
                count += 1
                f = oracle_handler(case, out)
                if f:
                    failures.append(dict(case=case, out=out, what=f))
                    break
    notes.append('prefix sweep: %d (prefix, +-EOF) runs of %d valid requests on the implementation' % (count, n))
    return dict(failures=failures[:3], notes=notes, prefix_runs=count)


def debug_mismatches(seed=0, tier='quick', kinds=None, limit=6):
    rng = random.Random(seed * 1000003 + sum(map(ord, ID)))
    cases = generate(rng, tier)
    if kinds:
        cases = [c for c in cases if c['kind'] in kinds]
    outs = [run_impl(c) for c in cases]
    terms, idx = [], []
    for i, (c, o) in enumerate(zip(cases, outs)):
        t = coq_term(c, o)
        for t1 in (t if isinstance(t, list) else [t]):
            terms.append(t1); idx.append(i)
    mism, errs = C.run_coq_cases(ID, IMPORTS, CASE_TYPE, CHECK_FN, terms, shard=SHARD)
    print('cases', len(cases), 'terms', len(terms), 'mismatches', len(mism), 'errors', errs[:2])
    for j in mism[:limit]:
        c, o = cases[idx[j]], outs[idx[j]]
        print('--- term', terms[j][:300])
        print('case', {k: v for k, v in c.items()})
        if c['kind'] == 'handler':
            for s in o['steps']: print('   ', s)
            print(C.coq_eval(ID, IMPORTS, model_expr(c))[-2500:])
        else:
            print('out', o)
    fails = [(c, oracle(c, o)) for c, o in zip(cases, outs)]
    fails = [(c, f) for c, f in fails if f]
    print('oracle failures', len(fails))
    for c, f in fails[:limit]:
        print('---', f); print(c)
