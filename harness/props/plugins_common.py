"""Shared by C08 and C09: drives the REAL HttpProtocolHandler + HttpProxyPlugin (+ the real AuthPlugin)
through harness/sim.py with plugin classes generated from action tables, records ONE chronological
log of everything observable (hook calls with their argument, connect attempts, bytes queued for
upstream/client, the teardown decision, escaping exceptions, default access log, socket closes) and
renders cases as Coq terms for Net/PluginCases.v."""
import sys, os, base64, selectors
sys.path.insert(0, os.path.dirname(os.path.dirname(os.path.abspath(__file__))))
import common as C
import sim as S
from unittest import mock

IMPORTS = 'From Coq Require Import ZArith.\nFrom PM Require Import Lib.Bytes Lib.PyStr Net.Auth Net.PluginChain Net.PluginCases.'
COQ_TARGETS_COMMON = ['theories/Net/PluginCases.vo']
ANCHOR_FILES = ['proxy/http/proxy/auth.py', 'proxy/common/flag.py', 'proxy/common/plugins.py', 'proxy/http/proxy/server.py',
                'proxy/http/proxy/plugin.py', 'proxy/http/handler.py', 'proxy/http/exception/http_request_rejected.py',
                'proxy/http/exception/proxy_auth_failed.py', 'proxy/http/exception/base.py', 'proxy/http/responses.py']

LOG = []            # the chronological log of the run in progress
RETS = {}           # index into LOG of a 'call' entry -> what that hook invocation returned/raised (for the oracles only)

CTX_KEYS = ['client_ip', 'client_port', 'server_host', 'server_port', 'connection_time_ms', 'request_method',
            'request_path', 'request_bytes', 'request_ua', 'request_version', 'response_bytes', 'response_code',
            'response_reason']

EXC = {'ValueError': 1, 'KeyError': 3, 'AssertionError': 4, 'TypeError': 7, 'OSError': 200, 'HttpProtocolException': 100,
       'ConnectionResetError': 200, 'BrokenPipeError': 200, 'TimeoutError': 200}
COQ_EXN = {'ValueError': 'ValueError', 'KeyError': 'KeyError', 'AssertionError': 'AssertionError', 'TypeError': 'TypeError',
           'OSError': '(OSError 0)', 'HttpProtocolException': '(HttpProtocolException 0)',
           # the OSError subclasses a hook may raise (errno as the model's tag; TimeoutError('..') carries no errno)
           'ConnectionResetError': '(OSError 104)', 'BrokenPipeError': '(OSError 32)', 'TimeoutError': '(OSError 110)'}
OSERRORS = ['ConnectionResetError', 'BrokenPipeError', 'TimeoutError', 'OSError']


def mk_exc(name):
    from proxy.http.exception import HttpProtocolException
    return {'ValueError': ValueError('boom'), 'KeyError': KeyError('boom'), 'AssertionError': AssertionError('boom'),
            'TypeError': TypeError('boom'), 'OSError': OSError(5, 'boom'),
            'ConnectionResetError': ConnectionResetError(104, 'boom'), 'BrokenPipeError': BrokenPipeError(32, 'boom'),
            'TimeoutError': TimeoutError('boom'),
            'HttpProtocolException': HttpProtocolException('boom')}[name]


# ------------------------------------------------------------------ requests
def wire(spec):
    """request bytes of a spec dict(method, target, version, lines, body)"""
    out = spec['method'] + b' ' + spec['target'] + b' ' + spec['version'] + b'\r\n'
    for ln in spec['lines']:
        out += ln + b'\r\n'
    return out + b'\r\n' + (spec.get('body') or b'')


WS = b' \t\n\r\x0b\x0c'


def header_dict(lines):
    """independent re-statement of HttpParser._process_header/add_header: [(lower name, name, value)] in dict order"""
    d = {}
    for ln in lines:
        k, _, v = ln.partition(b':')
        k, v = k.strip(WS), v.strip(WS)
        d[k.lower()] = (k, v)
    return [(k, nv[0], nv[1]) for k, nv in d.items()]


def abstract_request(spec, buffer=b''):
    """the parsed record the model works on, computed from the generator's own knowledge of the request
    (spec carries host/port/path explicitly); the first hook's logged argument checks it against the real parser"""
    tunnel = spec['method'] == b'CONNECT'
    return dict(method=spec['method'], host=spec['host'], port=spec['port'], path=spec['path'], version=spec['version'],
                headers=header_dict(spec['lines']), body=(spec.get('body') or None), tunnel=tunnel, buffer=buffer)


def canon_request(req):
    b = req._get_body_or_chunks()
    return dict(method=bytes(req.method or b''), host=None if req.host is None else bytes(req.host), port=req.port,
                path=None if req.path is None else bytes(req.path), version=bytes(req.version or b''),
                headers=[(bytes(k), bytes(v[0]), bytes(v[1])) for k, v in (req.headers or {}).items()],
                body=None if b is None else bytes(b), tunnel=bool(req.is_https_tunnel),
                buffer=bytes(req.buffer) if req.buffer else b'')


def canon_ctx(ctx):
    """marker keys keep their value, every other value is blanked (timestamps, addresses ...)"""
    return [(k, (str(v) if k.startswith('mk_') else '')) for k, v in ctx.items()]


# ------------------------------------------------------------------ generated plugin classes
def fresh_request(spec):
    """a NEW HttpParser object (not the one the hook was given): what a redirecting / rewriting plugin returns"""
    from proxy.http.parser import HttpParser
    r = HttpParser.request(wire(spec))
    assert r.is_complete
    return r


def interp(act, n, x, modify, delete, fresh=None):
    """act is a JSON-able list; n = number of earlier invocations of this hook on this instance"""
    from proxy.http.exception import HttpRequestRejected
    k = act[0]
    if k == 'pass':
        return x
    if k == 'modify':
        return modify(act[1], x)
    if k == 'del':
        return delete(act[1], x)
    if k == 'fresh':
        return fresh(act[1], x) if fresh else x
    if k == 'drop':
        return None
    if k == 'reject':
        raise HttpRequestRejected(status_code=act[1], reason=act[2], body=act[3])
    if k == 'rejecth':
        # rejection that chooses response HEADERS too (a redirecting / captive-portal plugin): outside the Coq model
        # (AReject has no headers), judged by the implementation-side oracle only
        raise HttpRequestRejected(status_code=act[1], reason=act[2], body=act[3], headers={bytes(a): bytes(b) for a, b in act[4]})
    if k == 'raise':
        raise mk_exc(act[1])
    if k == 'after':
        return interp(act[2] if n < act[1] else act[3], n, x, modify, delete, fresh)
    raise ValueError(act)


def make_plugin_class(table):
    from proxy.http.proxy import HttpProxyBasePlugin
    pid = table['id']

    def count(self, hk):
        c = self.__dict__.setdefault('_cnt', {})
        n = c.get(hk, 0)
        c[hk] = n + 1
        return n

    def req_mod(m, r):
        r.add_header(b'X-Mk-' + m, m); return r

    def req_del(k, r):
        r.del_header(k); return r

    def ctx_mod(m, c):
        c['mk_' + m.decode()] = m.decode(); return c

    def ctx_del(k, c):
        c.pop(k.decode(), None); return c

    def run(self, hk, arg, canon, act, x, modify, delete, fresh=None):
        LOG.append(('call', pid, hk, arg))
        i = len(LOG) - 1
        try:
            r = interp(act, count(self, hk), x, modify, delete, fresh)
        except Exception as e:
            RETS[i] = ('raise', type(e).__name__, getattr(e, 'status_code', None), getattr(e, 'reason', None), getattr(e, 'body', None),
                       dict(getattr(e, 'headers', None) or {}))
            raise
        RETS[i] = ('none',) if r is None else ('value', canon(r))
        return r

    def before_upstream_connection(self, request):
        return run(self, 'BUC', ('req', canon_request(request)), canon_request, table['buc'], request, req_mod, req_del, lambda sp, r: fresh_request(sp))

    def handle_client_request(self, request):
        return run(self, 'HCR', ('req', canon_request(request)), canon_request, table['hcr'], request, req_mod, req_del, lambda sp, r: fresh_request(sp))

    def handle_client_data(self, raw):
        return run(self, 'HCD', ('bytes', bytes(raw)), bytes, table['hcd'], raw, lambda m, x: memoryview(bytes(x) + m), lambda k, x: x)

    def handle_upstream_chunk(self, chunk):
        return run(self, 'HUC', ('bytes', bytes(chunk)), bytes, table['huc'], chunk, lambda m, x: memoryview(bytes(x) + m), lambda k, x: x)

    def on_access_log(self, context):
        return run(self, 'OAL', ('ctx', canon_ctx(context)), canon_ctx, table['oal'], context, ctx_mod, ctx_del)

    def on_upstream_connection_close(self):
        run(self, 'OUCC', ('unit',), lambda v: None, table['oucc'], 0, lambda m, x: x, lambda k, x: x)

    def resolve_dns(self, host, port):
        LOG.append(('call', pid, 'DNS', ('hostport', host.encode(), port)))
        d = table['dns']
        if d[0] == 'none':
            return None, None
        if d[0] == 'ip':
            return d[1].decode(), None
        if d[0] == 'src':
            return None, (d[1].decode(), 0)
        raise RuntimeError('dns failure')

    ns = dict(before_upstream_connection=before_upstream_connection, handle_client_request=handle_client_request,
              handle_client_data=handle_client_data, handle_upstream_chunk=handle_upstream_chunk,
              on_access_log=on_access_log, on_upstream_connection_close=on_upstream_connection_close,
              resolve_dns=resolve_dns, __qualname__=table['name'], _verif_id=pid)
    return type(table['name'], (HttpProxyBasePlugin,), ns)


def make_logging_auth():
    """the real AuthPlugin with every hook logged before it runs (same qualname, pid 0)"""
    from proxy.http.proxy.auth import AuthPlugin as Real

    class AuthPlugin(Real):
        _verif_id = 0

        def before_upstream_connection(self, request):
            LOG.append(('call', 0, 'BUC', ('req', canon_request(request))))
            i = len(LOG) - 1
            try:
                r = super().before_upstream_connection(request)
            except Exception as e:
                RETS[i] = ('raise', type(e).__name__, 407, None, None)
                raise
            RETS[i] = ('value', canon_request(r))
            return r

        def handle_client_request(self, request):
            LOG.append(('call', 0, 'HCR', ('req', canon_request(request))))
            return super().handle_client_request(request)

        def handle_client_data(self, raw):
            LOG.append(('call', 0, 'HCD', ('bytes', bytes(raw))))
            return super().handle_client_data(raw)

        def handle_upstream_chunk(self, chunk):
            LOG.append(('call', 0, 'HUC', ('bytes', bytes(chunk))))
            return super().handle_upstream_chunk(chunk)

        def on_access_log(self, context):
            LOG.append(('call', 0, 'OAL', ('ctx', canon_ctx(context))))
            return super().on_access_log(context)

        def on_upstream_connection_close(self):
            LOG.append(('call', 0, 'OUCC', ('unit',)))
            return super().on_upstream_connection_close()

        def resolve_dns(self, host, port):
            LOG.append(('call', 0, 'DNS', ('hostport', host.encode(), port)))
            return super().resolve_dns(host, port)
    AuthPlugin.__qualname__ = 'AuthPlugin'
    return Real, AuthPlugin


def agent_value():
    from proxy.common.constants import PROXY_AGENT_HEADER_VALUE
    return bytes(PROXY_AGENT_HEADER_VALUE)


# ------------------------------------------------------------------ one connection through the real handler
def build_classes(tables):
    """one class object per distinct table id (the same id twice = the same class listed twice)"""
    by_id = {}
    out = []
    for t in tables:
        if t['id'] == 1001:          # the real auth plugin class requested once more by the user
            from proxy.http.proxy.auth import AuthPlugin
            out.append(AuthPlugin)
            continue
        if t['id'] not in by_id:
            by_id[t['id']] = make_plugin_class(t)
        out.append(by_id[t['id']])
    return out


def make_flags(case):
    opts = dict(plugins=build_classes(case['tables']))
    if case.get('basic_auth') is not None:
        opts['basic_auth'] = case['basic_auth'].decode('latin-1')
    if case.get('disable'):
        opts['disable_headers'] = list(case['disable'])
    if case.get('max_send'):
        opts['max_sendbuf_size'] = case['max_send']
    if case.get('threaded'):
        opts['threadless'] = False
    import logging
    logging.disable(logging.CRITICAL)
    return S.make_flags(**opts)


def chain_ids(flags):
    """pids in the order of HttpProxyPlugin.plugins.values() (what __init__ does with the loaded classes)"""
    d = {}
    for k in flags.plugins[b'HttpProxyBasePlugin']:
        nm = k.__qualname__
        d[nm] = getattr(k, '_verif_id', 0 if k.__name__ == 'AuthPlugin' else 999)
    return list(d.values())


class FakeSelector:
    """stands for selectors.DefaultSelector() of the threaded handler: whatever is registered for writing is ready"""
    def __init__(self):
        self.reg = {}

    def register(self, fileobj, events, data=None):
        if fileobj in self.reg:
            raise KeyError(fileobj)
        self.reg[fileobj] = events
        return selectors.SelectorKey(fileobj, getattr(fileobj, 'fd', 0), events, data)

    def unregister(self, fileobj):
        ev = self.reg.pop(fileobj)
        return selectors.SelectorKey(fileobj, getattr(fileobj, 'fd', 0), ev, None)

    def select(self, timeout=None):
        return [(selectors.SelectorKey(f, getattr(f, 'fd', 0), ev, None), ev) for f, ev in self.reg.items()]

    def close(self):
        self.reg.clear()


def run_connection(case):
    """case: dict(tables, basic_auth, disable, steps, end).  Returns dict(log=[...], auth_code, order, agent)."""
    from proxy.http.handler import HttpProtocolHandler
    from proxy.http.proxy.server import HttpProxyPlugin
    from proxy.core.connection.connection import TcpConnection
    from proxy.core.connection.server import TcpServerConnection
    import proxy.core.connection.server as server_mod
    del LOG[:]
    RETS.clear()
    flags = make_flags(case)
    order = chain_ids(flags)
    real_auth, logging_auth = make_logging_auth()
    lst = flags.plugins[b'HttpProxyBasePlugin']
    for i, k in enumerate(lst):
        if k is real_auth:
            lst[i] = logging_auth

    class H(HttpProtocolHandler):
        def handle_data(self, data):
            try:
                r = super().handle_data(data)
            except OSError:
                LOG.append(('teardown',))
                raise
            if r is True:
                LOG.append(('teardown',))
            return r

        async def handle_events(self, readables, writables):
            try:
                return await super().handle_events(readables, writables)
            except Exception as e:
                LOG.append(('escaped', C.exn_code(e)))
                raise

        def _flush(self):
            LOG.append(('clientflush',))
            return super()._flush()

        def shutdown(self):
            try:
                super().shutdown()
            except Exception as e:
                LOG.append(('escaped', C.exn_code(e)))
                raise

    orig_queue = TcpConnection.queue
    orig_access_log = HttpProxyPlugin.access_log

    def queue(self, mv):
        LOG.append(('qup' if isinstance(self, TcpServerConnection) else 'qclient', bytes(mv)))
        return orig_queue(self, mv)

    def access_log(self, ctx):
        orig_access_log(self, ctx)
        LOG.append(('accesslog', canon_ctx(ctx)))

    steps = case['steps']
    first = steps[0] if steps and steps[0][0] == 'first' else None
    connect_script = []
    if first is not None and not first[2]:
        connect_script = [S.io_error('refused')]
    with mock.patch.object(TcpConnection, 'queue', queue), mock.patch.object(HttpProxyPlugin, 'access_log', access_log):
        sim = S.Sim(flags=flags, connect_script=connect_script, handler_klass=H)
        try:
            inner = server_mod.new_socket_connection

            def outer(addr, timeout=None, source_address=None):
                LOG.append(('connect', addr[0].encode(), addr[1], None if source_address is None else source_address[0].encode()))
                return inner(addr, timeout, source_address)
            server_mod.new_socket_connection = outer

            def on_connect(s):
                oc = s.close

                def close():
                    if not s.closed:
                        LOG.append(('upclose',))
                    oc()
                s.close = close
            sim.on_connect = on_connect
            cs = sim.client.shutdown

            def cshutdown(how):
                LOG.append(('clientshutdown',))
                err = case.get('shutdown_error')
                if err:          # conn.shutdown(SHUT_WR) failing for a reason of its own
                    import errno as _errno
                    raise OSError(getattr(_errno, err), 'scripted shutdown error')
                return cs(how)   # raises ENOTCONN after a scripted peer reset (sim.FakeSock.peer_reset)
            sim.client.shutdown = cshutdown
            cc = sim.client.close

            def cclose():
                if not sim.client.closed:
                    LOG.append(('clientclose',))
                cc()
            sim.client.close = cclose

            if case.get('threaded'):
                sim.h.selector = FakeSelector()
            state = dict(final_flush=False, by_handler=False)
            orig_teardown = sim.teardown

            def teardown():
                if not sim.torn:
                    # the input of the model's shutdown: threaded mode with output still pending
                    state['final_flush'] = bool(sim.h.selector) and sim.h.work.has_buffer()
                orig_teardown()
            sim.teardown = teardown

            executed = 0
            i = 0
            while i < len(steps):
                st = steps[i]
                if sim.torn:
                    break
                executed += 1
                LOG.append(('step', executed - 1))      # harness marker (not an observable; dropped from the Coq term)
                if st[0] == 'first':
                    segs = list(st[3])
                    # client steps marked 'same' arrive in the SAME recv segment as the end of the first request
                    while i + 1 < len(steps) and steps[i + 1][0] == 'client' and len(steps[i + 1]) > 3 and steps[i + 1][3] == 'same':
                        i += 1
                        executed += 1
                        LOG.append(('step', executed - 1))
                        segs[-1] = segs[-1] + steps[i][1]
                    for seg in segs:
                        sim.client.feed(seg)
                        sim.step(r=['client'])
                elif st[0] == 'client':
                    sim.client.feed(st[1])
                    sim.step(r=['client'])
                elif st[0] == 'upstream':
                    if sim.upstreams:
                        sim.upstreams[0].feed(st[1])
                        sim.step(r=['up0'])
                elif st[0] == 'flush':
                    # the client socket becomes writable and accepts at most st[1] bytes ('block': EAGAIN)
                    sim.client.script_send(S.io_error('block') if st[1] == 'block' else st[1])
                    sim.step(w=['client'])
                    del sim.client.send_script[:]
                i += 1
            # however the connection ends
            end = case.get('end', 'shutdown')
            if not sim.torn and not sim.h.reads_teared:
                if end == 'client_eof':
                    sim.client.feed(S.EOF); sim.step(r=['client'])
                elif end == 'client_reset':
                    sim.client.feed(S.io_error('reset')); sim.step(r=['client'])
                elif end == 'upstream_eof' and sim.upstreams:
                    sim.upstreams[0].feed(S.EOF); sim.step(r=['up0'])
                elif end == 'upstream_reset' and sim.upstreams:
                    sim.upstreams[0].feed(S.io_error('reset')); sim.step(r=['up0'])
            if end == 'pending_shutdown':
                # the executor shuts the work down while output for the client is still queued (threaded: _flush() in shutdown())
                if case.get('flush_error'):
                    sim.client.script_send(S.io_error(case['flush_error']))
            elif not sim.torn:
                sim.run(50)
            state['by_handler'] = sim.torn
            if not sim.torn:
                sim.teardown()          # idle timeout / executor shutdown
            out = dict(log=list(LOG), rets=dict(RETS), order=order, agent=agent_value(), executed=executed,
                       final_flush=state['final_flush'], closed_by_handler=state['by_handler'],
                       auth_code=None if flags.auth_code is None else bytes(flags.auth_code),
                       connect_log=list(sim.connect_log), client_out=bytes(sim.client.out),
                       upstream_out=[bytes(u.out) for u in sim.upstreams],
                       upstream_closed=[u.closed for u in sim.upstreams], client_closed=sim.client.closed)
        finally:
            sim.close()
    return out


# ------------------------------------------------------------------ Coq rendering
def cb(b):
    """bytes as a Coq term; printable runs as string literals (much cheaper for coqc to parse than numerals)"""
    b = bytes(b)
    if not b:
        return '[]'
    parts, i = [], 0
    while i < len(b):
        j = i
        while j < len(b) and 32 <= b[j] <= 126:
            j += 1
        if j - i >= 3:
            parts.append('bs "%s"' % b[i:j].decode('ascii').replace('"', '""'))
            i = j
            continue
        j = i
        while j < len(b):
            k = j
            while k < len(b) and 32 <= b[k] <= 126:
                k += 1
            if k - j >= 3:
                break
            j = max(k, j + 1)
        parts.append('[' + ';'.join(str(x) for x in b[i:j]) + ']')
        i = j
    return parts[0] if len(parts) == 1 and parts[0].startswith('[') else '(' + ' ++ '.join(parts) + ')'


def cob(b):
    return C.coq_option(cb, b)


def coq_request(r):
    hs = C.coq_list('(%s, (%s, %s))' % (cb(k), cb(n), cb(v)) for k, n, v in r['headers'])
    txt = '(mkRequest %s %s %s %s %s %s %s %s %s)' % (
        cb(r['method']), cob(r['host']), C.coq_option(lambda n: '(%d)%%Z' % n, r['port']), cob(r['path']), cb(r['version']), hs,
        cob(r['body']), C.coq_bool(r['tunnel']), cb(r.get('buffer', b'')))
    if _REQ_TABLE is None:
        return txt
    if txt not in _REQ_TABLE:
        _REQ_TABLE[txt] = 'rq%d' % len(_REQ_TABLE)
    return _REQ_TABLE[txt]


def coq_ctx(c):
    c = list(c)
    n = len(CTX_KEYS)
    if [tuple(x) for x in c[:n]] == [(k, '') for k in CTX_KEYS]:
        rest = c[n:]
        return 'std_ctx' if not rest else '(std_ctx ++ %s)' % C.coq_list('(%s, %s)' % (cb(k.encode()), cb(v.encode())) for k, v in rest)
    return C.coq_list('(%s, %s)' % (cb(k.encode()), cb(v.encode())) for k, v in c)


def coq_act(a):
    k = a[0]
    if k == 'pass': return 'APass'
    if k == 'modify': return '(AModify %s)' % cb(a[1])
    if k == 'del': return '(ADel %s)' % cb(a[1])
    if k == 'fresh': return '(AFresh %s)' % coq_request(abstract_request(a[1]))
    if k == 'drop': return 'ADrop'
    if k == 'reject': return '(AReject %s %s %s)' % (C.coq_option(C.coq_N, a[1]), cob(a[2]), cob(a[3]))
    if k == 'raise': return '(ARaise %s)' % COQ_EXN[a[1]]
    if k == 'after': return '(AAfter %d %s %s)' % (a[1], coq_act(a[2]), coq_act(a[3]))
    raise ValueError(a)


def coq_dns(d):
    return {'none': 'DNone', 'raise': 'DRaise'}.get(d[0]) or ('(DIp %s)' % cb(d[1]) if d[0] == 'ip' else '(DSrc %s)' % cb(d[1]))


def coq_table(t):
    return '(mkTable %d %s %s %s %s %s %s %s %s)' % (
        t['id'], cb(t['name'].encode()), coq_act(t['buc']), coq_act(t['hcr']), coq_act(t['hcd']), coq_act(t['huc']),
        coq_act(t['oal']), coq_act(t['oucc']), coq_dns(t['dns']))


def coq_arg(a):
    if a[0] == 'req': return '(ARequest %s)' % coq_request(a[1])
    if a[0] == 'bytes': return '(ABytes %s)' % cb(a[1])
    if a[0] == 'ctx': return '(ACtx %s)' % coq_ctx(a[1])
    if a[0] == 'hostport': return '(AHostPort %s %d)' % (cb(a[1]), a[2])
    return 'AUnit'


def coq_event(e):
    k = e[0]
    if k == 'call': return 'Call %d %s %s' % (e[1], e[2], coq_arg(e[3]))
    if k == 'connect': return 'Connect %s %d %s' % (cb(e[1]), e[2], cob(e[3]))
    if k == 'qup': return 'QueueUpstream QRaw %s' % cb(e[1])
    if k == 'qclient': return 'QueueClient %s' % cb(e[1])
    if k == 'teardown': return 'Teardown'
    if k == 'escaped': return 'Escaped %d' % e[1]
    if k == 'accesslog': return 'AccessLog %s' % coq_ctx(e[1])
    if k == 'upclose': return 'UpstreamClose'
    if k == 'clientflush': return 'ClientFlush'
    if k == 'clientshutdown': return 'ClientShutdown'
    if k == 'clientclose': return 'ClientClose'
    raise ValueError(e)


def coq_parses(raw, x):
    """what the pipeline parser makes of this piece (the model's oracle input): x = None (no request completes in it),
    a request spec (the piece completes exactly this request, nothing follows), or a list of specs: the piece is their
    wire forms back to back starting at its first byte, optionally followed by an incomplete beginning"""
    if x is None:
        return '[PPartial]'
    if isinstance(x, dict):
        return '[PComplete %s []]' % coq_request(abstract_request(x))
    out, pos = [], 0
    for sp in x:
        w = wire(sp)
        assert raw[pos:pos + len(w)] == w
        pos += len(w)
        out.append('PComplete %s %s' % (coq_request(abstract_request(sp)), cb(raw[pos:])))
    if pos < len(raw):
        out.append('PPartial')
    return C.coq_list(out)


def coq_step(st, same=b''):
    if st[0] == 'first':
        # bytes that arrived in the same recv segment sit in request.buffer while the hooks of the first request run
        return 'SFirst %s %s' % (coq_request(abstract_request(st[1], same)), C.coq_bool(st[2]))
    if st[0] == 'client':
        return 'SClient %s %s' % (cb(st[1]), coq_parses(st[1], st[2]))
    return 'SUpstream %s' % cb(st[1])


_REQ_TABLE = None


def coq_steps(steps):
    out = []
    for i, st in enumerate(steps):
        if st[0] == 'flush':
            continue
        same = b''
        if st[0] == 'first':
            j = i + 1
            while j < len(steps) and steps[j][0] == 'client' and len(steps[j]) > 3 and steps[j][3] == 'same':
                same += steps[j][1]; j += 1
        out.append(coq_step(st, same))
    return out


def coq_run_term(case, out):
    """requests occurring several times in the term are bound once with let"""
    global _REQ_TABLE
    _REQ_TABLE = {}
    try:
        body = _coq_run_term(case, out)
        table = _REQ_TABLE
    finally:
        _REQ_TABLE = None
    lets = ''.join('let %s := %s in ' % (name, txt) for txt, name in table.items())
    return '(%s%s)' % (lets, body)


def _coq_run_term(case, out):
    c0 = [(k, '') for k in CTX_KEYS]
    return 'CRun %s %s %s %s %s %s %s %s' % (
        cb(out['agent']), C.coq_list(cb(x) for x in (case.get('disable') or [])), C.coq_bool(out.get('final_flush', False)), cob(case.get('basic_auth')),
        C.coq_list(coq_table(t) for t in case['tables']), coq_ctx(c0),
        C.coq_list(coq_steps(case['steps'][:out['executed']])), C.coq_list(coq_event(e) for e in out['log'] if e[0] != 'step'))


def coq_order_term(case, out):
    return 'COrder %s %s %s' % (cob(case.get('basic_auth')), C.coq_list(coq_table(t) for t in case['tables']),
                                C.coq_list(str(i) for i in out['order']))


def model_expr_run(case, out):
    return 'run_case (%s)' % coq_run_term(case, out)


# ------------------------------------------------------------------ generators shared by both properties
HOSTS = [b'h.example', b'origin.test', b'10.0.0.7', b'a.b.c.example']


def mk_request(rng, method=None, auth_line=None, extra_lines=(), later=False):
    """spec dict with explicit host/port/path so that the abstract record is known without a parser"""
    method = method or rng.choice([b'GET', b'POST', b'CONNECT', b'GET', b'HEAD', b'PUT'])
    host = rng.choice(HOSTS)
    version = rng.choice([b'HTTP/1.1', b'HTTP/1.1', b'HTTP/1.0'])
    lines = []
    body = None
    if method == b'CONNECT':
        port = rng.choice([443, 443, 8443, 1, 65535, 65536, 70000, 0, -1])
        target = host + b':' + str(port).encode()
        path = None
    else:
        port = rng.choice([None, None, None, None, 8080, 1, 65535, 65536, 99999, 0, -1])
        p = rng.choice([b'/', b'/a/b?x=1', b'', b'/get'])
        target = b'http://' + host + (b'' if port is None else b':' + str(port).encode()) + p
        port = 80 if port is None else port
        path = p or None
    lines.append(b'Host: ' + host)
    if rng.random() < 0.4:
        lines.append(b'User-Agent: ua/1.0')
    if rng.random() < 0.3:
        lines.append(rng.choice([b'Proxy-Connection: keep-alive', b'proxy-connection: close']))
    if rng.random() < 0.25:
        lines.append(rng.choice([b'X-Secret: 1', b'x-secret: zzz', b'X-Other: o']))
    if rng.random() < 0.2:
        lines.append(rng.choice([b'Via: 1.0 fred', b'via: 1.1 a, 1.1 b', b'VIA:']))
    lines.extend(extra_lines)
    if auth_line is not None:
        lines.insert(rng.randrange(0, len(lines) + 1), auth_line)
    if method in (b'POST', b'PUT') and rng.random() < 0.8:
        body = bytes(rng.choice(b'abcdefgh0123') for _ in range(rng.randrange(1, 12)))
        lines.append(rng.choice([b'Content-Length: ', b'content-length: ']) + str(len(body)).encode())
    return dict(method=method, target=target, version=version, lines=lines, body=body, host=host, port=port, path=path)


def segments(rng, raw, whole_p=0.6):
    if rng.random() < whole_p or len(raw) < 4:
        return [raw]
    cuts = sorted(set(rng.randrange(1, len(raw)) for _ in range(rng.choice([1, 2, 3]))))
    out, prev = [], 0
    for c in cuts + [len(raw)]:
        out.append(raw[prev:c]); prev = c
    return out


def line_pieces(rng, spec, n=None):
    """wire(spec) cut at header-line boundaries (after the request line or after a header line, before the blank line)"""
    raw = wire(spec)
    head_end = raw.index(b'\r\n\r\n')
    bounds = [i + 2 for i in range(head_end) if raw[i:i + 2] == b'\r\n']
    k = min(len(bounds), n or rng.choice([1, 1, 2, 3]))
    cuts = sorted(rng.sample(bounds, k))
    out, prev = [], 0
    for c in cuts + [len(raw)]:
        out.append(raw[prev:c]); prev = c
    return [x for x in out if x]


def later_in_pieces(rng, spec, pieces=None):
    """client steps delivering one later request in several reads"""
    ps = pieces or line_pieces(rng, spec)
    return [['client', x, None] for x in ps[:-1]] + [['client', ps[-1], spec]]


def upgrade_request(rng, auth_line=None):
    """a later websocket-upgrade request whose credentials (if any) come AFTER the Connection/Upgrade lines"""
    s = mk_request(rng, method=b'GET')
    s['version'] = b'HTTP/1.1'
    s['lines'] = [l for l in s['lines'] if not l.lower().startswith(b'proxy-')]
    s['lines'] += [b'Connection: Upgrade', b'Upgrade: websocket']
    if auth_line:
        s['lines'].append(auth_line)
    s['lines'].append(b'Sec-WebSocket-Key: abc')
    return s


def upgrade_in_pieces(rng, spec):
    """cut right after the Upgrade line (so that the first read ends with Connection+Upgrade parsed, head unfinished),
    optionally once more later"""
    raw = wire(spec)
    c1 = raw.index(b'Upgrade: websocket\r\n') + len(b'Upgrade: websocket\r\n')
    pieces = [raw[:c1], raw[c1:]]
    if rng.random() < 0.5 and len(pieces[1]) > 8:
        j = pieces[1].index(b'\r\n') + 2
        if j < len(pieces[1]):
            pieces = [pieces[0], pieces[1][:j], pieces[1][j:]]
    return [x for x in pieces if x]


def first_step(rng, spec, conn_ok=True):
    return ['first', spec, conn_ok, segments(rng, wire(spec))]


PASS = ['pass']

# plugin class names are part of the generated space: the chain order must be the CONFIGURED order, not any order derived
# from name() — names sorting before / after 'AuthPlugin', sharing prefixes with it, differing in case only
NAMES_BEFORE_AUTH = ['AdBlockPlugin', 'ApiMockPlugin', 'AAA', 'AUTHPLUGIN', 'Auth', 'AuthPlugi', 'AuthPLugin', 'A_first', 'Abc9', 'A0']
NAMES_AFTER_AUTH = ['AuthPlugin2', 'AuthPluginX', 'AuthPlugin_', 'Authz', 'authplugin', 'aUTHpLUGIN', 'BlockPlugin', 'Zed', 'ZZtop', 'b', 'Gen']


def mk_table(i, name=None, **acts):
    t = dict(id=i, name=name or ('Gen%d' % i), buc=PASS, hcr=PASS, hcd=PASS, huc=PASS, oal=PASS, oucc=PASS, dns=['none'])
    t.update(acts)
    return t


def pick_names(rng, n):
    """n distinct class names, mixing names that sort before and after 'AuthPlugin'"""
    pool = NAMES_BEFORE_AUTH + NAMES_AFTER_AUTH
    names = rng.sample(pool, n)
    if n and not any(x in NAMES_BEFORE_AUTH for x in names) and rng.random() < 0.7:
        names[rng.randrange(n)] = rng.choice([x for x in NAMES_BEFORE_AUTH if x not in names])
    return names


def fresh_spec(rng):
    """a request a plugin returns INSTEAD of the one it was given: another origin, another path, a marker header"""
    host = rng.choice([b'fresh.example', b'redirect.test', b'10.9.8.7'])
    port = rng.choice([80, 8081, 81])
    path = rng.choice([b'/fresh', b'/moved/here?x=1'])
    tgt = b'http://' + host + (b'' if port == 80 else b':' + str(port).encode()) + path
    return dict(method=rng.choice([b'GET', b'HEAD']), target=tgt, version=b'HTTP/1.1',
                lines=[b'Host: ' + host, b'X-Fresh: ' + bytes([rng.choice(b'abc')])], body=None, host=host, port=port, path=path)


def rand_act(rng, kinds, lifecycle=False):
    k = rng.choice(kinds)
    if k == 'pass': return ['pass']
    if k == 'modify': return ['modify', bytes([rng.choice(b'abcxyz')]) + str(rng.randrange(10)).encode()]
    if k == 'del': return ['del', rng.choice([b'user-agent', b'X-Secret', b'host', b'proxy-authorization', b'x-mk-a1'])] \
        if not lifecycle else ['del', rng.choice([b'request_ua', b'response_code', b'server_host', b'mk_a1'])]
    if k == 'fresh': return ['fresh', fresh_spec(rng)]
    if k == 'drop': return ['drop']
    if k == 'reject':
        st = rng.choice([403, 418, 451, 500, None, 404])
        return ['reject', st, rng.choice([None, b'Nope', b'I am a teapot']), rng.choice([None, b'', b'denied', b'x' * 20])]
    if k == 'raise': return ['raise', rng.choice(['ValueError', 'KeyError', 'OSError', 'TypeError', 'HttpProtocolException'])]
    if k == 'after':
        return ['after', rng.choice([1, 1, 2]), rand_act(rng, [x for x in kinds if x != 'after'], lifecycle),
                rand_act(rng, [x for x in kinds if x != 'after'], lifecycle)]
    raise ValueError(k)


def served_request(rng, method=None, auth_line=None):
    """a request whose port is dialable (1..65535), so that the upstream connect happens"""
    while True:
        s = mk_request(rng, method=method, auth_line=auth_line)
        if 0 < s['port'] <= 65535:
            return s


DRAIN_ENDINGS = ['client_eof', 'shutdown', 'upstream_eof', 'client_reset', 'upstream_reset']
DRAIN_HOOKS = ['hcr_later', 'hcr_first', 'hcr_same', 'hcd', 'buc']


def gen_oserror_drain(rng, quick, auth=False):
    """The THREE ways a failing hook ends the reading under handle_data, side by side on the same histories:
    an OSError (ConnectionResetError / BrokenPipeError / TimeoutError / plain OSError: caught by
    HttpProtocolHandler.handle_readables -> reads_teared: the upstream is no longer read either), a rejection
    (handle_data returns True -> must_flush_before_shutdown: upstream data still relayed while the response drains) and
    another exception (escapes) - raised by handle_client_request (first request / a later request / a second request in
    the same segment), handle_client_data (no upstream) and before_upstream_connection; where the history allows it with
    output PENDING for the client (an unflushed or partly flushed response chunk) and upstream data, client data and
    flushes arriving AFTERWARDS.  Every (hook, action) pair occurs on every run (quick tier: once)."""
    out = []
    code_line = b'Proxy-Authorization: Basic dXNlcjpwYXNz' if auth else None
    resp = b'HTTP/1.1 200 OK\r\nContent-Length: 2\r\n\r\nok'
    acts = [['raise', x] for x in OSERRORS] + [['reject', 403, b'No', b'denied'], ['raise', 'ValueError']]
    grid = [(h, a) for h in DRAIN_HOOKS for a in acts]
    for hook, act in grid * (1 if quick else 8):
        names = pick_names(rng, 2)
        rec = mk_table(2, name=names[1], huc=rng.choice([['pass'], ['pass'], ['modify', b'u2']]))
        s1 = served_request(rng, method=rng.choice([b'GET', b'POST', b'GET']), auth_line=code_line)
        s2 = served_request(rng, method=rng.choice([b'GET', b'HEAD']), auth_line=code_line if rng.random() < 0.5 else None)
        steps = [['first', s1, True, segments(rng, wire(s1))]]
        if hook == 'hcr_later':
            t1 = mk_table(1, name=names[0], hcr=['after', 1, ['pass'], act])
            steps.append(['upstream', resp])                      # pending for the client
            if rng.random() < 0.5:
                steps.append(['flush', rng.choice([1, 7, 'block'])])     # partly flushed: still pending
            steps.append(['client', wire(s2), s2])                # the hook raises here
        elif hook == 'hcr_first':
            t1 = mk_table(1, name=names[0], hcr=act)              # nothing pending unless the action queues a response
        elif hook == 'hcr_same':
            t1 = mk_table(1, name=names[0], hcr=['after', 1, ['pass'], act])
            steps.append(['client', wire(s2), s2, 'same'])
        elif hook == 'hcd':
            t1 = mk_table(1, name=names[0], buc=['drop'], hcd=rng.choice([act, ['after', 1, ['modify', b'zz'], act]]))
            steps.append(['client', b'raw-1', None])
            steps.append(['client', b'raw-2', None])
        else:
            t1 = mk_table(1, name=names[0], buc=act)
        # afterwards: the upstream sends more, the client sends more, the socket becomes writable
        after = [['upstream', b'MORE'], ['client', wire(s2)[:9], None], ['flush', rng.choice([3, 'block'])], ['upstream', b'EVEN-MORE'],
                 ['flush', 100000], ['upstream', b'late']]
        k = rng.choice([1, 2, 4, 6])
        steps += ([after[0]] + rng.sample(after[1:4], min(k - 1, 3)) + after[4:][:max(0, k - 4)]) if k > 1 else [after[0]]
        tables = [rec, t1]
        rng.shuffle(tables)
        out.append(dict(kind='run', basic_auth=b'user:pass' if auth else None, tables=tables, disable=[], steps=steps,
                        end=rng.choice(DRAIN_ENDINGS), shutdown_error=rng.choice([None, None, 'ENOTCONN']),
                        max_send=rng.choice([None, None, 16]), drain=hook + ':' + (act[1] if act[0] == 'raise' else 'reject')))
    return out


# ------------------------------------------------------------------ independent readers of byte streams (oracles)
def split_head(raw):
    """(first line, [(name, value)], rest) of an HTTP message by a plain scan (no proxy.py code)"""
    head, sep, rest = raw.partition(b'\r\n\r\n')
    lines = head.split(b'\r\n')
    hs = []
    for ln in lines[1:]:
        n, _, v = ln.partition(b':')
        hs.append((n.strip(), v.strip()))
    return lines[0], hs, rest


def h11_requests(raw):
    """parse a stream of requests with h11 (independent parser); returns [(method, target, [(name, value)], body)] or None"""
    import h11
    conn = h11.Connection(h11.SERVER)
    conn.receive_data(raw)
    out, cur = [], None
    try:
        while True:
            ev = conn.next_event()
            if ev is h11.NEED_DATA or ev is h11.PAUSED:
                if ev is h11.PAUSED and conn.our_state is h11.MUST_CLOSE:
                    break
                if ev is h11.PAUSED:
                    try:
                        conn.send(h11.Response(status_code=200, headers=[('content-length', '0')]))
                        conn.send(h11.EndOfMessage())
                        conn.start_next_cycle()
                        continue
                    except Exception:
                        break
                break
            if isinstance(ev, h11.Request):
                cur = [bytes(ev.method), bytes(ev.target), [(bytes(n), bytes(v)) for n, v in ev.headers], b'']
            elif isinstance(ev, h11.Data):
                cur[3] += bytes(ev.data)
            elif isinstance(ev, h11.EndOfMessage):
                out.append(tuple(cur)); cur = None
            elif isinstance(ev, h11.ConnectionClosed):
                break
    except h11.RemoteProtocolError:
        return None
    return out
