"""Shared by C01 / C07 / C20: Coq encoders for the Net/ models, the TcpConnection op-list runner and the
event-list runner that drives the REAL HttpProtocolHandler (+ HttpProxyPlugin / web plugin) through
harness/sim.py, one handle_events() call per event, with the outcome of every I/O call scripted."""
import os, sys, errno, logging
sys.path.insert(0, os.path.dirname(os.path.dirname(os.path.abspath(__file__))))
import common as C
import sim

logging.disable(logging.CRITICAL)

# ------------------------------------------------------------------------------------------------
# encoders
def coq_outcome(o):
    """send outcome: int k (accept at most k) | 'block' | 'pipe' | 'oserror'"""
    if isinstance(o, int):
        return '(Accept %d)' % o
    return {'block': 'WouldBlock', 'pipe': 'Broken', 'oserror': 'OsErr', 'reset': 'OsErr'}[o]


def py_outcome(o):
    if isinstance(o, int):
        return o
    return sim.io_error(o)


def coq_recv(r):
    """recv result: bytes | 'eof' | 'reset' | 'timeout' | 'timeout0' (errno None) | 'oserror' | 'block'"""
    if isinstance(r, (bytes, bytearray)):
        return '(RData %s)' % C.coq_bytes(r)
    return {'eof': 'REof', 'reset': 'RReset', 'timeout': '(RTimeout true)', 'timeout0': '(RTimeout false)',
            'oserror': 'ROsErr', 'block': 'ROsErr'}[r]


def py_recv(r):
    if isinstance(r, (bytes, bytearray)):
        return bytes(r)
    if r == 'eof':
        return sim.EOF
    if r == 'timeout0':
        return TimeoutError('timed out')        # errno None, like socket.timeout
    return sim.io_error(r)


def coq_blist(pieces):
    return C.coq_list(C.coq_bytes(p) for p in pieces)


def rand_bytes(rng, n, alphabet=None):
    if alphabet:
        return bytes(rng.choice(alphabet) for _ in range(n))
    return bytes(rng.randrange(256) for _ in range(n))


def rand_outcome(rng, maxk=12, perr=0.0, pblock=0.15):
    r = rng.random()
    if r < perr:
        return rng.choice(['pipe', 'oserror'])
    if r < perr + pblock:
        return 'block'
    return rng.choice([0, 1, 1, 2, 3, 4, 5, 7, 9, maxk, 100000])


# ------------------------------------------------------------------------------------------------
# TcpConnection alone
def run_conn_ops(ops):
    """ops: ['q', bytes] | ['f', max, outcome] | ['c'].  Returns per-op observations + socket bytes."""
    from proxy.core.connection import TcpClientConnection
    sock = sim.FakeSock('peer')
    conn = TcpClientConnection(sock, ('1.2.3.4', 5))
    obs = []
    for op in ops:
        ret = 0
        if op[0] == 'q':
            conn.queue(memoryview(bytes(op[1])))
        elif op[0] == 'f':
            sock.send_script[:] = [py_outcome(op[2])]
            try:
                ret = conn.flush(op[1])
            except BrokenPipeError:
                ret = 1000001
            except OSError:
                ret = 1000002
            sock.send_script[:] = []
        elif op[0] == 'c':
            conn.close()
        obs.append(dict(ret=ret, buffer=[bytes(b) for b in conn.buffer], has=bool(conn.has_buffer()),
                        nsent=len(sock.out), closed=bool(conn.closed)))
    return dict(obs=obs, out=sock.out)


def coq_conn_op(op):
    if op[0] == 'q':
        return '(OQueue %s)' % C.coq_bytes(op[1])
    if op[0] == 'f':
        return '(OFlush %d %s)' % (op[1] or 0, coq_outcome(op[2]))
    return 'OClose'


def coq_conn_case(ops, out):
    obs = ['(mkObs %d %s %s %d %s)' % (o['ret'], coq_blist(o['buffer']), C.coq_bool(o['has']), o['nsent'], C.coq_bool(o['closed']))
           for o in out['obs']]
    return 'CConn %s %s %s' % (C.coq_list(coq_conn_op(op) for op in ops), C.coq_list(obs), C.coq_bytes(out['out']))


def gen_conn_ops(rng, n, perr=0.05):
    ops = []
    for _ in range(n):
        r = rng.random()
        if r < 0.35:
            ops.append(['q', rand_bytes(rng, rng.choice([0, 1, 1, 2, 3, 5, 8, 9, 10, 17]))])
        else:
            ops.append(['f', rng.choice([0, 1, 1, 2, 3, 4, 5, 9, 64]), rand_outcome(rng, perr=perr)])
    if rng.random() < 0.3:
        ops.append(['c'])          # close() only at the end: a send on a closed socket is outside the model
    return ops


def conn_oracle(ops, out):
    """independent statement of conservation on the implementation: at every point the bytes the socket took
    followed by the buffered bytes are exactly the bytes queued so far, in order."""
    queued = b''
    prev_sent = 0
    prev_buf = []
    for op, o in zip(ops, out['obs']):
        if op[0] == 'q':
            queued += bytes(op[1])
        have = out['out'][:o['nsent']] + b''.join(o['buffer'])
        if have != queued:
            return 'conservation broken after op %r: socket+buffer=%r queued=%r' % (op, have, queued)
        if o['nsent'] < prev_sent:
            return 'sent bytes shrank'
        if op[0] == 'f' and o['ret'] < 1000000 and o['nsent'] - prev_sent != o['ret']:
            return 'flush returned %d but the socket took %d' % (o['ret'], o['nsent'] - prev_sent)
        if op[0] == 'f' and isinstance(op[2], int) and op[2] > 0 and prev_buf and prev_buf[0] and o['nsent'] == prev_sent:
            return 'no progress although the socket accepted k=%d > 0 with a non-empty head piece' % op[2]
        prev_sent = o['nsent']
        prev_buf = o['buffer']
    return None


# ------------------------------------------------------------------------------------------------
# the per-connection machine: event lists against the real handler classes
TICK = 1024                      # clock ticks per second (exact in binary floating point)
T0 = 1000 * TICK                 # start of every simulated connection

_FLAGS = {}

def timeout_ticks(case):
    """the idle timeout of a case in clock ticks: 'timeout_ticks' (0, 1, ... for boundary values incl. fractions of a
    second) or 'timeout' whole seconds"""
    if case.get('timeout_ticks') is not None:
        return int(case['timeout_ticks'])
    return int(case.get('timeout', 10)) * TICK


def get_flags(max_send=3, threaded=False, tticks=10 * 1024, web=False, static_dir=None, tls=False, srb=None, crb=None):
    key = (max_send, threaded, tticks, web, static_dir, tls, srb, crb)
    if key not in _FLAGS:
        args = ['--max-sendbuf-size', str(max_send)]
        if threaded:
            args.append('--threaded')
        if web:
            args += ['--enable-web-server', '--plugins', 'proxy.plugin.WebServerPlugin']
        if static_dir:
            args += ['--enable-static-server', '--static-server-dir', static_dir]
        if srb:
            args += ['--server-recvbuf-size', str(srb)]      # small recv buffers: pieces that fill the buffer exactly are cheap
        if crb:
            args += ['--client-recvbuf-size', str(crb)]
        if tls:
            # the proxy terminates TLS itself: initialize() wraps the accepted socket and REPLACES self.work
            # (wrap_socket is patched by RelayDriver to hand back the fake socket)
            args += ['--key-file', '/verif-sim/key.pem', '--cert-file', '/verif-sim/cert.pem']
        f = sim.make_flags(args=args)
        f.timeout = tticks / TICK          # 0, fractions of a second and whole seconds alike (exact binary fractions)
        _FLAGS[key] = f
    return _FLAGS[key]


def tunnel_handler_klass():
    """the repository's own BaseTcpTunnelHandler subclass (examples/https_connect_tunnel.py) when present,
    otherwise an identical local subclass"""
    import importlib.util
    p = C.REPO / 'examples' / 'https_connect_tunnel.py'
    if p.exists():
        try:
            spec = importlib.util.spec_from_file_location('verif_https_connect_tunnel', str(p))
            m = importlib.util.module_from_spec(spec)
            spec.loader.exec_module(m)
            return m.HttpsConnectTunnelHandler
        except Exception:
            pass
    from proxy.core.base import BaseTcpTunnelHandler
    from proxy.http.responses import PROXY_TUNNEL_UNSUPPORTED_SCHEME, PROXY_TUNNEL_ESTABLISHED_RESPONSE_PKT

    class HttpsConnectTunnelHandler(BaseTcpTunnelHandler):
        def handle_data(self, data):
            if self.upstream and self.upstream._conn is not None:
                self.upstream.queue(data)
                return None
            self.request.parse(data)
            if not self.request.is_https_tunnel:
                self.work.queue(PROXY_TUNNEL_UNSUPPORTED_SCHEME)
                return True
            assert self.request.is_complete
            self.connect_upstream()
            self.work.queue(PROXY_TUNNEL_ESTABLISHED_RESPONSE_PKT)
            return None
    return HttpsConnectTunnelHandler


class FakeSelector:
    """stands for self.selector of a threaded-mode handler during shutdown()._flush():
    one scripted entry per select() call: None = timed out, otherwise the outcome of the send that follows"""
    def __init__(self, client_sock, script):
        self.sock = client_sock
        self.script = list(script)
        self.calls = 0

    def register(self, fileobj, events, data=None):
        pass

    def unregister(self, fileobj):
        pass

    def modify(self, *a, **k):
        pass

    def close(self):
        pass

    def select(self, timeout=None):
        import selectors
        self.calls += 1
        if not self.script:
            raise BrokenPipeError(errno.EPIPE, 'harness: flush script exhausted')
        item = self.script.pop(0)
        if item is None:
            return []
        self.sock.send_script[:] = [py_outcome(item)]
        key = selectors.SelectorKey(self.sock, self.sock.fd, selectors.EVENT_WRITE, None)
        return [(key, selectors.EVENT_WRITE)]


def ack_packet():
    from proxy.http.responses import PROXY_TUNNEL_ESTABLISHED_RESPONSE_PKT
    return bytes(PROXY_TUNNEL_ESTABLISHED_RESPONSE_PKT)


def int_code(names):
    c = names.get('client', '')
    u = names.get('up0', '')
    return (1 if 'r' in c else 0) + (2 if 'w' in c else 0) + (4 if 'r' in u else 0) + (8 if 'w' in u else 0)


def _up_conn(h, handler):
    """the upstream TcpServerConnection when it is connected"""
    if handler == 'tunnel':
        u = getattr(h, 'upstream', None)
    else:
        u = getattr(h.plugin, 'upstream', None) if h.plugin is not None else None
    if u is not None and getattr(u, '_conn', None) is not None and not u.closed:
        return u
    return None


ONCD = []          # every plugin.on_client_data(raw) call made by a handler: bytes(raw), in order

def install_oncd_log():
    """class-level wrappers (the plugin instance is created inside handle_data, so it cannot be wrapped per instance)"""
    from proxy.http.proxy import HttpProxyPlugin
    from proxy.http.server import HttpWebServerPlugin
    for klass in (HttpProxyPlugin, HttpWebServerPlugin):
        if getattr(klass.on_client_data, '_verif_logged', False):
            continue
        def make(orig):
            def on_client_data(self, raw):
                ONCD.append(bytes(raw))
                return orig(self, raw)
            on_client_data._verif_logged = True
            return on_client_data
        klass.on_client_data = make(klass.on_client_data)


def run_sync(coro):
    """drive a coroutine that never really suspends (the handler's async methods do no awaiting I/O)"""
    try:
        coro.send(None)
    except StopIteration as e:
        return e.value
    coro.close()
    raise RuntimeError('coroutine suspended')


class RelayDriver:
    """one real handler (HttpProtocolHandler or a BaseTcpTunnelHandler subclass) around fake sockets, driven one
    event at a time.  pre_step() materialises and scripts an event, post_step() records what the handler did and the
    oracles seen at the handle_data boundary.  step() = pre_step + handle_events (through sim.Sim.step) + post_step;
    the C20 drivers call pre_step/post_step around the real loops instead."""

    def __init__(self, case, external_shutdown=False):
        from proxy.http.parser import httpParserStates
        self.COMPLETE = httpParserStates.COMPLETE
        install_oncd_log()
        self.case = case
        self.handler = handler = case.get('handler', 'http')
        self.threaded = bool(case.get('threaded'))
        tls = bool(case.get('tls')) and handler == 'http'
        flags = get_flags(case.get('max_send', 3), self.threaded, timeout_ticks(case), bool(case.get('web')),
                          case.get('static_dir'), tls, case.get('srb'), case.get('crb'))
        self.srb, self.crb = case.get('srb'), case.get('crb')
        self.t0 = case.get('t0', T0)
        self.clock = sim.VClock(self.t0 / TICK)
        klass = tunnel_handler_klass() if handler == 'tunnel' else None
        connect_script = [None if x is None else sim.io_error(x) for x in case.get('connect', [])]
        self._wrap_patch = None
        if tls:
            from unittest import mock
            self._wrap_patch = mock.patch('proxy.core.base.tcp_server.wrap_socket', lambda conn, keyfile, certfile: conn)
            self._wrap_patch.start()
        try:
            self.S = S = sim.Sim(flags=flags, clock=self.clock, handler_klass=klass, connect_script=connect_script)
        except BaseException:
            self._stop_wrap_patch()
            raise
        _close = S.close
        def close_all():
            self._stop_wrap_patch()             # threaded run() calls initialize() (and wrap_socket) once more
            _close()
        S.close = close_all
        self.h = h = S.h
        def interest():
            # same as sim.Sim.interest but usable while an asyncio loop is running (threaded run())
            import selectors
            ev = run_sync(h.get_events())
            fds = {s_.fd: s_.name for s_ in [S.client] + S.upstreams}
            out = {}
            for fd, m in ev.items():
                name = fds.get(fd, 'fd%d' % fd)
                out[name] = ('r' if m & selectors.EVENT_READ else '') + ('w' if m & selectors.EVENT_WRITE else '')
            return out, ev
        S.interest = interest
        self.external_shutdown = external_shutdown
        # shutdown() is performed after the observations of the step have been taken (threaded shutdown flushes):
        # by step() below, or by the caller (real Threadless._cleanup / real run()) when external_shutdown
        def only_mark():
            if external_shutdown:
                S.torn = True
        S.teardown = only_mark
        if self.threaded and handler == 'http':
            try:
                h.selector.close()
            except Exception:
                pass
            h.selector = FakeSelector(S.client, list(case.get('sel', [])) + ['pipe'])
        self.steps, self.oracles, self.executed = [], [], []
        self.uprcvd, self.clrcvd = b'', b''
        self.cq = cq = []                       # every piece queued for the client, in order
        def wrap_work_queue():
            work = h.work
            if getattr(work.queue, '_verif_logged', False):
                return
            orig_queue = work.queue
            def client_queue(mv):
                cq.append(bytes(mv))
                return orig_queue(mv)
            client_queue._verif_logged = True
            work.queue = client_queue
        wrap_work_queue()
        # threaded run() calls initialize() again; with a TLS listener that REPLACES self.work once more
        orig_initialize = h.initialize
        def initialize():
            orig_initialize()
            wrap_work_queue()
        h.initialize = initialize
        self.rec = rec = {}
        orig_hd = h.handle_data
        drv = self
        def handle_data(data):
            u = _up_conn(h, handler)
            rec.update(called=True, data=bytes(data), cq0=len(cq), up_before=u is not None, oncd0=len(ONCD),
                       ub0=len(u.buffer) if u is not None else 0,
                       complete_before=(h.request.state == drv.COMPLETE))
            def snap():
                u1 = _up_conn(h, handler)
                rec['newc'] = cq[rec['cq0']:]
                rec['handed'] = ONCD[rec['oncd0']:]
                rec['newu'] = ([bytes(b) for b in u1.buffer[rec['ub0']:]] if rec['up_before'] else
                               [bytes(b) for b in u1.buffer]) if u1 is not None else []
            try:
                r = orig_hd(data)
            except BaseException as e:
                rec['exc'] = type(e).__name__
                snap()
                raise
            rec['ret'] = r
            snap()
            return r
        h.handle_data = handle_data
        self.final_res = 0
        self._is_inactive = getattr(h, 'is_inactive', None)
        self.cio_calls = 0              # send()/recv() calls made on the client socket
        csock = S.client
        orig_recv, orig_send = csock.recv, csock.send
        def c_recv(n):
            drv.cio_calls += 1
            return orig_recv(n)
        def c_send(data):
            drv.cio_calls += 1
            return orig_send(data)
        csock.recv, csock.send = c_recv, c_send
        self.client_plan = list(case.get('client_plan', []))
        self.up_plan = list(case.get('up_plan', []))
        self._cur = None

    def _stop_wrap_patch(self):
        if self._wrap_patch is not None:
            try:
                self._wrap_patch.stop()
            except RuntimeError:
                pass
            self._wrap_patch = None

    # -- one event
    def pre_step(self, ev0):
        """materialise the event: readable descriptors take the next piece of the planned stream (a piece that is not
        consumed in this step -- descriptor not registered -- goes back to the plan, so each direction is a gap-free
        byte stream); script the outcome of every I/O call of this step.  Returns (readable names, writable names)."""
        S = self.S
        ev = dict(ev0)
        ev['r'] = list(ev0.get('r', ()))
        took_c = took_u = False
        def take(plan, limit):
            x = plan.pop(0)
            if limit and isinstance(x, (bytes, bytearray)) and len(x) > limit:
                plan.insert(0, x[limit:])          # one recv() returns at most the recv buffer size
                x = x[:limit]
            return x
        if ev0.get('cr') and 'c_recv' not in ev0 and self.client_plan:
            ev['c_recv'] = take(self.client_plan, self.crb); took_c = True
            ev['r'].append('client')
        if ev0.get('ur') and 'u_recv' not in ev0 and self.up_plan and S.upstreams:
            ev['u_recv'] = take(self.up_plan, self.srb); took_u = True
            ev['r'].append('up0')
        self.executed.append(ev)
        self.clock.t = ev['now'] / TICK
        names, _ = S.interest()
        self.rec.clear()
        S.client.inq[:] = [py_recv(ev['c_recv'])] if ev.get('c_recv') is not None else []
        S.client.send_script[:] = [py_outcome(ev['c_send'])] if ev.get('c_send') is not None else []
        up = S.upstreams[0] if S.upstreams else None
        if up is not None:
            up.inq[:] = [py_recv(ev['u_recv'])] if ev.get('u_recv') is not None else []
            up.send_script[:] = [py_outcome(ev['u_send'])] if ev.get('u_send') is not None else []
        self._cur = (ev, names, up, took_c, took_u)
        self._cio0 = self.cio_calls
        self._log0 = {s_.name: len(s_.log) for s_ in [S.client] + S.upstreams}
        return ev.get('r', ()), ev.get('w', ())

    def post_step(self, res):
        S, h, handler, rec, cq = self.S, self.h, self.handler, self.rec, self.cq
        ev, names, up, took_c, took_u = self._cur
        self._cur = None
        if up is not None and isinstance(ev.get('u_recv'), (bytes, bytearray)) and ev['u_recv'] and not up.inq:
            self.uprcvd += bytes(ev['u_recv'])          # the scripted piece was taken by a recv() call
        c_taken = ev.get('c_recv') is not None and not S.client.inq
        u_taken = up is not None and ev.get('u_recv') is not None and not up.inq
        if took_c and S.client.inq:
            self.client_plan.insert(0, ev['c_recv'])
        if took_u and up is not None and up.inq:
            self.up_plan.insert(0, ev['u_recv'])
        for s_ in [S.client] + S.upstreams:
            s_.inq[:] = []
            s_.send_script[:] = []
        # the oracles observed at the handle_data boundary
        orc = dict(req='inc', cdata='nothing')
        if rec.get('called'):
            u = _up_conn(h, handler)
            newc, newu = rec['newc'], rec['newu']
            if rec['up_before'] and (handler == 'tunnel' or rec['complete_before']):
                self.clrcvd += rec['data']
            if handler == 'tunnel':
                if not rec['up_before']:
                    if 'exc' in rec:
                        orc['req'] = 'raise'
                    elif u is not None:
                        orc['req'] = ['proxy', True, b'', b'']
                    elif rec.get('ret') is True:
                        orc['req'] = ['error', newc]
                    elif newc:
                        orc['req'] = ['serve', newc, b'']
            elif not rec['complete_before']:
                is_proxy = h.plugin is not None and type(h.plugin).__name__ == 'HttpProxyPlugin'
                handed = rec.get('handed', [])          # e222aa4: request.buffer handed to plugin.on_client_data in this call
                rem = handed[0] if handed else b''
                def rem_cdata(tunnel):
                    if not handed:
                        return 'nothing'
                    if 'exc' in rec:
                        return 'raise'
                    if rec.get('ret') is True:
                        return ['proto', []]
                    if is_proxy and not tunnel and len(newu) > 1:
                        pr = getattr(h.plugin, 'pipeline_request', None)
                        return ['forward', list(newu[1:]), bool(pr is not None and pr.is_complete and pr.is_connection_upgrade)]
                    return 'nothing'
                if 'exc' in rec and not handed:
                    orc['req'] = 'raise'
                elif is_proxy and u is not None and (rec.get('ret') is not True or handed):
                    tunnel = bool(h.request.is_https_tunnel)
                    orc['req'] = ['proxy', tunnel, b'' if tunnel else (newu[0] if newu else b''), rem]
                    orc['cdata'] = rem_cdata(tunnel)
                    self.clrcvd += rem
                elif handed:
                    orc['req'] = ['serve', newc, rem]
                    orc['cdata'] = rem_cdata(False)
                elif rec.get('ret') is True:
                    orc['req'] = ['error', newc]
                elif h.request.state == self.COMPLETE:
                    orc['req'] = ['serve', newc, b'']
                elif newc:
                    orc['req'] = ['serve', newc, b'']      # cannot happen; would show up as a mismatch
            else:
                is_proxy = h.plugin is not None and type(h.plugin).__name__ == 'HttpProxyPlugin'
                if 'exc' in rec:
                    orc['cdata'] = 'raise'
                elif rec.get('ret') is True:
                    orc['cdata'] = ['proto', newc]
                elif is_proxy and rec['up_before'] and newu and not h.request.is_https_tunnel:
                    pr = getattr(h.plugin, 'pipeline_request', None)
                    orc['cdata'] = ['forward', list(newu), bool(pr is not None and pr.is_complete and pr.is_connection_upgrade)]
                elif newc:
                    orc['cdata'] = ['reply', newc]
        self.oracles.append(orc)
        u = _up_conn_any(S, h, handler)
        probe = ev.get('probe', ev['now'])
        inactive = None
        if handler == 'http':
            saved = self.clock.t
            self.clock.t = probe / TICK
            inactive = bool(self._is_inactive())
            self.clock.t = saved
        self.steps.append(dict(int=int_code(names), res=res, csent=len(S.client.out),
                               usent=len(S.upstreams[0].out) if S.upstreams else 0,
                               cpend=sum(len(b) for b in h.work.buffer),
                               upend=sum(len(b) for b in u.buffer) if u is not None else 0,
                               la=round(getattr(h, 'last_activity', self.t0 / TICK) * TICK),
                               inactive=inactive, uprcvd_len=len(self.uprcvd), clrcvd_len=len(self.clrcvd),
                               c_taken=c_taken, u_taken=u_taken, now=ev['now'], probe=probe,
                               cio=self.cio_calls > self._cio0,
                               blocked=[s_.name for s_ in [S.client] + S.upstreams
                                        if any(l[0] == 'blocked_recv' for l in s_.log[self._log0.get(s_.name, 0):])],
                               established=bool(S.upstreams)))
        self.final_res = res
        return res

    def step(self, ev0):
        r, w = self.pre_step(ev0)
        x = self.S.step(r, w)
        res = self.post_step(0 if x == 'ok' else 1 if x == 'teardown' else 2)
        if res and not self.external_shutdown:
            sim.Sim.teardown(self.S)          # h.shutdown(), exceptions recorded in S.trace
        return res

    def finish(self):
        S, h = self.S, self.h
        u = _up_conn_any(S, h, self.handler)
        fin = dict(res=self.final_res, cout=S.client.out, uout=S.upstreams[0].out if S.upstreams else b'',
                   cpend=b''.join(bytes(b) for b in h.work.buffer),
                   upend=b''.join(bytes(b) for b in u.buffer) if u is not None else b'',
                   uprcvd=self.uprcvd, clrcvd=self.clrcvd, cclosed=bool(S.client.closed),
                   uclosed=0 if not S.upstreams else (2 if S.upstreams[0].closed else 1),
                   int=int_code(S.interest()[0]) if not (self.final_res or S.client.closed) else 0,
                   shutdown_exc=getattr(S, 'shutdown_exc', None) and type(S.shutdown_exc).__name__,
                   trace=list(S.trace), queued=b''.join(self.cq),
                   client_log=[l for l in S.client.log if l[0] in ('send', 'send_err', 'close')][-40:],
                   up_left=sum(len(x) for x in self.up_plan if isinstance(x, (bytes, bytearray))),
                   up_left_first=next((x if isinstance(x, str) else 'data' for x in self.up_plan), None))
        S.close()
        return dict(steps=self.steps, oracles=self.oracles, fin=fin, events=self.executed)


def run_relay(case):
    """drive one real handler through case['events']; returns observations + the oracles seen at handle_data"""
    d = RelayDriver(case)
    try:
        for ev0 in case['events']:
            if d.step(ev0):
                break
    except BaseException:
        d.S.close()
        raise
    return d.finish()


def _up_conn_any(S, h, handler):
    """upstream connection object whose buffer should be reported (connected, even if closed by shutdown)"""
    if handler == 'tunnel':
        u = getattr(h, 'upstream', None)
    else:
        u = getattr(h.plugin, 'upstream', None) if h.plugin is not None else None
    if u is not None and getattr(u, '_conn', None) is not None:
        return u
    return None


# ---- Coq terms
def coq_Z(n):
    return '(%d)%%Z' % n


def coq_req(o):
    if o == 'inc':
        return 'RIncomplete'
    if o == 'raise':
        return 'RRaise'
    if o[0] == 'error':
        return '(RError %s)' % coq_blist(o[1])
    if o[0] == 'serve':
        return '(RServe %s %s)' % (coq_blist(o[1]), C.coq_bytes(o[2]))
    if o[0] == 'proxy':
        return '(RProxy %s %s %s)' % (C.coq_bool(o[1]), C.coq_bytes(o[2]), C.coq_bytes(o[3]))
    raise ValueError(o)


def coq_cdata(o):
    if o == 'nothing':
        return 'DNothing'
    if o == 'raise':
        return 'DRaise'
    if o[0] == 'proto':
        return '(DProto %s)' % coq_blist(o[1])
    if o[0] == 'reply':
        return '(DReply %s)' % coq_blist(o[1])
    if o[0] == 'forward':
        return '(DForward %s %s)' % (coq_blist(o[1]), C.coq_bool(o[2]))
    raise ValueError(o)


def coq_event(ev, orc, t0):
    r, w = ev.get('r', ()), ev.get('w', ())
    flags = (1 if 'client' in r else 0) + (2 if 'client' in w else 0) + (4 if 'up0' in r else 0) + (8 if 'up0' in w else 0)
    cs = coq_outcome(ev['c_send']) if ev.get('c_send') is not None else '(Accept 1000000)'
    us = coq_outcome(ev['u_send']) if ev.get('u_send') is not None else '(Accept 1000000)'
    off, poff = ev['now'] - t0, ev.get('probe', ev['now']) - t0
    assert off >= 0 and poff >= 0
    if ev.get('c_recv') is None and ev.get('u_recv') is None and orc['req'] == 'inc' and orc['cdata'] == 'nothing':
        return 'CW %d %d %s %s %d' % (off, flags, cs, us, poff)
    return 'CE %d %d %s %s %s %s %s %s %d' % (
        off, flags, cs, us,
        coq_recv(ev['c_recv']) if ev.get('c_recv') is not None else 'ROsErr',
        coq_recv(ev['u_recv']) if ev.get('u_recv') is not None else 'ROsErr',
        coq_req(orc['req']), coq_cdata(orc['cdata']), poff)


def coq_relay_case(case, out):
    handler = case.get('handler', 'http')
    n = len(out['steps'])
    t0 = case.get('t0', T0)
    evs = [coq_event(ev, orc, t0) for ev, orc in zip(out['events'][:n], out['oracles'][:n])]
    cfg = '(mkCfg %d ACK %s %s)' % (case.get('max_send', 3),
                                  coq_Z(timeout_ticks(case)), C.coq_bool(not case.get('threaded')))
    exp = ['SO %d %d %d %d %d %d %d %s' % (s['int'], s['res'], s['csent'], s['usent'], s['cpend'], s['upend'],
                                           s['la'] - t0,
                                           C.coq_bool(s['inactive']) if s['inactive'] is not None else 'false')
           for s in out['steps']]
    f = out['fin']
    fin = '(mkFO %d %s %s %d %d %d %d %s %d %d)' % (
        f['res'], C.coq_bytes(f['cout']), C.coq_bytes(f['uout']), len(f['cpend']), len(f['upend']),
        len(f['uprcvd']), len(f['clrcvd']), C.coq_bool(f['cclosed']), f['uclosed'], f['int'])
    sel = C.coq_list(('None' if x is None else '(Some %s)' % coq_outcome(x)) for x in list(case.get('sel', [])) + ['pipe']) \
        if case.get('threaded') else '[]'
    return 'CRelay %s %s %s %s %s %s %s' % ('KTunnel' if handler == 'tunnel' else 'KHttp', cfg,
                                           coq_Z(t0), C.coq_list(evs), sel, C.coq_list(exp), fin)


# ------------------------------------------------------------------------------------------------
# generation of event lists
def cut(rng, data, maxpieces=4):
    """random segmentation of data into 1..maxpieces non-empty pieces"""
    data = bytes(data)
    if len(data) <= 1:
        return [data] if data else []
    k = rng.randrange(1, min(maxpieces, len(data)) + 1)
    cuts = sorted(rng.sample(range(1, len(data)), k - 1))
    return [data[a:b] for a, b in zip([0] + cuts, cuts + [len(data)])]


def connect_request(rng):
    host = rng.choice(['h.example', 'a.b', 'origin.test'])
    port = rng.choice([443, 8443, 9])
    return ('CONNECT %s:%d HTTP/1.1\r\nHost: %s:%d\r\n\r\n' % (host, port, host, port)).encode()


def http_request(rng, keepalive=True, variants=False):
    host = rng.choice(['h.example', 'origin.test'])
    path = rng.choice(['/', '/a', '/x/y?z=1'])
    extra = rng.choice(['', 'Accept: */*\r\n', 'Proxy-Connection: keep-alive\r\n', 'X-A: b\r\n'])
    version = 'HTTP/1.1'
    if variants:
        # requests that do NOT ask for a persistent connection (round-3 seed C01-r3-2: the relay must still carry every
        # response the upstream sends - interim 1xx then final - until a PEER ends the exchange)
        r = rng.random()
        if r < 0.2:
            extra += 'Connection: close\r\n'
        elif r < 0.3:
            version = 'HTTP/1.0'
        elif r < 0.36:
            version = 'HTTP/1.0'; extra += 'Connection: keep-alive\r\n'
        elif r < 0.42:
            extra += 'Connection: Keep-Alive\r\n'
    return ('GET http://%s%s %s\r\nHost: %s\r\n%s\r\n' % (host, path, version, host, extra)).encode()


def web_request(rng, path):
    return ('GET %s HTTP/1.1\r\nHost: localhost\r\n\r\n' % path).encode()


def response_bytes(rng, kind=None):
    """a well-formed HTTP/1.x response in one of the framings named by the property"""
    kind = kind or rng.choice(['cl', 'chunked', 'chunked-ext', 'chunked-trailer', 'close', 'interim', 'cl0', 'binary'])
    body = rand_bytes(rng, rng.choice([0, 1, 3, 5, 8, 13, 21]))
    if kind == 'cl':
        return b'HTTP/1.1 200 OK\r\nContent-Length: %d\r\n\r\n' % len(body) + body
    if kind == 'cl0':
        return b'HTTP/1.1 204 No Content\r\nContent-Length: 0\r\n\r\n'
    if kind == 'binary':
        body = bytes(rng.choice([0, 255, 13, 10, 128]) for _ in range(rng.choice([4, 9, 17])))
        return b'HTTP/1.0 200 OK\r\nContent-Length: %d\r\n\r\n' % len(body) + body
    if kind == 'close':
        return b'HTTP/1.0 200 OK\r\nConnection: close\r\n\r\n' + body
    if kind == 'interim':
        return b'HTTP/1.1 100 Continue\r\n\r\nHTTP/1.1 200 OK\r\nContent-Length: %d\r\n\r\n' % len(body) + body
    chunks = cut(rng, body, 3)
    out = b'HTTP/1.1 200 OK\r\nTransfer-Encoding: chunked\r\n\r\n'
    for ch in chunks:
        ext = b';x=1' if kind == 'chunked-ext' else b''
        out += b'%x' % len(ch) + ext + b'\r\n' + ch + b'\r\n'
    out += b'0\r\n' + (b'X-T: v\r\n' if kind == 'chunked-trailer' else b'') + b'\r\n'
    return out


def malformed_response(rng):
    return rng.choice([
        b'HTTP/1.1 200 OK\r\nTransfer-Encoding: chunked\r\n\r\nzz\r\nhello\r\n0\r\n\r\n',
        b'HTTP/1.1 200 OK\r\nContent-Length: abc\r\n\r\nxx',
        b'HTTP/1.1 200 OK\r\nTransfer-Encoding: chunked\r\n\r\n5 5\r\nhello\r\n0\r\n\r\n',
        b'HTTP/1.1 200 OK\r\nContent-Length: 1 2\r\n\r\nxyz',
    ])


def gen_relay(rng, profile='relay', n_events=None, max_send=None, handler=None):
    """one event list.  profile: 'relay' (C01: long-lived exchanges), 'teardown' (C07: ends of exchanges,
    error responses, web replies), 'timed' (C20: sparse events with large clock gaps)."""
    max_send = max_send or rng.randrange(1, 10)
    handler = handler or ('tunnel' if rng.random() < 0.12 else 'http')
    case = dict(kind='relay', profile=profile, handler=handler, max_send=max_send, timeout=rng.choice([1, 2, 10]),
                t0=T0, threaded=False, web=False, connect=[], events=[], sel=[])
    # configuration dimensions: the proxy terminates TLS itself (initialize() then replaces self.work), and boundary
    # values of the idle timeout: 0 ("for all timeout values"), one tick, fractions of a second
    case['tls'] = handler == 'http' and rng.random() < (0.3 if profile == 'timed' else 0.12)
    # small recv buffers (so that pieces filling the buffer EXACTLY, and one byte less / more, are cheap):
    # in most tunnel-handler cases (its upstream socket stays in timeout mode) and in part of the others
    if profile != 'timed' and rng.random() < (0.75 if handler == 'tunnel' else 0.3):
        case['srb'] = rng.choice([7, 16])
        if rng.random() < 0.4:
            case['crb'] = rng.choice([16, 64])
    if profile == 'timed' and rng.random() < 0.25:
        case['timeout_ticks'] = rng.choice([0, 0, 1, 3, 512])
    r = rng.random()
    if handler == 'tunnel':
        exchange = 'connect' if r < 0.9 else 'notconnect'
    elif profile == 'teardown':
        exchange = 'connect' if r < 0.2 else 'http' if r < 0.5 else 'web404' if r < 0.62 else 'webroute' if r < 0.72 \
            else 'badreq' if r < 0.82 else 'connectfail' if r < 0.92 else 'malformed-upstream'
    elif profile == 'timed':
        # C20 does not depend on the C01 / C07 repairs: no malformed upstream bytes, no upstream send failures
        exchange = 'connect' if r < 0.5 else 'http' if r < 0.92 else 'web404'
    else:
        exchange = 'connect' if r < 0.45 else 'http' if r < 0.9 else 'malformed-upstream' if r < 0.95 else 'web404'
    case['exchange'] = exchange
    if exchange in ('web404', 'webroute'):
        case['web'] = True
    if exchange == 'connectfail':
        case['connect'] = [rng.choice(['refused', 'timeout', 'gaierror', 'unreach'])]
    # client side plan: first request in pieces, then data
    if exchange in ('connect', 'connectfail'):
        first = connect_request(rng) if rng.random() < 0.7 or handler == 'tunnel' else http_request(rng)
    elif exchange == 'notconnect':
        first = http_request(rng)
    elif exchange in ('http', 'malformed-upstream'):
        first = http_request(rng, variants=(profile != 'timed'))
    elif exchange == 'web404':
        first = web_request(rng, rng.choice(['/nothing-here', '/', '/favicon.ico']))
    elif exchange == 'webroute':
        first = web_request(rng, '/http-route-example')
    else:
        first = rng.choice([b'GET / HTTP/1.1\r\nHost\r\n\r\n', b'\x16\x03\x01\x02\x00\x01\x00\r\n\r\n', b'NOT A REQUEST\r\n\r\n',
                            b'GET http://h.example:99999999999999999999/ HTTP/1.1\r\n\r\n'])
    cut_first = cut(rng, first, rng.choice([1, 1, 2, 3]))
    client_plan = list(cut_first)
    n_events = n_events or rng.choice([12, 20, 30, 40])
    n_client_data = rng.choice([0, 1, 2, 4])
    n_up = rng.choice([1, 3, 6, 10]) if profile != 'timed' else rng.choice([0, 1, 2])
    if exchange == 'connect':
        for _ in range(n_client_data):
            client_plan.append(rand_bytes(rng, rng.choice([1, 2, max_send, max_send + 1, 2 * max_send + 1, 11])))
        up_plan = [rand_bytes(rng, rng.choice([1, 2, max(1, max_send - 1), max_send, max_send + 1, 3 * max_send, 17])) for _ in range(n_up)]
    elif exchange == 'http':
        resp = response_bytes(rng)
        if rng.random() < 0.3 and profile != 'timed':
            resp += response_bytes(rng)          # a second, pipelined response
        up_plan = cut(rng, resp, rng.choice([1, 2, 4, 7]))
        if rng.random() < 0.4:
            client_plan += cut(rng, http_request(rng), rng.choice([1, 2]))      # a pipelined / keep-alive request
    elif exchange == 'malformed-upstream':
        up_plan = cut(rng, malformed_response(rng), rng.choice([1, 2, 3]))
    elif exchange == 'webroute':
        up_plan = []
        if rng.random() < 0.5:
            client_plan += cut(rng, web_request(rng, '/http-route-example'), 2)
    else:
        up_plan = []
    # e222aa4: segment boundaries NOT aligned with the end of the first request: the bytes that follow it
    # (tunnel payload right behind the CONNECT, a pipelined request) share a segment with its last bytes;
    # cuts at end-1, end, end+1, end+2 and at random positions.  (The example tunnel class drops such bytes: aligned there.)
    if handler == 'http' and exchange in ('connect', 'http', 'webroute') and rng.random() < 0.55:
        L = len(first)
        follow = [x for x in client_plan[len(cut_first):] if isinstance(x, (bytes, bytearray))]
        if exchange == 'connect' and (not follow or rng.random() < 0.5):
            follow = [rng.choice([b'\x16\x03\x01hello', b'\x00', rand_bytes(rng, rng.choice([1, 2, max_send + 1, 9]))])] + follow
        if follow:
            stream = first + b''.join(follow)
            pts = set()
            pts.add(rng.choice([L - 1, L + 1, L + 1, L + 2, L + len(follow[0]), rng.randrange(1, len(stream))]))
            for _ in range(rng.choice([0, 1, 2])):
                pts.add(rng.choice([L - 1, L, L + 1, rng.randrange(1, len(stream))]))
            pts = sorted(x for x in pts if 0 < x < len(stream))
            merged = [stream[a:b] for a, b in zip([0] + pts, pts + [len(stream)])]
            tail = [x for x in client_plan[len(cut_first):] if not isinstance(x, (bytes, bytearray))]
            client_plan = merged + tail
            case['unaligned'] = True
    if case.get('srb') and exchange in ('connect', 'http'):
        # upstream pieces of exactly the recv buffer size (the upstream then pauses: nothing else is queued in that
        # step), one byte less, one byte more (split by recv into a full buffer and one byte), two buffers
        b = case['srb']
        if exchange == 'connect':
            up_plan = [rand_bytes(rng, rng.choice([b, b, b - 1, b + 1, 2 * b, 1])) for _ in range(max(2, n_up))]
        else:
            data = b''.join(x for x in up_plan if isinstance(x, (bytes, bytearray)))
            up_plan = [data[i:i + b] for i in range(0, len(data), b)]
    # how the exchange ends
    end = rng.random()
    if profile == 'teardown':
        ending = 'up-eof' if end < 0.45 else 'up-reset' if end < 0.55 else 'client-eof' if end < 0.7 else \
            'up-send-error' if end < 0.8 else 'up-timeout' if end < 0.85 else 'none'
    elif profile == 'timed':
        ending = 'up-eof' if end < 0.2 else 'client-eof' if end < 0.27 else 'client-reset' if end < 0.31 else \
            'client-send-error' if end < 0.35 else 'none'
    else:
        ending = 'up-eof' if end < 0.25 else 'client-eof' if end < 0.32 else 'client-reset' if end < 0.36 else \
            'up-send-error' if end < 0.40 else 'client-send-error' if end < 0.44 else 'none'
    case['ending'] = ending
    if ending in ('up-eof',):
        up_plan.append('eof')
    elif ending == 'up-reset':
        up_plan.append(rng.choice(['reset', 'oserror']))
    elif ending == 'up-timeout':
        up_plan.append(rng.choice(['timeout', 'timeout0']) if profile != 'teardown' else 'timeout')
    elif ending == 'client-eof':
        client_plan.append('eof')
    elif ending == 'client-reset':
        client_plan.append(rng.choice(['reset', 'timeout', 'oserror']))
    perr_c = 0.05 if ending == 'client-send-error' else 0.0
    perr_u = 0.15 if ending == 'up-send-error' else 0.0
    now = T0
    slow_client = rng.random() < 0.4          # the client reads slowly: few writable reports, small accepts
    case['client_plan'] = client_plan
    case['up_plan'] = up_plan
    # spurious client wake-ups (readable, nothing to read: recv raises and the handler tears the reading side down) are a
    # feature of SOME cases, so that most histories have no teardown cause other than the scripted ending
    spurious = rng.random() < 0.15
    for i in range(n_events):
        gap = rng.choice([0, 1, 5, 300]) if profile != 'timed' else rng.choice([1, 200, TICK, max(timeout_ticks(case) - 1, 0),
                                                                                timeout_ticks(case), timeout_ticks(case) + 1])
        now += gap
        ev = dict(now=now, r=[], w=[])
        if rng.random() < (0.6 if i < 4 else 0.35):
            ev['cr'] = True                       # client readable: next piece of the client stream
        elif spurious and rng.random() < 0.12:
            ev['r'].append('client')              # spurious wake-up: recv would block
        if rng.random() < 0.5:
            ev['ur'] = True                       # upstream readable: next piece of the upstream stream
        if rng.random() < (0.35 if slow_client else 0.8):
            ev['w'].append('client')
            ev['c_send'] = rand_outcome(rng, maxk=max_send, perr=perr_c, pblock=0.25 if slow_client else 0.1)
        if rng.random() < 0.7:
            ev['w'].append('up0')
            ev['u_send'] = rand_outcome(rng, maxk=max_send, perr=perr_u)
        d = timeout_ticks(case)
        ev['probe'] = now + rng.choice([0, 1, max(d - 1, 0), d, d + 1, d + TICK])
        case['events'].append(ev)
    # let pending output drain at the end (the client "keeps reading")
    for _ in range(rng.choice([0, 6, 25])):
        now += 1
        case['events'].append(dict(now=now, r=[], w=['client', 'up0'], c_send=rng.choice([1, 2, max_send, 100000]),
                                   u_send=100000, probe=now))
    return case


def net_imports():
    """Require line of the generated case files; the tunnel acknowledgement packet (read from /repo) is named once"""
    return ('From PM Require Import Lib.Bytes Net.Conn Net.ConnCases Net.Handler Net.Tunnel Net.RelayCases.\n'
            'From Coq Require Import ZArith.\nOpen Scope N_scope.\nDefinition ACK : bytes := %s.' % C.coq_bytes(ack_packet()))


# ------------------------------------------------------------------------------------------------
# C20: the real loops around one simulated connection
def reaper_constants():
    """(select timeout + wait timeout, cleanup timeout) in microseconds, read from /repo"""
    from proxy.common.constants import (DEFAULT_SELECTOR_SELECT_TIMEOUT, DEFAULT_WAIT_FOR_TASKS_TIMEOUT,
                                        DEFAULT_INACTIVE_CONN_CLEANUP_TIMEOUT)
    from fractions import Fraction
    period = Fraction(str(DEFAULT_SELECTOR_SELECT_TIMEOUT)) + Fraction(str(DEFAULT_WAIT_FOR_TASKS_TIMEOUT))
    cleanup = Fraction(str(DEFAULT_INACTIVE_CONN_CLEANUP_TIMEOUT))
    pu, cu = period * 1000000, cleanup * 1000000
    assert pu.denominator == 1 and cu.denominator == 1, 'constants are not whole microseconds'
    return int(pu), int(cu)


class GatedWork:
    """a second work B in the same executor whose handle_events coroutine stays suspended (its plugin awaits a slow
    future) until the script releases it; never inactive, nothing to select"""
    def __init__(self):
        self.gate = None
        self.calls = 0
        self.shut = False

    async def handle_events(self, readables, writables):
        self.calls += 1
        await self.gate
        return False

    async def get_events(self):
        return {}

    def is_inactive(self):
        return False

    def shutdown(self):
        self.shut = True


def run_reaper_threadless(case):
    """the REAL Threadless._run_forever / _run_once (task creation, asyncio.wait, teardown -> _cleanup) /
    _cleanup_inactive / _cleanup on a real asyncio loop, around the simulated work A and, when the case says so, a
    second work B whose handle_events task stays unfinished across many iterations.  Only _selected_events (the
    selector) is replaced by the script."""
    import asyncio, threading
    from proxy.core.work.threadless import Threadless
    d = RelayDriver(case, external_shutdown=True)
    iters = case['iters']
    busy = [tuple(x) for x in case.get('b_busy', [])]      # [start, end): B's task is started at `start`, released at `end`
    WID, BID = 4242, 4343
    log = []
    st = dict(i=0, cur=None, inflight=False)
    hres = []
    B = GatedWork()

    class LoopProxy:
        def __init__(self, loop):
            self._loop = loop
        def create_task(self, coro):
            return self._loop.create_task(coro)
        def stop(self):
            pass

    class TwoWorks(Threadless):
        _lp = None

        @property
        def loop(self):
            return self._lp

        def receive_from_work_queue(self):
            return False

        def work_queue_fileno(self):
            return None

        def work(self, *args):
            pass

        async def _selected_events(self):
            i = st['i'] - 1
            it = iters[i]
            out = {}
            for (b0, b1) in busy:
                if b1 == i and B.gate is not None and not B.gate.done():
                    B.gate.set_result(None)                 # B's slow future resolves now
            for (b0, b1) in busy:
                if b0 == i and BID in self.works and not any(getattr(t, '_work_id', None) == BID for t in self.unfinished):
                    B.gate = asyncio.get_event_loop().create_future()
                    out[BID] = ([], [])
            if it.get('ev') is not None and WID in self.works:
                r, w = d.pre_step(it['ev'])
                st['cur']['ev_index'] = len(d.executed) - 1
                st['inflight'] = True
                names, _ = d.S.interest()
                socks = d.S.socks()
                rr = [socks[n].fd for n in r if n in socks and 'r' in names.get(n, '') and not socks[n].closed]
                ww = [socks[n].fd for n in w if n in socks and 'w' in names.get(n, '') and not socks[n].closed]
                out[WID] = (rr, ww)
            return out, True

        async def _run_once(self):
            i = st['i']
            if i >= len(iters):
                return True
            st['i'] += 1
            cur = dict(swept=False, fate=0, ev_index=None, unfinished=False)
            st['cur'] = cur
            log.append(cur)
            r = await super()._run_once()
            if st['inflight']:
                st['inflight'] = False
                res = hres[-1] if hres else 0
                d.post_step(res)
                if res:
                    cur['fate'] = 1
            cur['unfinished'] = len(self.unfinished) > 0
            d.clock.t = iters[i]['t'] / TICK
            return r

        def _cleanup_inactive(self):
            cur = log[-1]
            cur['swept'] = True
            before = WID in self.works
            super()._cleanup_inactive()
            if before and WID not in self.works:
                cur['fate'] = 2

    orig_he = d.h.handle_events
    async def handle_events(readables, writables):
        try:
            r = await orig_he(readables, writables)
        except BaseException:
            hres.append(2)
            raise
        hres.append(1 if r else 0)
        k = st['cur'].get('ev_index') if st['cur'] else None
        if not r and k is not None and d.executed[k].get('slow'):
            # the work's OWN handle_events really suspends here (a plugin hook awaiting something slower than the loop's
            # 1 ms wait): its task stays in Threadless.unfinished while the connection goes idle (round-4 seed C20-r4-2)
            await asyncio.sleep(0.005)
        return r
    d.h.handle_events = handle_events
    loop = asyncio.new_event_loop()
    try:
        tl = TwoWorks('1', None, d.S.flags)
        tl._lp = LoopProxy(loop)
        tl.running = threading.Event()
        tl.works[WID] = d.h
        if busy:
            tl.works[BID] = B
        loop.run_until_complete(tl._run_forever())
        for t in list(tl.unfinished):
            t.cancel()
        if tl.unfinished:
            loop.run_until_complete(asyncio.gather(*tl.unfinished, return_exceptions=True))
        f = 0
        for cur in log:                      # a fate, once reached, stays
            f = cur['fate'] or f
            cur['fate'] = f
    except BaseException:
        d.S.close()
        raise
    finally:
        loop.close()
    out = d.finish()
    out['log'] = log
    out['alive'] = WID in tl.works
    out['b_calls'] = B.calls
    return out


class HarnessStop(Exception):
    pass


class LoopSelector:
    """self.selector of a threaded-mode handler for the WHOLE life of run(): main loop (one scripted iteration per
    select() call) and then shutdown()._flush() (scripted send outcomes)."""
    def __init__(self, d, iters, flush_script, hev):
        import selectors
        self.d, self.iters, self.flush = d, iters, list(flush_script) + ['pipe']
        self.hev = hev               # results of handle_events, filled by the wrapper
        self.i = 0
        self.inflight = False
        self.phase = 'main'
        self.reg = {}
        self.n_main = 0
        self.log = []

    def register(self, fileobj, events, data=None):
        if not isinstance(fileobj, int):
            self._finish_inflight()
            self.phase = 'flush'
            return
        self.reg[fileobj] = events

    def unregister(self, fileobj):
        if isinstance(fileobj, int):
            self.reg.pop(fileobj, None)
            # handle_events of this iteration is over: the clock moves on to the next is_inactive() check
            if self.i < len(self.iters):
                self.d.clock.t = self.iters[self.i]['t'] / TICK

    def close(self):
        pass

    def _finish_inflight(self):
        if self.inflight:
            self.inflight = False
            r = self.hev[-1] if self.hev else 0
            self.d.post_step(r)

    def select(self, timeout=None):
        import selectors
        if self.phase == 'flush':
            if not self.flush:
                raise BrokenPipeError(errno.EPIPE, 'harness: flush script exhausted')
            item = self.flush.pop(0)
            if item is None:
                return []
            self.d.S.client.send_script[:] = [py_outcome(item)]
            sock = self.d.S.client
            return [(selectors.SelectorKey(sock, sock.fd, selectors.EVENT_WRITE, None), selectors.EVENT_WRITE)]
        self._finish_inflight()
        if self.i >= len(self.iters):
            raise HarnessStop()               # the harness ends the loop: run() goes to its finally clause
        it = self.iters[self.i]
        self.i += 1
        self.n_main += 1
        ev0 = it.get('ev') or dict(now=it['t'], r=[], w=[], probe=it['t'])
        r, w = self.d.pre_step(ev0)
        self.inflight = True
        S = self.d.S
        socks = S.socks()
        out = []
        for name in set(list(r) + list(w)):
            s_ = socks.get(name)
            if s_ is None or s_.closed or s_.fd not in self.reg:
                continue
            mask = 0
            if name in r and self.reg[s_.fd] & selectors.EVENT_READ:
                mask |= selectors.EVENT_READ
            if name in w and self.reg[s_.fd] & selectors.EVENT_WRITE:
                mask |= selectors.EVENT_WRITE
            if mask:
                out.append((selectors.SelectorKey(s_.fd, s_.fd, self.reg[s_.fd], None), mask))
        return out


def run_reaper_threaded(case):
    """the REAL HttpProtocolHandler.run() (threaded mode) with a scripted selector"""
    case = dict(case, threaded=True)
    d = RelayDriver(case, external_shutdown=True)
    h = d.h
    iters = case['iters']
    hev, inact = [], []
    try:
        sel = LoopSelector(d, iters, case.get('sel', []), hev)
        h.selector = sel
        orig_he = h.handle_events
        async def handle_events(readables, writables):
            try:
                r = await orig_he(readables, writables)
            except BaseException:
                hev.append(2)
                raise
            hev.append(1 if r else 0)
            return r
        h.handle_events = handle_events
        orig_in = h.is_inactive
        def is_inactive():
            r = orig_in()
            if sel.phase == 'main':
                inact.append(bool(r))
            return r
        h.is_inactive = is_inactive
        if iters:
            d.clock.t = iters[0]['t'] / TICK
        h.run()
        sel._finish_inflight()
    except BaseException:
        d.S.close()
        raise
    # fate after each iteration
    fates = []
    f = 0
    for i in range(len(iters)):
        if not f:
            if i < len(inact) and inact[i]:
                f = 2
            elif i < len(hev) and hev[i]:
                f = 1
        fates.append(f)
    d.h.is_inactive = orig_in
    out = d.finish()
    out['fates'] = fates
    out['n_main'] = sel.n_main
    out['inact'] = inact
    out['hev'] = hev
    return out


def coq_reaper_case(case, out):
    t0 = case.get('t0', T0)
    cfg = '(mkCfg %d ACK %s %s)' % (case.get('max_send', 3), coq_Z(timeout_ticks(case)),
                                   C.coq_bool(case['kind'] != 'reaper-threaded'))
    its = []
    if case['kind'] == 'reaper-threadless':
        for it, cur in zip(case['iters'], out['log']):
            k = cur['ev_index']
            e = 'None' if k is None else '(Some (%s))' % coq_event(out['events'][k], out['oracles'][k], t0)
            its.append('I %s %d %s' % (e, it['t'] - t0, C.coq_bool(cur['unfinished'])))
        for it in case['iters'][len(out['log']):]:
            its.append('I None %d false' % (it['t'] - t0))
        pu, cu = reaper_constants()
        exp = ['(%s, %d)' % (C.coq_bool(c['swept']), c['fate']) for c in out['log']]
        return 'CReaperTL (mkTC %d %d) %s %s %s %s %s %s' % (pu, cu, cfg, coq_Z(t0), C.coq_list(its), C.coq_list(exp),
                                                            C.coq_bytes(out['fin']['cout']), C.coq_bool(out['fin']['cclosed']))
    # threaded: iteration i executed event i (a null event when none was scripted) as long as the loop ran
    n_exec = len(out['events'])
    for i, it in enumerate(case['iters']):
        if i < n_exec and it.get('ev') is not None:
            e = '(Some (%s))' % coq_event(out['events'][i], out['oracles'][i], t0)
        else:
            e = 'None'
        its.append('I %s %d false' % (e, it['t'] - t0))
    sel = C.coq_list(('None' if x is None else '(Some %s)' % coq_outcome(x)) for x in list(case.get('sel', [])) + ['pipe'])
    exp = [str(f) for f in out['fates']]
    return 'CReaperTH %s %s %s %s %s %s %s' % (cfg, coq_Z(t0), sel, C.coq_list(its), C.coq_list(exp),
                                              C.coq_bytes(out['fin']['cout']), C.coq_bool(out['fin']['cclosed']))


def c20_imports():
    return net_imports().replace('Net.RelayCases.', 'Net.RelayCases Net.Reaper Net.ReaperCases.')
