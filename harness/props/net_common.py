"""Shared by C01 / C07 / C20: Coq encoders for the Net/ models, the TcpConnection op-list runner and the
event-list runner that drives the REAL HttpProtocolHandler (+ HttpProxyPlugin / web plugin) through
harness/sim.py, one handle_events() call per event, with the outcome of every I/O call scripted."""
import os, sys, errno, logging
sys.path.insert(0, os.path.dirname(os.path.dirname(os.path.abspath(__file__))))
import common as C
import sim

logging.disable(logging.CRITICAL)

# ------------------------------------------------------------------------------------------------
# encoders
def coq_outcome(o):
    """send outcome: int k (accept at most k) | 'block' | 'pipe' | 'oserror'"""
    if isinstance(o, int):
        return '(Accept %d)' % o
    return {'block': 'WouldBlock', 'pipe': 'Broken', 'oserror': 'OsErr', 'reset': 'OsErr'}[o]


def py_outcome(o):
    if isinstance(o, int):
        return o
    return sim.io_error(o)


def coq_recv(r):
    """recv result: bytes | 'eof' | 'reset' | 'timeout' | 'timeout0' (errno None) | 'oserror' | 'block'"""
    if isinstance(r, (bytes, bytearray)):
        return '(RData %s)' % C.coq_bytes(r)
    return {'eof': 'REof', 'reset': 'RReset', 'timeout': '(RTimeout true)', 'timeout0': '(RTimeout false)',
            'oserror': 'ROsErr', 'block': 'ROsErr'}[r]


def py_recv(r):
    if isinstance(r, (bytes, bytearray)):
        return bytes(r)
    if r == 'eof':
        return sim.EOF
    if r == 'timeout0':
        return TimeoutError('timed out')        # errno None, like socket.timeout
    return sim.io_error(r)


def coq_blist(pieces):
    return C.coq_list(C.coq_bytes(p) for p in pieces)


def rand_bytes(rng, n, alphabet=None):
    if alphabet:
        return bytes(rng.choice(alphabet) for _ in range(n))
    return bytes(rng.randrange(256) for _ in range(n))


def rand_outcome(rng, maxk=12, perr=0.0, pblock=0.15):
    r = rng.random()
    if r < perr:
        return rng.choice(['pipe', 'oserror'])
    if r < perr + pblock:
        return 'block'
    return rng.choice([0, 1, 1, 2, 3, 4, 5, 7, 9, maxk, 100000])


# ------------------------------------------------------------------------------------------------
# TcpConnection alone
def run_conn_ops(ops):
    """ops: ['q', bytes] | ['f', max, outcome] | ['c'].  Returns per-op observations + socket bytes."""
    from proxy.core.connection import TcpClientConnection
    sock = sim.FakeSock('peer')
    conn = TcpClientConnection(sock, ('1.2.3.4', 5))
    obs = []
    for op in ops:
        ret = 0
        if op[0] == 'q':
            conn.queue(memoryview(bytes(op[1])))
        elif op[0] == 'f':
            sock.send_script[:] = [py_outcome(op[2])]
            try:
                ret = conn.flush(op[1])
            except BrokenPipeError:
                ret = 1000001
            except OSError:
                ret = 1000002
            sock.send_script[:] = []
        elif op[0] == 'c':
            conn.close()
        obs.append(dict(ret=ret, buffer=[bytes(b) for b in conn.buffer], has=bool(conn.has_buffer()),
                        nsent=len(sock.out), closed=bool(conn.closed)))
    return dict(obs=obs, out=sock.out)


def coq_conn_op(op):
    if op[0] == 'q':
        return '(OQueue %s)' % C.coq_bytes(op[1])
    if op[0] == 'f':
        return '(OFlush %d %s)' % (op[1] or 0, coq_outcome(op[2]))
    return 'OClose'


def coq_conn_case(ops, out):
    obs = ['(mkObs %d %s %s %d %s)' % (o['ret'], coq_blist(o['buffer']), C.coq_bool(o['has']), o['nsent'], C.coq_bool(o['closed']))
           for o in out['obs']]
    return 'CConn %s %s %s' % (C.coq_list(coq_conn_op(op) for op in ops), C.coq_list(obs), C.coq_bytes(out['out']))


def gen_conn_ops(rng, n, perr=0.05):
    ops = []
    for _ in range(n):
        r = rng.random()
        if r < 0.35:
            ops.append(['q', rand_bytes(rng, rng.choice([0, 1, 1, 2, 3, 5, 8, 9, 10, 17]))])
        else:
            ops.append(['f', rng.choice([0, 1, 1, 2, 3, 4, 5, 9, 64]), rand_outcome(rng, perr=perr)])
    if rng.random() < 0.3:
        ops.append(['c'])          # close() only at the end: a send on a closed socket is outside the model
    return ops


def conn_oracle(ops, out):
    """independent statement of conservation on the implementation: at every point the bytes the socket took
    followed by the buffered bytes are exactly the bytes queued so far, in order."""
    queued = b''
    prev_sent = 0
    prev_buf = []
    for op, o in zip(ops, out['obs']):
        if op[0] == 'q':
            queued += bytes(op[1])
        have = out['out'][:o['nsent']] + b''.join(o['buffer'])
        if have != queued:
            return 'conservation broken after op %r: socket+buffer=%r queued=%r' % (op, have, queued)
        if o['nsent'] < prev_sent:
            return 'sent bytes shrank'
        if op[0] == 'f' and o['ret'] < 1000000 and o['nsent'] - prev_sent != o['ret']:
            return 'flush returned %d but the socket took %d' % (o['ret'], o['nsent'] - prev_sent)
        if op[0] == 'f' and isinstance(op[2], int) and op[2] > 0 and prev_buf and prev_buf[0] and o['nsent'] == prev_sent:
            return 'no progress although the socket accepted k=%d > 0 with a non-empty head piece' % op[2]
        prev_sent = o['nsent']
        prev_buf = o['buffer']
    return None
