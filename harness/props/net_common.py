"""Shared by C01 / C07 / C20: Coq encoders for the Net/ models, the TcpConnection op-list runner and the
event-list runner that drives the REAL HttpProtocolHandler (+ HttpProxyPlugin / web plugin) through
harness/sim.py, one handle_events() call per event, with the outcome of every I/O call scripted."""
import os, sys, errno, logging
sys.path.insert(0, os.path.dirname(os.path.dirname(os.path.abspath(__file__))))
import common as C
import sim

logging.disable(logging.CRITICAL)

# ------------------------------------------------------------------------------------------------
# encoders
def coq_outcome(o):
    """send outcome: int k (accept at most k) | 'block' | 'pipe' | 'oserror'"""
    if isinstance(o, int):
        return '(Accept %d)' % o
    return {'block': 'WouldBlock', 'pipe': 'Broken', 'oserror': 'OsErr', 'reset': 'OsErr'}[o]


def py_outcome(o):
    if isinstance(o, int):
        return o
    return sim.io_error(o)


def coq_recv(r):
    """recv result: bytes | 'eof' | 'reset' | 'timeout' | 'timeout0' (errno None) | 'oserror' | 'block'"""
    if isinstance(r, (bytes, bytearray)):
        return '(RData %s)' % C.coq_bytes(r)
    return {'eof': 'REof', 'reset': 'RReset', 'timeout': '(RTimeout true)', 'timeout0': '(RTimeout false)',
            'oserror': 'ROsErr', 'block': 'ROsErr'}[r]


def py_recv(r):
    if isinstance(r, (bytes, bytearray)):
        return bytes(r)
    if r == 'eof':
        return sim.EOF
    if r == 'timeout0':
        return TimeoutError('timed out')        # errno None, like socket.timeout
    return sim.io_error(r)


def coq_blist(pieces):
    return C.coq_list(C.coq_bytes(p) for p in pieces)


def rand_bytes(rng, n, alphabet=None):
    if alphabet:
        return bytes(rng.choice(alphabet) for _ in range(n))
    return bytes(rng.randrange(256) for _ in range(n))


def rand_outcome(rng, maxk=12, perr=0.0, pblock=0.15):
    r = rng.random()
    if r < perr:
        return rng.choice(['pipe', 'oserror'])
    if r < perr + pblock:
        return 'block'
    return rng.choice([0, 1, 1, 2, 3, 4, 5, 7, 9, maxk, 100000])


# ------------------------------------------------------------------------------------------------
# TcpConnection alone
def run_conn_ops(ops):
    """ops: ['q', bytes] | ['f', max, outcome] | ['c'].  Returns per-op observations + socket bytes."""
    from proxy.core.connection import TcpClientConnection
    sock = sim.FakeSock('peer')
    conn = TcpClientConnection(sock, ('1.2.3.4', 5))
    obs = []
    for op in ops:
        ret = 0
        if op[0] == 'q':
            conn.queue(memoryview(bytes(op[1])))
        elif op[0] == 'f':
            sock.send_script[:] = [py_outcome(op[2])]
            try:
                ret = conn.flush(op[1])
            except BrokenPipeError:
                ret = 1000001
            except OSError:
                ret = 1000002
            sock.send_script[:] = []
        elif op[0] == 'c':
            conn.close()
        obs.append(dict(ret=ret, buffer=[bytes(b) for b in conn.buffer], has=bool(conn.has_buffer()),
                        nsent=len(sock.out), closed=bool(conn.closed)))
    return dict(obs=obs, out=sock.out)


def coq_conn_op(op):
    if op[0] == 'q':
        return '(OQueue %s)' % C.coq_bytes(op[1])
    if op[0] == 'f':
        return '(OFlush %d %s)' % (op[1] or 0, coq_outcome(op[2]))
    return 'OClose'


def coq_conn_case(ops, out):
    obs = ['(mkObs %d %s %s %d %s)' % (o['ret'], coq_blist(o['buffer']), C.coq_bool(o['has']), o['nsent'], C.coq_bool(o['closed']))
           for o in out['obs']]
    return 'CConn %s %s %s' % (C.coq_list(coq_conn_op(op) for op in ops), C.coq_list(obs), C.coq_bytes(out['out']))


def gen_conn_ops(rng, n, perr=0.05):
    ops = []
    for _ in range(n):
        r = rng.random()
        if r < 0.35:
            ops.append(['q', rand_bytes(rng, rng.choice([0, 1, 1, 2, 3, 5, 8, 9, 10, 17]))])
        else:
            ops.append(['f', rng.choice([0, 1, 1, 2, 3, 4, 5, 9, 64]), rand_outcome(rng, perr=perr)])
    if rng.random() < 0.3:
        ops.append(['c'])          # close() only at the end: a send on a closed socket is outside the model
    return ops


def conn_oracle(ops, out):
    """independent statement of conservation on the implementation: at every point the bytes the socket took
    followed by the buffered bytes are exactly the bytes queued so far, in order."""
    queued = b''
    prev_sent = 0
    prev_buf = []
    for op, o in zip(ops, out['obs']):
        if op[0] == 'q':
            queued += bytes(op[1])
        have = out['out'][:o['nsent']] + b''.join(o['buffer'])
        if have != queued:
            return 'conservation broken after op %r: socket+buffer=%r queued=%r' % (op, have, queued)
        if o['nsent'] < prev_sent:
            return 'sent bytes shrank'
        if op[0] == 'f' and o['ret'] < 1000000 and o['nsent'] - prev_sent != o['ret']:
            return 'flush returned %d but the socket took %d' % (o['ret'], o['nsent'] - prev_sent)
        if op[0] == 'f' and isinstance(op[2], int) and op[2] > 0 and prev_buf and prev_buf[0] and o['nsent'] == prev_sent:
            return 'no progress although the socket accepted k=%d > 0 with a non-empty head piece' % op[2]
        prev_sent = o['nsent']
        prev_buf = o['buffer']
    return None


# ------------------------------------------------------------------------------------------------
# the per-connection machine: event lists against the real handler classes
TICK = 1024                      # clock ticks per second (exact in binary floating point)
T0 = 1000 * TICK                 # start of every simulated connection

_FLAGS = {}

def get_flags(max_send=3, threaded=False, timeout=10, web=False, static_dir=None):
    key = (max_send, threaded, timeout, web, static_dir)
    if key not in _FLAGS:
        args = ['--max-sendbuf-size', str(max_send), '--timeout', str(timeout)]
        if threaded:
            args.append('--threaded')
        if web:
            args += ['--enable-web-server', '--plugins', 'proxy.plugin.WebServerPlugin']
        if static_dir:
            args += ['--enable-static-server', '--static-server-dir', static_dir]
        _FLAGS[key] = sim.make_flags(args=args)
    return _FLAGS[key]


def tunnel_handler_klass():
    """the repository's own BaseTcpTunnelHandler subclass (examples/https_connect_tunnel.py) when present,
    otherwise an identical local subclass"""
    import importlib.util
    p = C.REPO / 'examples' / 'https_connect_tunnel.py'
    if p.exists():
        try:
            spec = importlib.util.spec_from_file_location('verif_https_connect_tunnel', str(p))
            m = importlib.util.module_from_spec(spec)
            spec.loader.exec_module(m)
            return m.HttpsConnectTunnelHandler
        except Exception:
            pass
    from proxy.core.base import BaseTcpTunnelHandler
    from proxy.http.responses import PROXY_TUNNEL_UNSUPPORTED_SCHEME, PROXY_TUNNEL_ESTABLISHED_RESPONSE_PKT

    class HttpsConnectTunnelHandler(BaseTcpTunnelHandler):
        def handle_data(self, data):
            if self.upstream and self.upstream._conn is not None:
                self.upstream.queue(data)
                return None
            self.request.parse(data)
            if not self.request.is_https_tunnel:
                self.work.queue(PROXY_TUNNEL_UNSUPPORTED_SCHEME)
                return True
            assert self.request.is_complete
            self.connect_upstream()
            self.work.queue(PROXY_TUNNEL_ESTABLISHED_RESPONSE_PKT)
            return None
    return HttpsConnectTunnelHandler


class FakeSelector:
    """stands for self.selector of a threaded-mode handler during shutdown()._flush():
    one scripted entry per select() call: None = timed out, otherwise the outcome of the send that follows"""
    def __init__(self, client_sock, script):
        self.sock = client_sock
        self.script = list(script)
        self.calls = 0

    def register(self, fileobj, events, data=None):
        pass

    def unregister(self, fileobj):
        pass

    def modify(self, *a, **k):
        pass

    def close(self):
        pass

    def select(self, timeout=None):
        import selectors
        self.calls += 1
        if not self.script:
            raise BrokenPipeError(errno.EPIPE, 'harness: flush script exhausted')
        item = self.script.pop(0)
        if item is None:
            return []
        self.sock.send_script[:] = [py_outcome(item)]
        key = selectors.SelectorKey(self.sock, self.sock.fd, selectors.EVENT_WRITE, None)
        return [(key, selectors.EVENT_WRITE)]


def ack_packet():
    from proxy.http.responses import PROXY_TUNNEL_ESTABLISHED_RESPONSE_PKT
    return bytes(PROXY_TUNNEL_ESTABLISHED_RESPONSE_PKT)


def int_code(names):
    c = names.get('client', '')
    u = names.get('up0', '')
    return (1 if 'r' in c else 0) + (2 if 'w' in c else 0) + (4 if 'r' in u else 0) + (8 if 'w' in u else 0)


def _up_conn(h, handler):
    """the upstream TcpServerConnection when it is connected"""
    if handler == 'tunnel':
        u = getattr(h, 'upstream', None)
    else:
        u = getattr(h.plugin, 'upstream', None) if h.plugin is not None else None
    if u is not None and getattr(u, '_conn', None) is not None and not u.closed:
        return u
    return None


def run_relay(case):
    """drive one real handler through case['events']; returns observations + the oracles seen at handle_data"""
    from proxy.http.parser import httpParserStates
    from proxy.http.exception import HttpProtocolException
    handler = case.get('handler', 'http')
    threaded = bool(case.get('threaded'))
    flags = get_flags(case.get('max_send', 3), threaded, case.get('timeout', 10), bool(case.get('web')),
                      case.get('static_dir'))
    clock = sim.VClock(case.get('t0', T0) / TICK)
    klass = tunnel_handler_klass() if handler == 'tunnel' else None
    connect_script = [None if x is None else sim.io_error(x) for x in case.get('connect', [])]
    steps, oracles = [], []
    uprcvd, clrcvd = b'', b''
    with sim.Sim(flags=flags, clock=clock, handler_klass=klass, connect_script=connect_script) as S:
        h = S.h
        if threaded and handler == 'http':
            try:
                h.selector.close()
            except Exception:
                pass
            h.selector = FakeSelector(S.client, list(case.get('sel', [])) + ['pipe'])
        cq = []                       # every piece queued for the client, in order
        orig_queue = h.work.queue
        def client_queue(mv):
            cq.append(bytes(mv))
            return orig_queue(mv)
        h.work.queue = client_queue
        rec = {}
        orig_hd = h.handle_data
        def handle_data(data):
            u = _up_conn(h, handler)
            rec.update(called=True, data=bytes(data), cq0=len(cq), up_before=u is not None,
                       ub0=len(u.buffer) if u is not None else 0,
                       complete_before=(h.request.state == httpParserStates.COMPLETE))
            try:
                r = orig_hd(data)
            except BaseException as e:
                rec['exc'] = type(e).__name__
                raise
            rec['ret'] = r
            return r
        h.handle_data = handle_data

        final_res = 0
        for ev in case['events']:
            clock.t = ev['now'] / TICK
            names, _ = S.interest()
            rec.clear()
            # script the outcome of every I/O call of this step
            S.client.inq[:] = [py_recv(ev['c_recv'])] if ev.get('c_recv') is not None else []
            S.client.send_script[:] = [py_outcome(ev['c_send'])] if ev.get('c_send') is not None else []
            up = S.upstreams[0] if S.upstreams else None
            if up is not None:
                up.inq[:] = [py_recv(ev['u_recv'])] if ev.get('u_recv') is not None else []
                up.send_script[:] = [py_outcome(ev['u_send'])] if ev.get('u_send') is not None else []
            x = S.step(ev.get('r', ()), ev.get('w', ()))
            res = 0 if x == 'ok' else 1 if x == 'teardown' else 2
            # what was consumed
            if up is not None and isinstance(ev.get('u_recv'), (bytes, bytearray)) and ev['u_recv'] and not up.inq:
                uprcvd += bytes(ev['u_recv'])          # the scripted piece was taken by a recv() call
            for s_ in [S.client] + S.upstreams:
                s_.inq[:] = []
                s_.send_script[:] = []
            # the oracles observed at the handle_data boundary
            orc = dict(req='inc', cdata='nothing')
            if rec.get('called'):
                u = _up_conn(h, handler)
                newc = cq[rec['cq0']:]
                newu = [bytes(b) for b in u.buffer[rec['ub0']:]] if (u is not None and rec['up_before']) else \
                       ([bytes(b) for b in u.buffer] if u is not None else [])
                if rec['up_before'] and (handler == 'tunnel' or rec['complete_before']):
                    clrcvd += rec['data']
                if handler == 'tunnel':
                    if not rec['up_before']:
                        if 'exc' in rec:
                            orc['req'] = 'raise'
                        elif u is not None:
                            orc['req'] = ['proxy', True, b'']
                        elif rec.get('ret') is True:
                            orc['req'] = ['error', newc]
                        elif newc:
                            orc['req'] = ['serve', newc]
                elif not rec['complete_before']:
                    is_proxy = h.plugin is not None and type(h.plugin).__name__ == 'HttpProxyPlugin'
                    if 'exc' in rec:
                        orc['req'] = 'raise'
                    elif is_proxy and u is not None and rec.get('ret') is not True:
                        orc['req'] = ['proxy', bool(h.request.is_https_tunnel), b''.join(newu)]
                    elif rec.get('ret') is True:
                        orc['req'] = ['error', newc]
                    elif h.request.state == httpParserStates.COMPLETE:
                        orc['req'] = ['serve', newc]
                    elif newc:
                        orc['req'] = ['serve', newc]      # cannot happen; would show up as a mismatch
                else:
                    is_proxy = h.plugin is not None and type(h.plugin).__name__ == 'HttpProxyPlugin'
                    if 'exc' in rec:
                        orc['cdata'] = 'raise'
                    elif rec.get('ret') is True:
                        orc['cdata'] = ['proto', newc]
                    elif is_proxy and rec['up_before'] and newu and not h.request.is_https_tunnel:
                        pr = getattr(h.plugin, 'pipeline_request', None)
                        orc['cdata'] = ['forward', b''.join(newu), bool(pr is not None and pr.is_connection_upgrade)]
                    elif newc:
                        orc['cdata'] = ['reply', newc]
            oracles.append(orc)
            u = _up_conn_any(S, h, handler)
            probe = ev.get('probe', ev['now'])
            inactive = None
            if handler == 'http':
                clock.t = probe / TICK
                inactive = bool(h.is_inactive())
                clock.t = ev['now'] / TICK
            steps.append(dict(int=int_code(names), res=res, csent=len(S.client.out),
                              usent=len(S.upstreams[0].out) if S.upstreams else 0,
                              cpend=sum(len(b) for b in h.work.buffer),
                              upend=sum(len(b) for b in u.buffer) if u is not None else 0,
                              la=round(getattr(h, 'last_activity', case.get('t0', T0) / TICK) * TICK),
                              inactive=inactive, uprcvd_len=len(uprcvd), clrcvd_len=len(clrcvd),
                              established=bool(S.upstreams)))
            final_res = res
            if res:
                break
        u = _up_conn_any(S, h, handler)
        fin = dict(res=final_res, cout=S.client.out, uout=S.upstreams[0].out if S.upstreams else b'',
                   cpend=b''.join(bytes(b) for b in h.work.buffer),
                   upend=b''.join(bytes(b) for b in u.buffer) if u is not None else b'',
                   uprcvd=uprcvd, clrcvd=clrcvd, cclosed=bool(S.client.closed),
                   uclosed=0 if not S.upstreams else (2 if S.upstreams[0].closed else 1),
                   int=int_code(S.interest()[0]) if not final_res else 0,
                   shutdown_exc=getattr(S, 'shutdown_exc', None) and type(S.shutdown_exc).__name__,
                   trace=list(S.trace), queued=b''.join(cq),
                   client_log=[l for l in S.client.log if l[0] in ('send', 'send_err', 'close')][-40:])
    return dict(steps=steps, oracles=oracles, fin=fin)


def _up_conn_any(S, h, handler):
    """upstream connection object whose buffer should be reported (connected, even if closed by shutdown)"""
    if handler == 'tunnel':
        u = getattr(h, 'upstream', None)
    else:
        u = getattr(h.plugin, 'upstream', None) if h.plugin is not None else None
    if u is not None and getattr(u, '_conn', None) is not None:
        return u
    return None


# ---- Coq terms
def coq_req(o):
    if o == 'inc':
        return 'RIncomplete'
    if o == 'raise':
        return 'RRaise'
    if o[0] == 'error':
        return '(RError %s)' % coq_blist(o[1])
    if o[0] == 'serve':
        return '(RServe %s)' % coq_blist(o[1])
    if o[0] == 'proxy':
        return '(RProxy %s %s)' % (C.coq_bool(o[1]), C.coq_bytes(o[2]))
    raise ValueError(o)


def coq_cdata(o):
    if o == 'nothing':
        return 'DNothing'
    if o == 'raise':
        return 'DRaise'
    if o[0] == 'proto':
        return '(DProto %s)' % coq_blist(o[1])
    if o[0] == 'reply':
        return '(DReply %s)' % coq_blist(o[1])
    if o[0] == 'forward':
        return '(DForward %s %s)' % (C.coq_bytes(o[1]), C.coq_bool(o[2]))
    raise ValueError(o)


def coq_event(ev, orc):
    r, w = ev.get('r', ()), ev.get('w', ())
    return '(mkEvent %s %s %s %s %s %s %s %s %s %s %s, %s)' % (
        C.coq_Z(ev['now']), C.coq_bool('client' in r), C.coq_bool('client' in w),
        C.coq_bool('up0' in r), C.coq_bool('up0' in w),
        coq_outcome(ev['c_send']) if ev.get('c_send') is not None else '(Accept 1000000)',
        coq_outcome(ev['u_send']) if ev.get('u_send') is not None else '(Accept 1000000)',
        coq_recv(ev['c_recv']) if ev.get('c_recv') is not None else 'ROsErr',
        coq_recv(ev['u_recv']) if ev.get('u_recv') is not None else 'ROsErr',
        coq_req(orc['req']), coq_cdata(orc['cdata']), C.coq_Z(ev.get('probe', ev['now'])))


def coq_relay_case(case, out):
    handler = case.get('handler', 'http')
    n = len(out['steps'])
    evs = [coq_event(ev, orc) for ev, orc in zip(case['events'][:n], out['oracles'][:n])]
    cfg = '(mkCfg %d %s %s %s)' % (case.get('max_send', 3), C.coq_bytes(ack_packet()),
                                  C.coq_Z(case.get('timeout', 10) * TICK), C.coq_bool(not case.get('threaded')))
    exp = ['(mkSO %d %d %d %d %d %d %s %s)' % (s['int'], s['res'], s['csent'], s['usent'], s['cpend'], s['upend'],
                                               C.coq_Z(s['la']),
                                               C.coq_bool(s['inactive']) if s['inactive'] is not None else 'false')
           for s in out['steps']]
    f = out['fin']
    fin = '(mkFO %d %s %s %s %s %s %s %s %d %d)' % (
        f['res'], C.coq_bytes(f['cout']), C.coq_bytes(f['uout']), C.coq_bytes(f['cpend']), C.coq_bytes(f['upend']),
        C.coq_bytes(f['uprcvd']), C.coq_bytes(f['clrcvd']), C.coq_bool(f['cclosed']), f['uclosed'], f['int'])
    sel = C.coq_list(('None' if x is None else '(Some %s)' % coq_outcome(x)) for x in list(case.get('sel', [])) + ['pipe']) \
        if case.get('threaded') else '[]'
    return 'CRelay %s %s %s %s %s %s %s' % ('KTunnel' if handler == 'tunnel' else 'KHttp', cfg,
                                           C.coq_Z(case.get('t0', T0)), C.coq_list(evs), sel, C.coq_list(exp), fin)
