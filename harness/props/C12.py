"""C12 — reverse proxy routing: correspondence of Net/Reverse.v with the REAL HttpWebServerPlugin +
ReverseProxy (proxy/http/server/{web,reverse}.py) driven through the simulated I/O layer, and
the property's own statement evaluated on the implementation with independent references
(python `re` for the match table, h11 for what the upstream peer received, urllib for URLs)."""
import re, ssl, json, random as _random
from unittest import mock
from urllib.parse import urlsplit
import common as C

ID = 'C12'
COQ_TARGETS = ['theories/Props/C12.vo', 'theories/Net/ReverseCases.vo', 'theories/Net/ReverseConvCases.vo']
IMPORTS = 'From PM Require Import Lib.Bytes Lib.PyStr Net.Reverse Net.ReverseCases Net.ReverseConv Net.ReverseConvCases.'
CASE_TYPE = 'xcase'
CHECK_FN = 'check_xcase'
ANCHOR_FILES = ['proxy/http/server/reverse.py', 'proxy/http/server/web.py', 'proxy/http/server/plugin.py',
                'proxy/core/base/tcp_upstream.py', 'proxy/http/parser/parser.py', 'proxy/http/url.py',
                'proxy/common/utils.py', 'proxy/plugin/reverse_proxy.py']
RULE = ('cases = (route table, request, draws, upstream reads): 1-2 generated ReverseProxyBasePlugin subclasses with 1-4 routes '
        '(static with 1-3 upstream URLs over http/https, with/without port and path, IPv4/IPv6/name hosts; dynamic returning a Url, '
        'literal bytes or raising), regexes and request paths from pools built so that none / exactly one / several routes match, '
        'methods x header sets (Host/Content-Length spellings) x bodies (plain, chunked), both settings of --rewrite-host-header, '
        'scripted random.choice, connect outcomes (ok/refused/unreachable), upstream responses in 1-4 segments (+EOF/reset); the real '
        'handler is driven through harness/sim.py; a malformed stream adds non-UTF-8 paths, empty URL lists, before_routing hooks that drop '
        'or re-target the request, URLs with port 0 / userinfo; a multi-connection stream runs 2-4 consecutive client connections in one '
        'process against plugins written like the documented example (Url.from_bytes on a constant, edited in place) and against the '
        'shipped proxy.plugin.ReverseProxyPlugin, each connection compared with what its request ALONE must produce; a conversation stream sends 2-4 complete '
        'requests over ONE client connection, each after the previous exchange is over (same / other route whose upstream differs in port only, host only or both / '
        'no route / literal route, keep-alive and Connection: close / HTTP/1.0 / websocket-upgrade variants, connect failures, upstream EOF) and compares connect log, '
        'connects per request, wrap log, bytes received by EVERY upstream socket and client bytes with the connection-level model Net/ReverseConv.v. A case is non-trivial when a request reached an upstream '
        '(connect attempted and bytes delivered) or a literal/404 answer was produced; distinct = distinct (table, request, draws)')
TRUSTED = ['Python re (route matching) enters the model as the oracle re_match; the harness computes the match table with the real re',
           'Url.from_bytes is not modelled here: the model takes the parsed components; every generated URL is compared with Url.from_bytes and urllib on every run',
           'TLS wrap of https upstreams is patched to a recorder (hostname logged); the handshake itself is outside the model',
           'reference request parser ref_parse (second half of Net/Reverse.v) as the reading of RFC 7230 section 3; cross-validated by h11 on what the fake upstream received',
           'relay of queued bytes to the sockets (flush, short writes) is C01; here every send is accepted in full']
ASSUMPTIONS = ['later requests of a connection: each is a complete request arriving in one segment after the previous exchange is over (two requests in one segment, '
               'a later request cut in pieces: C04); that every later request replaces self.upstream without closing the previous object is modelled, not judged (C04/C10 findings)',
               'ReverseProxy is the only HttpWebServerBasePlugin, static server disabled, plugins keep the default protocols()',
               'handle_route is a pure function of the request; configured URLs are well-formed scheme://host[:port][/path]']
SHARD = 40

# ----------------------------------------------------------------- pools
REGEXES = [r'/get$', r'/get', r'/get/(\d+)$', r'/api/.*', r'/(a|b)$', r'/$', r'/static/.*\.js$', r'/.*',
           'café', '/café$', r'/get\?', r'(?i)/get$', r'/api/v1/items\?id=\d+$', r'/[^/]+$', r'get',
           r'.*get', r'/x/\.\./get', r'/api/v1', r'/ab?c*$', r'/$|/index\.html$', r'^/get$', r'/get\Z', r'/\w+/\d+']
PATHS = [b'/', b'/get', b'/get/', b'/get/12', b'/get/x', b'/getx', b'/api/v1/items', b'/api/v1/items?id=3', b'/a', b'/b',
         b'/c', b'/static/app.js', b'/static/app.css', b'/caf\xc3\xa9', b'/GET', b'/x/../get', b'/%67et', b'/get?x=1',
         b'/index.html', b'/ab', b'/abccc', b'/nothing/here', b'/user/42', b'/get\n'.replace(b'\n', b'%0a')]
HOSTS = ['up1.example', 'up2.example', '10.0.0.7', 'localhost', '[::1]', '[2001:db8::1]', 'UPPER.example', 'a-b.c', 'xn--caf-dma.example']
PORTS = [None, None, None, 80, 443, 8080, 8443, 1, 65535]
UPATHS = [None, None, '/', '/get', '/base/path', '/q?x=1&y=2', '/caf%C3%A9', '/a/b/', '/get/']
METHODS = [b'GET', b'GET', b'POST', b'PUT', b'DELETE', b'PATCH', b'OPTIONS', b'HEAD', b'PURGE']
HDR_POOL = [(b'User-Agent', b'curl/8.0'), (b'Accept', b'*/*'), (b'X-Forwarded-For', b'1.2.3.4'), (b'accept-encoding', b'gzip, br'),
            (b'Cookie', b'a=b; c=d'), (b'X-Empty', b''), (b'Authorization', b'Basic dXNlcjpwYXNz'), (b'x-host', b'not-the-host'),
            (b'Connection', b'keep-alive'), (b'Connection', b'close'), (b'Referer', b'http://me/get?x=1'), (b'X-Colon', b'a:b: c'),
            (b'If-None-Match', b'"abc"'), (b'hostname', b'decoy')]
HOST_SPELLINGS = [b'Host', b'Host', b'host', b'HOST', b'hOsT']
CL_SPELLINGS = [b'Content-Length', b'Content-Length', b'content-length', b'CONTENT-LENGTH', b'Content-length']


def url_bytes(u):
    s = u['scheme'] + '://' + (u.get('userinfo') + '@' if u.get('userinfo') else '') + u['host']
    if u['port'] is not None:
        s += ':%d' % u['port']
    if u['path'] is not None:
        s += u['path']
    return s.encode() + bytes(u.get('raw') or b'')      # 'raw': non-UTF-8 bytes appended to the path (malformed stream)


def rand_url(rng, weird=False):
    u = dict(scheme=rng.choice(['http', 'http', 'https']), host=rng.choice(HOSTS), port=rng.choice(PORTS), path=rng.choice(UPATHS))
    if weird:
        r = rng.randrange(3)
        if r == 0: u['port'] = 0
        elif r == 1: u['userinfo'] = rng.choice(['user:pw', 'user'])
        else: u['path'] = '/sp ace'
    return u


def rand_request(rng, path):
    method = rng.choice(METHODS)
    hdrs = []
    names = set()
    for h in rng.sample(HDR_POOL, rng.randrange(0, 5)):
        if h[0].lower() not in names:
            names.add(h[0].lower()); hdrs.append(h)
    if rng.random() < 0.92:
        hdrs.insert(rng.randrange(0, len(hdrs) + 1), (rng.choice(HOST_SPELLINGS), rng.choice([b'me.example', b'localhost:8899', b'10.1.1.1'])))
    body, chunked = b'', False
    if method in (b'POST', b'PUT', b'PATCH', b'PURGE') and rng.random() < 0.85:
        n = rng.choice([0, 1, 2, 5, 17, 100])
        body = bytes(rng.choice(b'abcxyz019 \r\n{}:') for _ in range(n))
        if rng.random() < 0.3:
            chunked = True
            hdrs.append((rng.choice([b'Transfer-Encoding', b'transfer-encoding']), rng.choice([b'chunked', b'Chunked'])))
        else:
            hdrs.insert(rng.randrange(0, len(hdrs) + 1), (rng.choice(CL_SPELLINGS), b'%d' % n))
    version = b'HTTP/1.1' if rng.random() < 0.9 else b'HTTP/1.0'
    if not body and rng.random() < 0.06:       # websocket upgrade: ReverseProxy.do_upgrade() is False, so it is routed like any request
        hdrs = [h for h in hdrs if h[0].lower() != b'connection']
        hdrs += [(b'Connection', b'Upgrade'), (b'Upgrade', rng.choice([b'websocket', b'WebSocket'])), (b'Sec-WebSocket-Key', b'dGhlIHNhbXBsZSBub25jZQ==')]
    return dict(method=method, target=path, version=version, headers=[[k, v] for k, v in hdrs], body=body, chunked=chunked)


def wire(req):
    out = req['method'] + b' ' + req['target'] + b' ' + req['version'] + b'\r\n'
    for k, v in req['headers']:
        out += k + b': ' + v + b'\r\n'
    out += b'\r\n'
    if req['chunked']:
        b = req['body']
        cuts = [0, len(b) // 2, len(b)] if len(b) > 3 else [0, len(b)]
        for i, j in zip(cuts, cuts[1:]):
            if j > i:
                out += b'%x\r\n' % (j - i) + b[i:j] + b'\r\n'
        out += b'0\r\n\r\n'
    else:
        out += req['body']
    return out


def rand_route(rng, regex, weird=False):
    r = rng.random()
    if r < 0.68:
        return dict(type='static', regex=regex, urls=[rand_url(rng, weird and rng.random() < 0.5) for _ in range(rng.choice([1, 1, 2, 3]))])
    if r < 0.84:
        return dict(type='dynamic', regex=regex, ret=dict(url=rand_url(rng)))
    if r < 0.96:
        return dict(type='dynamic', regex=regex, ret=dict(bytes=rng.choice([
            b'HTTP/1.1 200 OK\r\nContent-Length: 2\r\n\r\nok', b'HTTP/1.1 302 Found\r\nLocation: /x\r\nContent-Length: 0\r\n\r\n', b'x'])))
    return dict(type='dynamic', regex=regex, ret=dict(exc=rng.choice(['http', 'value'])))


def n_matching(plugins, path):
    try:
        t = path.decode()
    except UnicodeDecodeError:
        return -1
    return sum(1 for p in plugins for r in p['routes'] if re.compile(r['regex']).match(t))


RESPONSES = [b'HTTP/1.1 200 OK\r\nContent-Length: 5\r\n\r\nhello', b'HTTP/1.1 204 No Content\r\n\r\n',
             b'HTTP/1.1 200 OK\r\nTransfer-Encoding: chunked\r\n\r\n3\r\nabc\r\n0\r\n\r\n', b'HTTP/1.0 500 X\r\n\r\nboom', bytes(range(256))]


def rand_reads(rng):
    resp = rng.choice(RESPONSES)
    k = rng.choice([1, 1, 2, 3, 4])
    cuts = sorted(rng.randrange(1, len(resp)) for _ in range(k - 1))
    segs = [resp[i:j] for i, j in zip([0] + cuts, cuts + [len(resp)]) if j > i]
    tail = rng.choice([[], [], ['eof'], ['reset'], ['eof']])
    return segs + tail


def mk_case(rng, want, weird=False):
    """want: 'none' | 'one' | 'several' | 'any'"""
    for _ in range(200):
        nplug = 1 if rng.random() < 0.75 else 2
        plugins = []
        for _p in range(nplug):
            regs = rng.sample(REGEXES, rng.choice([1, 1, 2, 2, 3, 4]) if nplug == 1 else rng.choice([1, 2]))
            plugins.append(dict(before=None, routes=[rand_route(rng, g, weird) for g in regs]))
        path = rng.choice(PATHS)
        n = n_matching(plugins, path)
        if want == 'none' and n != 0: continue
        if want == 'one' and n != 1: continue
        if want == 'several' and n < 2: continue
        break
    req = rand_request(rng, path)
    kind = {0: 'no-route', 1: 'one-route'}.get(n, 'several-routes')
    if nplug == 2 and n >= 1:
        kind += '/2plugins'
    return dict(kind=kind, rewrite=rng.random() < 0.5, plugins=plugins, request=req, draws=[rng.randrange(0, 7) for _ in range(3)],
                connect='ok' if rng.random() < 0.9 else rng.choice(['refused', 'unreach']), wrap='ok', reads=rand_reads(rng), cut=rng.choice([None, None, 5, 20]))


def generate(rng, tier):
    quick = tier != 'thorough'
    cases = []
    n = 70 if quick else 1500
    for want, share in (('none', 1), ('one', 3), ('several', 2)):
        for _ in range(n * share // 2):
            cases.append(mk_case(rng, want))
    # boundary stream: every (scheme, port?, path?) combination x rewrite, single static route, default/explicit ports
    for scheme in ('http', 'https'):
        for port in (None, 80, 443, 8080):
            for upath in (None, '/', '/base?x=1'):
                for rewrite in (False, True):
                    if quick and rng.random() < 0.5:
                        continue
                    u = dict(scheme=scheme, host=rng.choice(HOSTS), port=port, path=upath)
                    cases.append(dict(kind='boundary', rewrite=rewrite, request=rand_request(rng, b'/get'), draws=[0, 0, 0], connect='ok', wrap='ok',
                                      plugins=[dict(before=None, routes=[dict(type='static', regex=r'/get$', urls=[u])])], reads=rand_reads(rng), cut=None))
    # an earlier plugin already queued a literal / chose an upstream, then a later plugin fails in the same request
    # (handle_route raising, empty URL list, non-UTF-8 Url): what was queued must be compared as NOT delivered
    for _ in range(14 if quick else 250):
        first = rng.choice([dict(type='dynamic', regex=r'/get', ret=dict(bytes=b'HTTP/1.1 200 OK\r\nContent-Length: 2\r\n\r\nok')),
                            dict(type='static', regex=r'/get', urls=[rand_url(rng)]),
                            dict(type='dynamic', regex=r'/get', ret=dict(url=rand_url(rng)))])
        late = rng.choice([dict(type='dynamic', regex=r'/.*', ret=dict(exc='value')), dict(type='dynamic', regex=r'/.*', ret=dict(exc='http')),
                           dict(type='static', regex=r'/.*', urls=[]),
                           dict(type='dynamic', regex=r'/.*', ret=dict(url=dict(scheme='http', host='up1.example', port=None, path='/p', raw=b'\xff')))])
        plugins = [dict(before=None, routes=[first]), dict(before=None, routes=[late])]
        if rng.random() < 0.3:
            plugins.insert(1, dict(before=None, routes=[dict(type='dynamic', regex=r'/get$', ret=dict(bytes=b'x'))]))
        cases.append(dict(kind='late-failure', rewrite=rng.random() < 0.5, plugins=plugins, request=rand_request(rng, rng.choice([b'/get', b'/get/12'])),
                          draws=[rng.randrange(0, 7) for _ in range(3)], connect=rng.choice(['ok', 'ok', 'unreach']), wrap='ok', reads=rand_reads(rng), cut=None))
    # history across connections: 2-4 consecutive client connections handled by ONE process with the same plugin
    # classes; dynamic routes written like the documented example (Url.from_bytes on a constant, then edited in place),
    # static routes naming the same URL bytes, and the shipped proxy.plugin.ReverseProxyPlugin itself.  Each request is
    # the first of its own connection; what it is sent upstream must not depend on the earlier connections.
    def simple_req(path):
        return dict(method=rng.choice([b'GET', b'GET', b'DELETE']), target=path, version=b'HTTP/1.1',
                    headers=[[rng.choice(HOST_SPELLINGS), b'me.example']] + [list(h) for h in rng.sample(HDR_POOL[:4], rng.randrange(0, 3))],
                    body=b'', chunked=False)
    def conn(path):
        return dict(request=simple_req(path), draws=[rng.randrange(0, 7) for _ in range(3)], connect='ok', reads=rand_reads(rng), cut=None)
    for i in range(10 if quick else 200):
        if i % 2 == 0:
            plugins = 'shipped'
            pool = [b'/get/1', b'/get/22', b'/get/7', b'/get/1', b'/get', b'/get', b'/nope', b'/get/x']
        else:
            base = rand_url(rng)
            base['path'] = base['path'] or '/base'
            op = rng.choice(['remainder', 'remainder', 'port'])
            if base['port'] == 65535:
                base['port'] = 8080          # the port-editing handler adds the captured number: stay a valid port
            routes = [dict(type='dynamic', regex=r'/item/(\d+)$', ret=dict(mut=dict(base=base, op=op))),
                      dict(type='static', regex=r'/plain$', urls=[dict(base)]),
                      dict(type='dynamic', regex=r'/same/(\d+)$', ret=dict(mut=dict(base=dict(base), op='remainder')))]
            rng.shuffle(routes)
            plugins = [dict(before=None, routes=routes)]
            pool = [b'/item/1', b'/item/22', b'/item/3', b'/plain', b'/plain', b'/same/5', b'/same/61', b'/other']
        first = rng.choice([q for q in pool if re.search(rb'\d$', q)])
        conns = [conn(first)] + [conn(rng.choice(pool)) for _ in range(rng.choice([1, 2, 3]))]
        cases.append(dict(kind='multi-conn', rewrite=rng.random() < 0.5, plugins=plugins, conns=conns))
    # conversations: 2-4 complete requests over ONE client connection, each after the previous exchange is over
    for _ in range(24 if quick else 500):
        cases.append(dict(kind='conversation', conv=mk_conv(rng)))
    # malformed stream
    for _ in range(30 if quick else 600):
        c = mk_case(rng, 'any', weird=True)
        r = rng.randrange(7)
        if r == 0:
            c['request']['target'] = rng.choice([b'/get\xff', b'/\xc3', b'/caf\xe9'])
        elif r == 1:
            for p in c['plugins']:
                for rt in p['routes']:
                    if rt['type'] == 'static' and rng.random() < 0.5:
                        rt['urls'] = []
        elif r == 2:
            c['plugins'][0]['before'] = rng.choice(['drop', ['path', rng.choice(PATHS)]])
        elif r == 3:
            c['wrap'] = 'sslerror'
        elif r == 4:
            c['request']['method'] = b''      # " /path HTTP/1.1": empty method -> build() asserts after the connect
        elif r == 5:
            c['request']['version'] = rng.choice([b'HTTP/1.1 extra', b'HTTP/1.1'])
        else:
            us = list(all_urls(c))
            if us:
                u = rng.choice(us)
                if u['path'] is None:
                    u['path'] = '/p'
                u['raw'] = rng.choice([b'\xff', b'\xc3', b'caf\xe9'])     # str(url) raises for a dynamic route
        c['kind'] = 'malformed'
        cases.append(c)
    return cases


def mk_conv(rng):
    """one client connection carrying several requests.  One plugin (the documented configuration; with several plugins a
    literal answer and an upstream can fall into the same call, whose flush order is the handler's business: C01/C07).
    Half of the tables get an extra first route whose upstream differs from another route's only in the PORT, only in the
    host, or in both (seeded change C12-r3-1 reused the previous upstream when only the host matched)."""
    import copy
    while True:
        c = mk_case(rng, rng.choice(['one', 'one', 'several']))
        if len(c['plugins']) == 1 and not any(r['type'] == 'dynamic' and 'exc' in r['ret'] and rng.random() < 0.8 for r in c['plugins'][0]['routes']):
            break
    p0 = copy.deepcopy(c['plugins'][0])
    path1 = c['request']['target']
    extra = None
    if rng.random() < 0.6:
        r0 = next((r for r in p0['routes'] if re.compile(r['regex']).match(path1.decode('latin-1')) and r.get('urls')), None)
        if r0 is not None:
            u0 = r0['urls'][0]
            u2 = dict(u0)
            how = rng.choice(['port', 'port', 'host', 'both'])
            if how in ('port', 'both'):
                u2['port'] = rng.choice([x for x in (81, 8080, 8443, 65535, 1) if x != default_port(u0)])
            if how in ('host', 'both'):
                u2['host'] = rng.choice([h for h in ('up1.example', 'up2.example', '10.0.0.7', '[::1]') if h != u0['host']])
            u2 = dict(u2, path=rng.choice(['/second', None, '/s?x=1']), userinfo=None, raw=None)
            if rng.random() < 0.3:
                u2['scheme'] = 'https' if u0['scheme'] == 'http' else 'http'
            extra = b'/zz-second'
            p0['routes'] = [dict(type='static', regex=r'/zz-second$', urls=[u2] + ([dict(u0)] if rng.random() < 0.3 else []))] + p0['routes']
    plugins = [p0]

    def simple(target):
        return dict(method=rng.choice([b'GET', b'GET', b'DELETE', b'HEAD']), target=target, version=b'HTTP/1.1',
                    headers=[[rng.choice(HOST_SPELLINGS), b'me.example']] + [list(h) for h in rng.sample(HDR_POOL[:8], rng.randrange(0, 3))]
                            + ([[rng.choice([b'Connection', b'connection']), rng.choice([b'keep-alive', b'Keep-Alive'])]] if rng.random() < 0.2 else []),
                    body=b'', chunked=False)

    def later_target():
        r = rng.random()
        if extra and r < 0.4:
            return extra
        if r < 0.65:
            return path1
        return rng.choice(PATHS)

    n = rng.choice([2, 2, 3, 3, 4])
    reqs = []
    for i in range(n):
        t = path1 if i == 0 else later_target()
        if i == 0 and extra and rng.random() < 0.3:
            t = extra
        q = rng.random()
        if q < 0.7:
            rq = simple(t)
        else:
            rq = rand_request(rng, t)          # bodies, chunked, HTTP/1.0, Connection: close, websocket upgrade ...
        if i > 0 and rng.random() < 0.08:
            rq['headers'] = [h for h in rq['headers'] if h[0].lower() != b'connection'] + [[b'Connection', rng.choice([b'close', b'Close'])]]
        reqs.append(rq)
    reads = []
    for i in range(n):
        rd = [x for x in rand_reads(rng) if not isinstance(x, str)]
        if i > 0 and rng.random() < 0.07:
            rd.append(rng.choice(['eof', 'reset']))
        reads.append(rd)
    connect = ['ok' if (i == 0 or rng.random() < 0.93) else rng.choice(['refused', 'unreach']) for i in range(n)]
    return dict(plugins=plugins, rewrite=rng.random() < 0.5, draws=[rng.randrange(0, 7) for _ in range(6)], requests=reqs,
                reads=reads, connect=connect, packing='separate')


# ----------------------------------------------------------------- implementation
def mk_plugin_class(idx, spec):
    from proxy.http.server import ReverseProxyBasePlugin
    from proxy.http import Url
    from proxy.http.exception import HttpProtocolException
    rts, dyn = [], {}
    for r in spec['routes']:
        if r['type'] == 'static':
            rts.append((r['regex'], [url_bytes(u) for u in r['urls']]))
        else:
            rts.append(r['regex'])
            dyn[r['regex']] = r['ret']

    def routes(self):
        return list(rts)

    def handle_route(self, request, pattern):
        ret = dyn[pattern.pattern]
        if 'url' in ret:
            return Url.from_bytes(url_bytes(ret['url']))
        if 'mut' in ret:
            # the documented pattern (proxy/plugin/reverse_proxy.py): parse a constant, then edit the Url in place
            choice = Url.from_bytes(url_bytes(ret['mut']['base']))
            assert request.path
            result = re.search(pattern, request.path.decode())
            if not result or len(result.groups()) != 1:
                raise HttpProtocolException('Invalid request')
            g = result.groups()[0]
            if ret['mut']['op'] == 'remainder':
                choice.remainder += ('?id=%s' % g).encode()
            else:
                choice.port = (choice.port or 8000) + int(g)
            return choice
        if 'bytes' in ret:
            return memoryview(ret['bytes'])
        if ret['exc'] == 'http':
            raise HttpProtocolException('generated')
        raise ValueError('generated')

    ns = dict(routes=routes, handle_route=handle_route)
    before = spec.get('before')
    if before == 'drop':
        ns['before_routing'] = lambda self, request: None
    elif before:
        def before_routing(self, request, _p=bytes(before[1])):
            request.path = _p
            return request
        ns['before_routing'] = before_routing
    return type('GenReversePlugin%d' % idx, (ReverseProxyBasePlugin,), ns)


def snapshot_request(req):
    hs = req.headers or {}
    return dict(method=req.method, path=req.path, version=req.version,
                headers=[[k, hs[k][0], hs[k][1]] for k in hs], body=req.body, chunked=bool(req.is_chunked_encoded))


def code_of(x):
    if x in ('idle', 'ok', 'maxsteps'):
        return 0
    if x in ('teardown', 'torn'):
        return 1
    if isinstance(x, tuple) and x[0] == 'raised':
        e = x[1]
        if type(e).__name__ == 'HttpProtocolException':
            return 1
        return 1000 + C.exn_code(e)
    raise ValueError(x)


SHIPPED_DYNAMIC = r'/get/(\d+)$'

def shipped_spec():
    """the table of the shipped example plugin: static routes read from the class, the dynamic route as documented
    ("/get/<int>" is served from http://httpbingo.org/get?id=<int>)"""
    from proxy.plugin import ReverseProxyPlugin
    routes = []
    for r in ReverseProxyPlugin.routes(None):
        if isinstance(r, tuple):
            us = []
            for ub in r[1]:
                sp = urlsplit(ub.decode())
                us.append(dict(scheme=sp.scheme, host=sp.hostname, port=sp.port, path=(sp.path + ('?' + sp.query if sp.query else '')) or None))
            routes.append(dict(type='static', regex=r[0], urls=us))
        else:
            routes.append(dict(type='dynamic', regex=r, ret=dict(mut=dict(base=dict(scheme='http', host='httpbingo.org', port=None, path='/get'), op='remainder'))))
    return [dict(before=None, routes=routes)]


def resolve_plugins(plugins, path):
    """what the table means for ONE request taken alone: in-place-editing handlers replaced by the Url they document"""
    import copy
    plugins = copy.deepcopy(shipped_spec() if plugins == 'shipped' else plugins)
    try:
        t = path.decode()
    except UnicodeDecodeError:
        t = None
    for p in plugins:
        for r in p['routes']:
            if r['type'] == 'dynamic' and 'mut' in r['ret']:
                m = r['ret']['mut']
                u = dict(m['base'])
                g = re.search(r['regex'], t) if t is not None else None
                if g and len(g.groups()) == 1:
                    if m['op'] == 'remainder':
                        u['path'] = (u['path'] or '') + '?id=' + g.groups()[0]
                    else:
                        u['port'] = (u['port'] or 8000) + int(g.groups()[0])
                r['ret'] = dict(url=u)
    return plugins


def subcase(case, k):
    """connection k of a multi-connection case as an ordinary single-connection case (independence of history
    is exactly what the model states: handle_route is a function of the request)"""
    c = case['conns'][k]
    return dict(kind=case['kind'], rewrite=case['rewrite'], plugins=resolve_plugins(case['plugins'], c['request']['target']),
                request=c['request'], draws=c['draws'], connect=c.get('connect', 'ok'), wrap='ok', reads=c.get('reads', []), cut=c.get('cut'))


def all_urls(case):
    for p in case['plugins']:
        for r in p['routes']:
            if r['type'] == 'static':
                for u in r['urls']:
                    yield u
            elif 'url' in r['ret']:
                yield r['ret']['url']


def make_world(case):
    """plugin classes + flags shared by every connection of the case (module-level state of /repo is shared anyway)"""
    import sim
    if case['plugins'] == 'shipped':
        from proxy.plugin import ReverseProxyPlugin
        classes = [ReverseProxyPlugin]
    else:
        classes = [mk_plugin_class(i, p) for i, p in enumerate(case['plugins'])]
    args = ['--enable-reverse-proxy', '--log-level', 'c'] + (['--rewrite-host-header'] if case['rewrite'] else [])
    return sim.make_flags(args=args, plugins=classes)


def run_impl(case):
    if case.get('kind') == 'conversation':
        return run_conversation(case['conv'])
    fl = make_world(case)
    if 'conns' in case:
        # several client connections, one after the other, handled by the same process / plugin classes / flags
        outs = [_run_conn(subcase(case, k), fl) for k in range(len(case['conns']))]
        return dict(conns=outs, snap=outs[0].get('snap'))
    return _run_conn(case, fl)


def _run_conn(case, fl):
    import sim
    from proxy.http import Url
    from proxy.http.server.web import HttpWebServerPlugin
    from proxy.common.constants import PROXY_AGENT_HEADER_VALUE, DEFAULT_BUFFER_SIZE, DEFAULT_DISABLE_HEADERS
    import logging
    logging.disable(logging.CRITICAL)
    out = dict(agent=PROXY_AGENT_HEADER_VALUE, chunk_size=DEFAULT_BUFFER_SIZE, disable_headers=list(DEFAULT_DISABLE_HEADERS),
               rewrite_flag=bool(fl.rewrite_host_header), urls={}, snap=None, draws=0, wrap_log=[])
    for u in all_urls(case):
        ub = url_bytes(u)
        try:
            x = Url.from_bytes(ub)
            out['urls'][ub.hex()] = dict(scheme=x.scheme, hostname=x.hostname, port=x.port, remainder=x.remainder,
                                         username=x.username, password=x.password)
        except Exception as e:
            out['urls'][ub.hex()] = dict(error=C.exn_code(e))
    draws = list(case['draws'])

    def choice(seq):
        out['draws'] += 1
        r = draws.pop(0) if draws else 0
        if not len(seq):
            raise IndexError('Cannot choose from an empty sequence')
        return seq[r % len(seq)]

    orig_orc = HttpWebServerPlugin.on_request_complete

    def orc(self):
        if out['snap'] is None:
            out['snap'] = snapshot_request(self.request)
        return orig_orc(self)

    def wrap(self, hostname=None, ca_file=None, as_non_blocking=False, **kw):
        out['wrap_log'].append([hostname, bool(as_non_blocking)])
        if case.get('wrap', 'ok') != 'ok':
            raise ssl.SSLError(1, 'generated handshake failure')

    cs = [sim.io_error(case['connect'])] if case.get('connect', 'ok') != 'ok' else []
    raw = wire(case['request'])
    with mock.patch('random.choice', choice), \
         mock.patch.object(HttpWebServerPlugin, 'on_request_complete', orc), \
         mock.patch('proxy.core.connection.server.TcpServerConnection.wrap', wrap), \
         sim.Sim(flags=fl, connect_script=cs) as s:
        cut = case.get('cut')
        if cut and 0 < cut < len(raw):
            s.client.feed(raw[:cut], raw[cut:])
        else:
            s.client.feed(raw)
        try:
            res = s.run()
        except Exception as e:       # raised by get_events(), i.e. outside handle_events
            res = ('raised', e); out['get_events_raised'] = repr(e)
            s.teardown()
        out['code'] = code_of(res)
        out['res'] = repr(res)
        out['connect_log'] = [[h, p] for h, p in s.connect_log]
        out['up'] = [u.out for u in s.upstreams]
        out['client'] = s.client.out
        out['n_up'] = len(s.upstreams)
        code_after = out['code']
        if out['code'] == 0 and s.upstreams:
            up = s.upstreams[-1]
            for item in case.get('reads', []):
                if s.torn:
                    break
                up.feed(sim.EOF if item == 'eof' else sim.io_error(item) if isinstance(item, str) else item)
                try:
                    r2 = s.run()
                except Exception as e:
                    r2 = ('raised', e); out['get_events_raised'] = repr(e); s.teardown()
                c2 = code_of(r2)
                if c2 != 0:
                    code_after = c2
                    break
        out['code_after'] = code_after
        out['client_after'] = s.client.out
        out['up_after'] = [u.out for u in s.upstreams]
        out['trace'] = [list(t) for t in s.trace]
        out['up_closed'] = [u.closed for u in s.upstreams]
        if not s.torn:
            s.teardown()
        out['up_closed_end'] = [u.closed for u in s.upstreams]
        out['trace_end'] = [list(t) for t in s.trace]
    logging.disable(logging.NOTSET)
    return out


# ----------------------------------------------------------------- Coq terms
def coq_obytes(b):
    return C.coq_option(C.coq_bytes, b)

def coq_url(x):
    return '(mkUrl %s %s %s %s)' % (coq_obytes(x['scheme']), coq_obytes(x['hostname']), C.coq_option(C.coq_N, x['port']), coq_obytes(x['remainder']))

def coq_request(s):
    hs = C.coq_list('H %s %s %s' % (C.coq_bytes(k), C.coq_bytes(ok), C.coq_bytes(v)) for k, ok, v in s['headers'])
    return '(mkRequest %s %s %s %s %s %s)' % (C.coq_bytes(s['method'] or b''), coq_obytes(s['path']), C.coq_bytes(s['version'] or b''),
                                             hs, coq_obytes(s['body']), C.coq_bool(s['chunked']))

def match_table(case, out):
    """(pattern index, text) pairs that match, computed with the real re; texts = every path the model may ask about"""
    texts = set()
    p0 = out['snap']['path']
    texts.add(p0 if p0 else b'/')
    if p0 is not None:
        texts.add(p0)
    for p in case['plugins']:
        if p.get('before') and p['before'] != 'drop':
            texts.add(bytes(p['before'][1]))
    tbl, idx = [], 0
    for p in case['plugins']:
        for r in p['routes']:
            for t in texts:
                try:
                    if re.compile(r['regex']).match(t.decode()):
                        tbl.append('M %d %s' % (idx, C.coq_bytes(t)))
                except UnicodeDecodeError:
                    pass
            idx += 1
    return C.coq_list(tbl)


def coq_plugins(plugins, urls):
    """the route tables as Coq terms (patterns are indices in table order); None when a configured URL does not parse"""
    idx = 0
    ps = []
    for p in plugins:
        rts = []
        for r in p['routes']:
            if r['type'] == 'static':
                us = [urls[url_bytes(u).hex()] for u in r['urls']]
                if any('error' in x for x in us):
                    return None
                rts.append('Static %d %s' % (idx, C.coq_list(coq_url(x) for x in us)))
            else:
                ret = r['ret']
                if 'url' in ret:
                    x = urls[url_bytes(ret['url']).hex()]
                    if 'error' in x:
                        return None
                    body = 'Ok (DUrl %s)' % coq_url(x)
                elif 'bytes' in ret:
                    body = 'Ok (DBytes %s)' % C.coq_bytes(ret['bytes'])
                else:
                    body = 'Err (HttpProtocolException 7)' if ret['exc'] == 'http' else 'Err ValueError'
                rts.append('Dynamic %d (fun _ => %s)' % (idx, body))
            idx += 1
        b = p.get('before')
        bf = '(fun r => Some r)' if not b else '(fun _ => None)' if b == 'drop' else '(fun r => Some (set_path r (Some %s)))' % C.coq_bytes(bytes(b[1]))
        ps.append('mkPlugin %s %s' % (bf, C.coq_list(rts)))
    return C.coq_list(ps)


def coq_cfg(out):
    return '(mkConfig %s %d %s %s)' % (C.coq_bool(out['rewrite_flag']), out['chunk_size'],
                                       C.coq_list(C.coq_bytes(x) for x in out['disable_headers']), C.coq_bytes(out['agent']))


def coq_reads(reads):
    return C.coq_list('REof' if x == 'eof' else 'RReset' if x == 'reset' else 'RTimeout' if x == 'timeout' else '(RData %s)' % C.coq_bytes(x)
                      for x in reads)


def coq_conn_outcome(kind):
    return {'ok': 'ConnOk', 'refused': 'ConnRefused'}.get(kind, '(ConnErr (OSError 0))')


def coq_term(case, out):
    if case.get('kind') == 'conversation':
        return conv_term(case['conv'], out)
    if 'conns' in case:
        ts = [coq_term(subcase(case, k), o) for k, o in enumerate(out['conns'])]
        return [t for t in ts if t is not None]
    if out.get('snap') is None:
        return None       # the request never reached the web server plugin: outside the model
    ps = coq_plugins(case['plugins'], out['urls'])
    if ps is None:
        return None
    wo = '(Ok tt)' if case.get('wrap', 'ok') == 'ok' else '(Err (OSError 0))'
    exp = '(mkExp %d %s %s %s %s %d %d %s)' % (
        out['code'], C.coq_list('A %s %d' % (C.coq_bytes(h.encode()), p) for h, p in out['connect_log']),
        C.coq_list(C.coq_bytes((w[0] or '').encode()) for w in out['wrap_log']),
        C.coq_bytes(b''.join(out['up'])), C.coq_bytes(out['client']), out['draws'], out['code_after'], C.coq_bytes(out['client_after']))
    return 'XReq (CReq %s %s %s %s %s %s %s %s %s)' % (coq_cfg(out), match_table(case, out), ps, coq_conn_outcome(case.get('connect', 'ok')), wo,
                                                      coq_request(out['snap']), C.coq_list('%d%%nat' % d for d in case['draws']),
                                                      coq_reads(case.get('reads', [])), exp)


def conv_reads(conv, i):
    """the scripted upstream reads that follow request i (older conversation cases carry one whole response per request)"""
    if 'reads' in conv:
        return list(conv['reads'][i]) if i < len(conv['reads']) else []
    return [conv['responses'][i]] if i < len(conv.get('responses', [])) else []


def conv_connect(conv, i):
    cs = conv.get('connect') or []
    return cs[i] if i < len(cs) else 'ok'


def conv_term(conv, o):
    """Coq side of a conversation: the requests that were handed in (the implementation stops at the first teardown), each
    with its raw segment, parsed form, connect outcome and the reads that followed, and everything observable at the end"""
    steps = o.get('steps') or []
    if conv.get('packing') == 'one-segment' or 'exception' in o or not steps or 'urls' not in o:
        return None          # two requests in one segment / a get_events() escape: outside the connection-level model
    if any(st.get('snap') is None or 'n_connect' not in st for st in steps):
        return None
    ps = coq_plugins(conv['plugins'], o['urls'])
    if ps is None:
        return None
    # match table: every (route, path) pair that Python's re matches, over the paths of all requests
    texts = set()
    for st in steps:
        p0 = st['snap']['path']
        texts.add(p0 if p0 else b'/')
    tbl, idx = [], 0
    for p in conv['plugins']:
        for r in p['routes']:
            for t in sorted(texts):
                try:
                    if re.compile(r['regex']).match(t.decode()):
                        tbl.append('M %d %s' % (idx, C.coq_bytes(t)))
                except UnicodeDecodeError:
                    pass
            idx += 1
    arrs = []
    for i, st in enumerate(steps):
        arrs.append('AR %s %s %s (Ok tt) %s' % (C.coq_bytes(wire(conv['requests'][i])), coq_request(st['snap']),
                                               coq_conn_outcome(conv_connect(conv, i)), coq_reads(conv_reads(conv, i))))
    exp = '(mkCExp %d %s %s %s %s %s %d)' % (
        steps[-1]['code'], C.coq_list('A %s %d' % (C.coq_bytes(str(h).encode()), p) for h, p in o['connect_log']),
        C.coq_list('%d' % st['n_connect'] for st in steps),
        C.coq_list(C.coq_bytes((w or '').encode()) for w in o['wrap_log']),
        C.coq_list(C.coq_bytes(x) for x in o['up_out_end']), C.coq_bytes(o['client']), o['draws'])
    return 'XConv %s %s %s (%s) %s %s %s' % (coq_cfg(o), C.coq_list(tbl), ps, arrs[0], C.coq_list(arrs[1:]),
                                            C.coq_list('%d%%nat' % d for d in conv['draws']), exp)


def model_expr(case):
    out = run_impl(case)
    t = coq_term(case, out)
    if isinstance(t, list):
        return C.coq_list('run_xcase (%s)' % x for x in t) if t else 'tt'
    return 'run_xcase (%s)' % t if t else 'tt'


# ----------------------------------------------------------------- the property on the implementation
def h11_request(raw):
    import h11
    c = h11.Connection(h11.SERVER)
    c.receive_data(raw)
    req, body = None, b''
    while True:
        e = c.next_event()
        if e is h11.NEED_DATA:
            return None
        if isinstance(e, h11.Request):
            req = e
        elif isinstance(e, h11.Data):
            body += bytes(e.data)
        elif isinstance(e, h11.EndOfMessage):
            break
        elif isinstance(e, h11.ConnectionClosed):
            return None
    rest = c.trailing_data[0]
    return dict(method=bytes(req.method), target=bytes(req.target), version=bytes(req.http_version),
                headers=[(bytes(k).lower(), bytes(v)) for k, v in req.headers.raw_items()], body=body, rest=bytes(rest))


def expected_target(case):
    """(route index info) the routes that fire, per the documented semantics, computed with re only"""
    path = case['request']['target']
    try:
        t = path.decode()
    except UnicodeDecodeError:
        return None
    fired = []
    for p in case['plugins']:
        for r in p['routes']:
            if re.compile(r['regex']).match(t):
                fired.append(r)
                break
    return fired


def default_port(u):
    return u['port'] if u['port'] else (80 if u['scheme'] == 'http' else 443)


def in_domain(case):
    """the property's quantifier: well-formed URLs, default hooks, valid request"""
    if any(p.get('before') for p in case['plugins']):
        return False
    for u in all_urls(case):
        if u.get('userinfo') or u['port'] == 0 or (u['path'] and ' ' in u['path']) or u.get('raw'):
            return False
    for p in case['plugins']:
        for r in p['routes']:
            if r['type'] == 'static' and not r['urls']:
                return False
            if r['type'] == 'dynamic' and 'exc' in r['ret']:
                return False
    rq = case['request']
    if not rq['method'] or b' ' in rq['version']:
        return False
    return case.get('wrap', 'ok') == 'ok'


def oracle(case, out):
    if case.get('kind') == 'conversation':
        return conv_oracle(case['conv'], out)
    if 'conns' in case:
        for k, o in enumerate(out['conns']):
            f = oracle(subcase(case, k), o)
            if f:
                return 'connection %d of %d handled by one process (each is the first request of its own connection; earlier ones: %r): %s' % (
                    k + 1, len(out['conns']), [c['request']['target'] for c in case['conns'][:k]], f)
        return None
    # the routing / forwarding statement first (more telling), then the URL parser cross-check
    return _oracle_main(case, out) or _oracle_urls(case, out)


def _oracle_urls(case, out):
    # Url.from_bytes agrees with the components the URL was generated from (and with urllib)
    for u in all_urls(case):
        ub = url_bytes(u)
        x = out['urls'][ub.hex()]
        if u.get('path') and ' ' in u['path']:
            continue
        if 'error' in x:
            return 'Url.from_bytes(%r) raised' % ub
        want = (u['scheme'].encode(), u['host'].encode(), u['port'], None if u['path'] is None else u['path'].encode() + bytes(u.get('raw') or b''))
        got = (x['scheme'], x['hostname'], x['port'], x['remainder'])
        if got != want:
            return 'Url.from_bytes(%r) = %r, generated from %r' % (ub, got, want)
        if u.get('raw'):
            continue
        sp = urlsplit(ub.decode())
        if sp.hostname != u['host'].strip('[]').lower() or sp.port != u['port'] or sp.scheme != u['scheme']:
            return 'urllib disagrees with the generator on %r' % ub
    return None


def _oracle_main(case, out):
    if not in_domain(case):
        return None
    fired = expected_target(case)
    if fired is None:
        return None
    if out.get('snap') is None:
        return 'request did not reach the web server plugin'
    try:
        ref = h11_request(wire(case['request']))
    except Exception:
        ref = None            # the client's own request is not valid HTTP for h11 (e.g. raw non-ASCII target)
    if not fired:
        # no route: 404 and no outbound connection
        if out['connect_log']:
            return 'no route matches but an outbound connection was attempted: %r' % out['connect_log']
        if not out['client'].startswith(b'HTTP/1.1 404 ') or out['code'] != 1:
            return 'no route matches but the client did not get 404 + close: %r' % out['client'][:40]
        import h11
        c = h11.Connection(h11.CLIENT)
        c.send(h11.Request(method='GET', target='/', headers=[('Host', 'x')])); c.send(h11.EndOfMessage())
        c.receive_data(out['client'])
        ev = c.next_event()
        if not isinstance(ev, h11.Response) or ev.status_code != 404:
            return '404 packet is not a well-formed 404 response'
        return None
    # the routes that fire: last URL-producing one decides the upstream (documented in notes/C12.md);
    # with one plugin this is simply the first matching route of the table
    if case.get('connect', 'ok') != 'ok':
        return None           # failure of the outbound connect is not part of the statement
    literal = b''.join(r['ret']['bytes'] for r in fired if r['type'] == 'dynamic' and 'bytes' in r['ret'])
    url_routes = [r for r in fired if r['type'] == 'static' or 'url' in r['ret']]
    if not out['client'].startswith(literal):
        return 'literal response of a dynamic route not delivered first/unmodified'
    if not url_routes:
        if out['connect_log']:
            return 'only literal routes fire but an outbound connection was attempted'
        return None if out['client'] == literal else 'client got more than the literal response'
    r = url_routes[-1]
    cands = r['urls'] if r['type'] == 'static' else [r['ret']['url']]
    if len(out['connect_log']) != 1:
        return 'expected exactly one outbound connection, saw %r' % out['connect_log']
    h, p = out['connect_log'][0]
    us = [u for u in cands if (u['host'], default_port(u)) == (h, p)]
    if not us:
        return 'connected to %r which is not host:port (default by scheme) of any URL of the selected route %r' % (
            (h, p), [url_bytes(u) for u in cands])
    # the scripted draw decides which one exactly
    if r['type'] == 'static':
        k = sum(1 for q in fired[:fired.index(r)] if q['type'] == 'static')
        u = cands[case['draws'][k] % len(cands)]
        if (u['host'], default_port(u)) != (h, p):
            return 'random.choice picked %r but the connection went to %r' % (url_bytes(u), (h, p))
    else:
        u = cands[0]
    want_wrap = [[u['host'], True]] if u['scheme'] == 'https' else []
    if case.get('connect', 'ok') != 'ok':
        return None
    if out['wrap_log'] != want_wrap:
        return 'TLS wrap calls %r, expected %r' % (out['wrap_log'], want_wrap)
    got = None
    try:
        got = h11_request(b''.join(out['up']))
    except Exception as e:
        if ref is not None:
            return 'upstream received bytes h11 rejects: %r' % e
    if ref is None:
        return None           # the client's own request is not valid HTTP for h11: outside the domain
    if got is None:
        return 'upstream did not receive a complete request'
    if got['rest']:
        return 'bytes after the forwarded request'
    authority = (u['host'] + (':%d' % u['port'] if u['port'] is not None else '')).encode()
    want_headers = [(k, authority if (k == b'host' and case['rewrite']) else v) for k, v in ref['headers']]
    gh = list(got['headers'])
    # h11 tolerates the duplicate identical Content-Length that build_http_request appends when the client spelled it differently
    if len(gh) == len(want_headers) + 1 and gh[-1][0] == b'content-length' and (b'content-length', gh[-1][1]) in want_headers:
        gh = gh[:-1]
    if got['method'] != ref['method']:
        return 'method changed'
    if got['version'] != ref['version']:
        return 'version changed'
    if got['target'] != (u['path'] or '/').encode():
        return 'request path %r is not the URL path %r' % (got['target'], u['path'])
    if gh != want_headers:
        return 'headers not preserved: %r vs %r' % (gh, want_headers)
    if got['body'] != ref['body']:
        return 'body changed'
    # response relayed unmodified (whatever the segmentation)
    if out['code'] == 0:
        sent = b''.join(x for x in case.get('reads', []) if not isinstance(x, str))
        if out['client_after'] != literal + sent:
            return 'upstream response not relayed unmodified'
    return None


def nontrivial(case, out):
    if case.get('kind') == 'conversation':
        return len(out.get('steps', [])) >= 2 and bool(out.get('connect_log'))
    if 'conns' in case:
        return any(nontrivial(subcase(case, k), o) for k, o in enumerate(out['conns']))
    return out.get('snap') is not None and (bool(out.get('connect_log')) and any(out.get('up', [])) or bool(out.get('client')))


def classify(case, out, failure):
    if case.get('kind') == 'conversation':
        return None
    return None


# ----------------------------------------------------------------- shrinking, search
def shrink(case, fails):
    if case.get('kind') == 'conversation':
        return case
    """greedy: drop reads / cut / headers / body / non-essential routes and URLs while the oracle still fails"""
    import copy
    if 'conns' in case:
        # a failure that depends on history inside the process cannot be shrunk inside this (already polluted)
        # process: every candidate would fail.  The case is small (2-4 connections); keep it whole so that the
        # replay reproduces from a fresh interpreter.
        return case
    cur = copy.deepcopy(case)

    def attempt(mod):
        t = copy.deepcopy(cur)
        try:
            mod(t)
        except Exception:
            return None
        return t if fails(t) else None

    changed = True
    rounds = 0
    while changed and rounds < 6:
        changed = False
        rounds += 1
        cands = [lambda t: t.update(cut=None), lambda t: t.update(connect='ok')]
        if cur.get('reads'):
            cands.append(lambda t: t.update(reads=[]))
            cands.append(lambda t: t.update(reads=[b''.join(x for x in t['reads'] if not isinstance(x, str))]))
        for i in range(len(cur['request']['headers'])):
            cands.append(lambda t, i=i: t['request']['headers'].pop(i))
        if cur['request']['body'] and not cur['request']['chunked']:
            def nobody(t):
                t['request']['body'] = b''
                t['request']['headers'] = [h for h in t['request']['headers'] if h[0].lower() != b'content-length']
            cands.append(nobody)
        for pi, p in enumerate(cur['plugins']):
            if len(cur['plugins']) > 1:
                cands.append(lambda t, pi=pi: t['plugins'].pop(pi))
            for ri, r in enumerate(p['routes']):
                if len(p['routes']) > 1:
                    cands.append(lambda t, pi=pi, ri=ri: t['plugins'][pi]['routes'].pop(ri))
                if r['type'] == 'static' and len(r['urls']) > 1:
                    for ui in range(len(r['urls'])):
                        cands.append(lambda t, pi=pi, ri=ri, ui=ui: t['plugins'][pi]['routes'][ri]['urls'].pop(ui))
        for f in cands:
            t = attempt(f)
            if t is not None:
                cur = t
                changed = True
                break
    return cur


def search(rng, tier, mismatching_cases):
    """the correspondence broke: look for an input on which the implementation violates the property itself"""
    n = 3000 if tier != 'thorough' else 20000
    pool = list(mismatching_cases)
    for i in range(n):
        c = pool[i] if i < len(pool) else mk_case(rng, rng.choice(['none', 'one', 'several']))
        try:
            out = run_impl(c)
        except Exception:
            continue
        f = oracle(c, out)
        if f:
            return c, f
    return None


# ----------------------------------------------------------------- exploration beyond the theorems' scope
def run_conversation(conv):
    """several requests over ONE client connection.  packing 'separate': each request is fed after the previous exchange is
    over (request flushed to the upstream, the scripted upstream reads relayed); 'one-segment': all requests in one segment
    (exploration only).  Recorded per request: outcome code after the request and its reads, number of connect attempts so
    far, the parsed request as the implementation saw it (snapshot at on_request_complete / at the entry of
    ReverseProxy.handle_request; a later request the code never parses is parsed here with a fresh HttpParser, exactly as
    web.py would)."""
    import sim, logging
    from proxy.http import Url
    from proxy.http.parser import HttpParser, httpParserTypes
    from proxy.http.server.web import HttpWebServerPlugin
    from proxy.http.server.reverse import ReverseProxy
    from proxy.common.constants import PROXY_AGENT_HEADER_VALUE, DEFAULT_BUFFER_SIZE, DEFAULT_DISABLE_HEADERS
    classes = [mk_plugin_class(i, p) for i, p in enumerate(conv['plugins'])]
    args = ['--enable-reverse-proxy', '--log-level', 'c'] + (['--rewrite-host-header'] if conv['rewrite'] else [])
    fl = sim.make_flags(args=args, plugins=classes)
    logging.disable(logging.CRITICAL)
    draws = list(conv['draws'])
    obs = dict(steps=[], agent=PROXY_AGENT_HEADER_VALUE, chunk_size=DEFAULT_BUFFER_SIZE, disable_headers=list(DEFAULT_DISABLE_HEADERS),
               rewrite_flag=bool(fl.rewrite_host_header), urls={}, draws=0, wrap_log=[])
    for u in all_urls(conv):
        ub = url_bytes(u)
        try:
            x = Url.from_bytes(ub)
            obs['urls'][ub.hex()] = dict(scheme=x.scheme, hostname=x.hostname, port=x.port, remainder=x.remainder)
        except Exception as e:
            obs['urls'][ub.hex()] = dict(error=C.exn_code(e))
    cur = dict(snap=None)

    def choice(seq):
        obs['draws'] += 1
        r = draws.pop(0) if draws else 0
        if not len(seq):
            raise IndexError('Cannot choose from an empty sequence')
        return seq[r % len(seq)]

    def wrap(self, hostname=None, ca_file=None, as_non_blocking=False, **kw):
        obs['wrap_log'].append(hostname)

    orig_orc = HttpWebServerPlugin.on_request_complete
    orig_hr = ReverseProxy.handle_request

    def orc(self):
        if cur['snap'] is None:
            cur['snap'] = snapshot_request(self.request)
        return orig_orc(self)

    def hr(self, request):
        if cur['snap'] is None:
            cur['snap'] = snapshot_request(request)
        return orig_hr(self, request)

    def fresh_snapshot(raw):
        try:
            p = HttpParser(httpParserTypes.REQUEST_PARSER)
            p.parse(memoryview(raw))
            return snapshot_request(p) if p.is_complete and not p.buffer else None
        except Exception:
            return None

    with mock.patch('random.choice', choice), mock.patch('proxy.core.connection.server.TcpServerConnection.wrap', wrap), \
         mock.patch.object(HttpWebServerPlugin, 'on_request_complete', orc), mock.patch.object(ReverseProxy, 'handle_request', hr), \
         sim.Sim(flags=fl) as s:
        try:
            if conv.get('packing') == 'one-segment':
                s.client.feed(b''.join(wire(r) for r in conv['requests']))
                res = s.run()
                obs['steps'].append(dict(res=repr(res), n_up=len(s.upstreams), up_out=[u.out for u in s.upstreams]))
            else:
                for i, rq in enumerate(conv['requests']):
                    if s.torn:
                        break
                    before_c = len(s.client.out)
                    cur['snap'] = None
                    ck = conv_connect(conv, i)
                    s.connect_script = [sim.io_error(ck)] if ck != 'ok' else []
                    s.client.feed(wire(rq))
                    res = s.run()
                    st = dict(res=repr(res), code=code_of(res), n_up=len(s.upstreams), answered=len(s.client.out) > before_c,
                              n_connect=len(s.connect_log), snap=cur['snap'] or fresh_snapshot(wire(rq)))
                    reads = conv_reads(conv, i)
                    if s.upstreams and not s.torn and st['code'] == 0 and reads:
                        before = len(s.client.out)
                        for item in reads:
                            if s.torn:
                                break
                            s.upstreams[-1].feed(sim.EOF if item == 'eof' else sim.io_error(item) if isinstance(item, str) else item)
                            r2 = s.run()
                            st['res2'] = repr(r2)
                            if code_of(r2) != 0:
                                st['code'] = code_of(r2)
                                break
                        st['relayed'] = s.client.out[before:] == b''.join(x for x in reads if not isinstance(x, str))
                    st['up_out'] = [u.out for u in s.upstreams]
                    st['up_closed'] = [u.closed for u in s.upstreams]
                    st['interest'] = dict(s.interest()[0]) if not s.torn else {}
                    obs['steps'].append(st)
                    if st['code'] != 0:
                        break
        except Exception as e:
            obs['exception'] = repr(e)
        if not s.torn:
            try:
                s.teardown()
            except Exception as e:
                obs['teardown_exc'] = repr(e)
        obs['up_closed_end'] = [u.closed for u in s.upstreams]
        obs['up_out_end'] = [u.out for u in s.upstreams]
        obs['connect_log'] = [list(x) for x in s.connect_log]
        obs['client'] = s.client.out
        obs['trace'] = [list(t) for t in s.trace]
    logging.disable(logging.NOTSET)
    return obs


def keep_alive_ref(rq):
    """HTTP/1.1 persistence as the client asked for it (RFC 7230 6.3, for the spellings generated here): version 1.1 and
    no Connection header other than keep-alive.  Independent of the model."""
    vals = [v.strip().lower() for k, v in rq['headers'] if k.lower() == b'connection']
    return rq['version'] == b'HTTP/1.1' and all(v == b'keep-alive' for v in vals)


def conv_oracle(conv, o):
    """property oracle for every LATER request whose predecessors were answered completely on a connection the client kept
    alive: it causes exactly one outbound connection, to the host and port of one of ITS OWN route's upstream URLs, and
    reaches that upstream (what happens to the previous upstream socket is the recorded C04/C10 finding and is not judged
    here; a later request that says Connection: close / HTTP/1.0 is connected but torn down before it is sent - the routing
    part is judged, the delivery part is C04's)"""
    steps = o.get('steps', [])
    if conv.get('packing') == 'one-segment' or 'exception' in o or len(steps) < 2:
        return None
    if not keep_alive_ref(conv['requests'][0]):
        return None           # the client did not ask for a persistent connection: what follows is not a request to judge
    for i in range(1, len(steps)):
        rq = conv['requests'][i]
        if not keep_alive_ref(conv['requests'][i - 1]) and i > 1:
            return None
        ci = dict(plugins=conv['plugins'], rewrite=conv['rewrite'], request=rq)
        if n_matching(conv['plugins'], rq['target']) < 1 or not in_domain(ci) or conv_connect(conv, i) != 'ok':
            continue
        fired = expected_target(ci) or []
        url_routes = [r for r in fired if r['type'] == 'static' or 'url' in r['ret']]
        if not url_routes or len(fired) != 1:
            continue          # literal answers / several plugins firing: covered for first requests; not judged here
        r = url_routes[-1]
        cands = r['urls'] if r['type'] == 'static' else [r['ret']['url']]
        want = {(u['host'].strip('[]'), default_port(u)) for u in cands}
        si = steps[i]
        if 'n_connect' in si and 'n_connect' in steps[i - 1]:
            mine = o['connect_log'][steps[i - 1]['n_connect']:si['n_connect']]
        else:
            mine = o['connect_log'][-1:] if len(o['connect_log']) >= 2 else []
        nth = 'request %d of the connection (%r, matching route %r -> %s)' % (i + 1, rq['target'], r['regex'], sorted(want))
        if len(mine) == 0:
            return '%s caused no outbound connection of its own; connect log %r' % (nth, o['connect_log'])
        if len(mine) > 1:
            return '%s caused %d outbound connections: %r' % (nth, len(mine), mine)
        got = mine[0]
        if (str(got[0]).strip('[]'), int(got[1])) not in want:
            return '%s was connected to %r' % (nth, tuple(got[:2]))
        if r['type'] == 'static' and 'draws' in o and len(conv['plugins']) == 1:
            # the scripted draw decides which URL exactly: count the static routes that fired for the earlier requests
            k = 0
            for j in range(i):
                fj = expected_target(dict(plugins=conv['plugins'], request=conv['requests'][j])) or []
                k += sum(1 for q in fj if q['type'] == 'static')
            u = cands[(conv['draws'][k] if k < len(conv['draws']) else 0) % len(cands)]
            if (u['host'].strip('[]'), default_port(u)) != (str(got[0]).strip('[]'), int(got[1])):
                return '%s: random.choice picked %r but the connection went to %r' % (nth, url_bytes(u), tuple(got[:2]))
        if keep_alive_ref(rq):
            fwd = si['up_out'][-1] if si.get('up_out') else b''
            if not bytes(fwd).startswith(bytes(rq['method']) + b' '):
                return '%s did not reach the upstream it was connected to' % nth
    return None


def extra_checks(rng, tier):
    import collections
    quick = tier != 'thorough'
    failures, notes = [], []
    # (1) the property oracle alone (no Coq) on many more first requests: a cheap failing-input search
    n = 1500 if quick else 30000
    kinds = collections.Counter()
    for i in range(n):
        c = mk_case(rng, rng.choice(['none', 'one', 'one', 'several', 'several']))
        c['kind'] = 'oracle-only/' + c['kind']
        try:
            out = run_impl(c)
        except Exception as e:
            failures.append(dict(case=c, out=None, what='harness could not drive the implementation: %r' % e))
            break
        f = oracle(c, out)
        kinds[c['kind']] += 1
        if f:
            failures.append(dict(case=c, out=out, what=f))
            if len(failures) >= 3:
                break
    # (2) conversations: 2 requests on one client connection, oracle only (incl. both requests in ONE segment, which the model does not cover)
    stats = collections.Counter()
    resp = b'HTTP/1.1 200 OK\r\nContent-Length: 2\r\n\r\nhi'
    nconv = 40 if quick else 600
    tries = 0
    while stats['conversations'] < nconv and tries < 50 * nconv:
        tries += 1
        c = mk_case(rng, 'one')
        if any(r['type'] != 'static' for p in c['plugins'] for r in p['routes']) or len(c['plugins']) != 1:
            continue
        rq1 = dict(c['request'], method=b'GET', headers=[[b'Host', b'me.example']], body=b'', chunked=False, version=b'HTTP/1.1')
        second = rng.choice(['same', 'other-path', 'other-route', 'other-route'])
        rq2 = dict(rq1) if second == 'same' else dict(rq1, target=rng.choice(PATHS))
        if second == 'other-route':
            # (round-3 seed C12-r3-1) a second route whose upstream differs from the first one's only in the PORT, only in
            # the host, or in both: the later request must be connected to ITS route's host and port
            import copy
            p0 = copy.deepcopy(c['plugins'][0])
            r0 = next((r for r in p0['routes'] if re.compile(r['regex']).match(rq1['target'].decode('latin-1'))), None)
            if r0 is None or not r0.get('urls'):
                continue
            u0 = r0['urls'][0]
            u2 = dict(u0)
            how = rng.choice(['port', 'port', 'host', 'both'])
            if how in ('port', 'both'):
                u2['port'] = rng.choice([x for x in (81, 8080, 8443, 65535, 1) if x != default_port(u0)])
            if how in ('host', 'both'):
                u2['host'] = rng.choice([h for h in ('up1.example', 'up2.example', '10.0.0.7') if h != u0['host']])
            u2 = dict(u2, path='/second', userinfo=None, raw=None)
            p0['routes'] = [dict(type='static', regex=r'/zz-second$', urls=[u2])] + p0['routes']
            c = dict(c, plugins=[p0])
            rq2 = dict(rq1, target=b'/zz-second')
        n2 = n_matching(c['plugins'], rq2['target'])
        packing = 'separate' if rng.random() < 0.75 else 'one-segment'
        conv = dict(plugins=c['plugins'], rewrite=c['rewrite'], draws=[0] * 6, requests=[rq1, rq2], responses=[resp, resp], packing=packing)
        o = run_conversation(conv)
        stats['conversations'] += 1
        if 'exception' in o:
            stats['exception: ' + o['exception'][:60]] += 1
            continue
        if packing == 'one-segment':
            stats['one-segment: %d upstream(s) opened, second request %s' % (
                o['steps'][0]['n_up'], 'forwarded' if len(o['connect_log']) > 1 or any(x.count(b'HTTP/1.') > 1 for x in o['steps'][0]['up_out']) else 'not forwarded')] += 1
            continue
        if len(o['steps']) < 2:
            stats['torn down after first request'] += 1
            continue
        s2 = o['steps'][1]
        what = conv_oracle(conv, o)
        if what:
            failures.append(dict(case=dict(kind='conversation', conv=conv), out=o, what=what))
            stats['later-request routing violated'] += 1
            if len(failures) >= 3:
                break
        elif n2 >= 1:
            stats['later-request routing checked'] += 1
        if n2 >= 1:
            stats['2nd request matches a route: new upstream connection opened = %s, old upstream socket closed at the end = %s, forwarded+relayed = %s' % (
                s2['n_up'] == 2, o['up_closed_end'][0] if o['up_closed_end'] else None, bool(s2.get('relayed')) and s2['n_up'] == 2 and bool(s2['up_out'][-1]))] += 1
        elif n2 == 0:
            stats['2nd request matches no route: client answered (404) = %s, outbound connection = %s' % (s2['answered'], s2['n_up'] > 1)] += 1
        else:
            stats['2nd request path undecodable'] += 1
    notes.append('oracle-only sweep: %d further first-request cases, %d failures; kinds %s' % (sum(kinds.values()), len(failures), dict(kinds)))
    notes.append('multi-request exploration, implementation only (conversations in separate segments are also compared with the model Net/ReverseConv.v in the conversation stream; one-segment packing and the fate of the replaced upstream socket are C04/C10 findings): ' + json.dumps(dict(stats), sort_keys=True))
    return dict(failures=failures, notes=notes, oracle_only_cases=sum(kinds.values()), conversation_stats=dict(stats))
