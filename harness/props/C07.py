"""C07 — queued output is fully delivered before the proxy closes a client connection.
Teardown-heavy event lists against the real HttpProtocolHandler (threadless shutdown, and threaded shutdown with
its blocking _flush driven through a fake selector); correspondence with Net/Handler.v and the property's own
statement on the implementation: bytes the client peer received before close == bytes queued for it."""
import itertools
import common as C
from props import net_common as NC

ID = 'C07'
COQ_TARGETS = ['theories/Props/C07.vo', 'theories/Net/RelayCases.vo']
IMPORTS = NC.net_imports()
CASE_TYPE = 'net_case'
CHECK_FN = 'check_net_case'
ANCHOR_FILES = ['proxy/core/base/tcp_server.py', 'proxy/http/handler.py', 'proxy/core/connection/connection.py', 'proxy/core/base/tcp_tunnel.py',
                'proxy/core/work/threadless.py']
RULE = ('teardown scripts = event lists in which an exchange ends: upstream EOF / reset / timeout at a random position relative '
        'to the client drains, upstream send failure (broken pipe / OS error) with output pending, client EOF, error responses '
        '(400 bad request, 502 connect failure), web-server replies (404 + close, routed reply + keep-alive), max_sendbuf_size 1..9, '
        'slow clients (few writable reports, small accepts, would-block); each in threadless mode (shutdown does not flush) and in '
        'threaded mode (shutdown runs the blocking _flush against a scripted selector); non-trivial = the handler ended the '
        'connection after output had been queued and at least one client send was short or blocked; distinct = distinct inputs')
TRUSTED = [
    'the first-request parser / plugin dispatch is ABSTRACT in Net/Handler.v (oracle read off the real objects at the handle_data boundary)',
    'FakeSock / FakeSelector stand for the kernel socket and selector; real TCP RST/linger behaviour after close() is not modelled']
ASSUMPTIONS = ['"provided it keeps reading": cases in which a client send fails (broken pipe / OS error) are excluded from the property oracle',
               'model describes /repo after fix commits ba95ac6 (C01-guard-response-parse) and ae6ca23 (C07-write-side-teardown)',
               'an exception escaping handle_events (Raised) ends the connection without a flush in threadless mode; none is reachable in the '
               'modelled code except TimeoutError without errno from a non-blocking upstream recv (cannot occur on a non-blocking socket)']
SHARD = 40


def add_threaded(rng, c):
    c['threaded'] = True
    m = c['max_send']
    pre = [rng.choice([None, None, 1, 2, m, 'block', 0]) for _ in range(rng.choice([0, 2, 5]))]
    if rng.random() < 0.1:
        pre.append(rng.choice(['pipe', 'oserror', 'reset']))
    c['sel'] = pre + [rng.choice([1, 2, m, m + 1, 100000]) for _ in range(rng.choice([3, 60, 250]))]
    return c


def generate(rng, tier):
    quick = tier != 'thorough'
    cases = []
    n = 200 if quick else 4000
    for i in range(n):
        c = NC.gen_relay(rng, profile='teardown', handler='http',
                         n_events=rng.choice([8, 12, 18, 26]) if quick else rng.choice([12, 30, 60, 100]))
        if i % 4 == 3:
            add_threaded(rng, c)
            if rng.random() < 0.5 and c['exchange'] in ('connect', 'http'):
                # an exception escaping handle_events (TimeoutError without errno is re-raised by read_from_descriptors):
                # threaded run() ends up in shutdown(), whose blocking _flush must still deliver what is queued
                c['up_plan'] = [x for x in c['up_plan'] if isinstance(x, (bytes, bytearray))] + ['timeout0']
                c['ending'] = 'up-raise'
        cases.append(c)
    # BaseTcpTunnelHandler (examples/https_connect_tunnel.py): the upstream closes while output is pending for a slow client
    for i in range(24 if quick else 400):
        c = NC.gen_relay(rng, profile='teardown', handler='tunnel', n_events=rng.choice([8, 12, 18]))
        if c['ending'] not in ('up-eof', 'client-eof', 'none'):
            c['up_plan'] = [x for x in c['up_plan'] if isinstance(x, (bytes, bytearray))] + ['eof']
            c['ending'] = 'up-eof'
            for ev in c['events']:
                if ev.get('u_send') in ('pipe', 'oserror'):
                    ev['u_send'] = 1
        cases.append(c)
    return cases


def run_impl(case):
    return NC.run_relay(case)


def coq_term(case, out):
    return 'NRelay (%s)' % NC.coq_relay_case(case, out)


def model_expr(case):
    return 'model_output (%s)' % NC.coq_relay_case(case, run_impl(case))


def client_send_error(out, case):
    if any(l[0] == 'send_err' and l[1] != 'BlockingIOError' for l in out['fin']['client_log']):
        return True
    return False


def oracle(case, out):
    fin, steps = out['fin'], out['steps']
    queued = fin['queued']
    # at every moment: nothing dropped, nothing reordered
    if fin['cout'] + fin['cpend'] != queued:
        return 'client received %d + %d still buffered != %d queued' % (len(fin['cout']), len(fin['cpend']), len(queued))
    if client_send_error(out, case):
        if fin['res'] != 0 and case.get('handler', 'http') == 'http' and fin['uclosed'] == 1:
            return 'the client went away during the final flush and the upstream socket was left open (close callbacks skipped): %s' % fin['client_log'][-3:]
        return None                       # the client went away: "provided it keeps reading" does not apply
    # prompt: once the upstream's EOF / error has been consumed or a rejection path asked for teardown, the first call
    # that leaves the client buffer empty must be the one that returns True (no later than that)
    pending_since = None
    for i, (ev, s, orc) in enumerate(zip(out['events'], steps, out['oracles'])):
        eof_now = ev.get('u_recv') in ('eof', 'reset', 'oserror', 'timeout') and s['u_taken'] and s['res'] != 2
        rej_now = isinstance(orc['req'], list) and orc['req'][0] == 'error' or isinstance(orc['cdata'], list) and orc['cdata'][0] == 'proto'
        if pending_since is None and (eof_now or rej_now):
            pending_since = i
        if pending_since is not None and s['cpend'] == 0 and s['res'] == 0:
            return 'step %d: teardown was pending since step %d and the client buffer is empty, but handle_events returned False' % (i, pending_since)
    if fin['res'] == 0:
        return None                       # the proxy has not ended the connection
    if case.get('handler') == 'tunnel':
        # BaseTcpTunnelHandler: exceptions escape by design (no try/except in the class) and a client-side end is
        # answered by an immediate teardown in BaseTcpServerHandler; the client socket is closed by the executor
        last = out['events'][len(steps) - 1] if steps else {}
        client_end = steps and steps[-1]['c_taken'] and last.get('c_recv') in ('eof', 'reset', 'timeout', 'oserror')
        if fin['res'] == 1 and not client_end and fin['cout'] != queued:
            return ('tunnel handler closed the client connection with %d of %d queued bytes undelivered (upstream closed?)'
                    % (len(queued) - len(fin['cout']), len(queued)))
        return None
    if fin['uclosed'] == 1:
        # whatever the final flush ran into, the close callbacks must run: the upstream socket may not be left open (faabfc0)
        return 'the client connection was shut down but the upstream socket was left open (close callbacks skipped?): %s' % fin['client_log'][-3:]
    threaded = bool(case.get('threaded'))
    if threaded:
        # shutdown()'s blocking flush: complete delivery whenever the scripted selector let the client keep reading
        sel = case.get('sel', [])
        clean = not any(x in ('pipe', 'oserror', 'reset') for x in sel)
        pend0 = steps[-1]['cpend'] if steps else 0          # pending when the loop ended, before shutdown()
        enough = clean and sum(1 for x in sel if isinstance(x, int) and x > 0) >= 2 * pend0 + 2
        if fin['cout'] != queued and enough:
            return 'threaded shutdown closed the client with %d of %d queued bytes undelivered' % (len(queued) - len(fin['cout']), len(queued))
        if not fin['cclosed']:
            return 'client socket not closed after teardown'
        return None
    if fin['cout'] != queued:
        how = 'an exception escaped handle_events (%s)' % fin['trace'] if fin['res'] == 2 else 'handle_events returned True'
        return ('the proxy closed the client connection with %d of %d queued bytes undelivered: %s; lost bytes start %r'
                % (len(queued) - len(fin['cout']), len(queued), how, queued[len(fin['cout']):len(fin['cout']) + 20]))
    if not fin['cclosed']:
        return 'client socket not closed after teardown'
    return None


def nontrivial(case, out):
    fin = out['fin']
    short = any(l[0] == 'send' and l[2] < l[1] for l in fin['client_log']) or any(l[0] == 'send_err' for l in fin['client_log'])
    return fin['res'] != 0 and len(fin['queued']) > 0 and short


def shrink(case, fails):
    evs = list(case['events'])
    changed = True
    while changed and len(evs) > 1:
        changed = False
        for i in range(len(evs) - 1, -1, -1):
            c2 = dict(case, events=evs[:i] + evs[i + 1:])
            try:
                bad = fails(c2)
            except Exception:
                bad = False
            if bad:
                evs = c2['events']; changed = True
                break
    return dict(case, events=evs)


def extra_checks(rng, tier):
    """thorough: every upstream-close position x client drain pattern for outputs of <= 4 pieces"""
    if tier != 'thorough':
        return {}
    failures, n = [], 0
    T0 = NC.T0
    req = b'CONNECT h.example:443 HTTP/1.1\r\nHost: h.example:443\r\n\r\n'
    pieces_sets = [[b'a'], [b'abc', b'd'], [b'ab', b'cde', b'f'], [b'abcdefgh', b'i', b'jk', b'lmnop']]
    drains = [[100000], [1], [2, 'block', 1], [3, 1, 'block', 'block', 2], [0, 1]]
    for pieces in pieces_sets:
        for close_pos in range(len(pieces) + 1):
            for kind in ('eof', 'reset'):
                for m in (1, 2, 3, 9):
                    for dr in drains:
                        for interleave in (False, True):
                            evs = [dict(now=T0 + 1, r=['client'], w=[], c_recv=req, probe=T0 + 1)]
                            t = T0 + 2
                            ups = list(pieces[:close_pos]) + [kind]
                            k = 0
                            for u in ups:
                                e = dict(now=t, r=['up0'], w=[], u_recv=u, probe=t)
                                if interleave:
                                    e['w'] = ['client']; e['c_send'] = dr[k % len(dr)]; k += 1
                                evs.append(e); t += 1
                            for j in range(170):          # enough effective writes for ack + all pieces at max_send = 1
                                evs.append(dict(now=t, r=[], w=['client'], c_send=dr[(k + j) % len(dr)] if j < 20 else 100000, probe=t)); t += 1
                            case = dict(kind='relay', profile='exhaustive', handler='http', max_send=m, timeout=10, t0=T0, threaded=False,
                                        web=False, connect=[], sel=[], events=evs, exchange='connect')
                            out = run_impl(case)
                            n += 1
                            f = oracle(case, out)
                            if not f and out['fin']['res'] != 1:
                                f = 'connection not torn down although upstream closed and the client drained everything'
                            if f:
                                failures.append(dict(case=case, out=out, what=f))
    return dict(failures=failures[:5], notes=['exhaustive upstream-close position x drain pattern scripts: %d' % n], exhaustive_scripts=n)
