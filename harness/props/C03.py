"""C03 — incremental HTTP parsing does not depend on segmentation.
Correspondence of Http/{Chunk,Parser,Url}.v with proxy/http/parser/{parser,chunk}.py, url.py, and the
property's own statement on the implementation (pieces == whole, complete exactly at the end)."""
import common as C
from props import http_common as H

ID = 'C03'
COQ_TARGETS = ['theories/Props/C03.vo', 'theories/Http/HttpCases.vo']
IMPORTS = H.IMPORTS
CASE_TYPE = 'case'
CHECK_FN = 'check_case'
SHARD = 120
ANCHOR_FILES = ['proxy/http/parser/parser.py', 'proxy/http/parser/chunk.py', 'proxy/http/url.py', 'proxy/common/utils.py']
RULE = ('cases = (parser type, message bytes ++ tail, cut list): grammar stream (requests in origin/absolute/authority form and '
        'responses; Content-Length, Content-Length: 0, chunked with random layouts, hex case, leading zeros, extensions, trailers, '
        'empty chunked body; body-less requests; header-less status lines) x cut strategies (whole, every single 2-cut sampled, '
        'random n-cuts, cuts within +-2 of every CR/LF and of the message end, one byte per piece), the chunked decoder alone on the '
        'same layouts, and a mutation stream (truncation, doubled/lone CR LF, bad lengths, non-UTF-8, duplicated framing headers). '
        'non-trivial = the whole-feed parse reached COMPLETE without exception and the case has >= 2 pieces; distinct = distinct (bytes, cuts)')
TRUSTED = ['CPython semantics of bytes.split/strip/lower/int()/slicing as modelled in Lib/PyStr.v',
           'message grammar of harness/props/http_common.py as the definition of "well-formed self-delimiting message"']
ASSUMPTIONS = ['--enable-proxy-protocol off (default)', 'close-delimited responses are excluded by the property']


def boundary_cuts(data, msg_len):
    pts = set()
    for i, ch in enumerate(data):
        if ch in (13, 10):
            for d in (-1, 0, 1, 2):
                pts.add(i + d)
    for d in (-2, -1, 0, 1, 2):
        pts.add(msg_len + d)
    return sorted(p for p in pts if 0 < p < len(data))


def cut_strategies(rng, data, msg_len, tier):
    n = len(data)
    yield []                                        # whole
    if n <= 1:
        return
    bc = boundary_cuts(data, msg_len)
    k2 = 3 if tier != 'thorough' else 10
    for p in rng.sample(bc, min(k2, len(bc))):      # 2-piece cuts at boundaries
        yield [p]
    for _ in range(2 if tier != 'thorough' else 6):
        yield [rng.randrange(1, n)]
    for _ in range(2 if tier != 'thorough' else 5):
        yield H.random_cuts(rng, n, rng.randint(2, 6))
    if bc:
        yield sorted(rng.sample(bc, min(len(bc), rng.randint(2, 8))))
    if n <= (120 if tier != 'thorough' else 200):
        yield list(range(1, n))                     # one byte per piece


def mutate(rng, raw):
    r = rng.randrange(10)
    if r == 9:
        # damaged chunk-size lines: int(x, 16) accepts signs, 0x, underscores and surrounding blanks
        import re as _re
        return _re.sub(rb'\r\n([0-9a-fA-F]+)(;[^\r]*)?\r\n', lambda m: b'\r\n' + rng.choice([b'-', b'+', b'0x', b' ', b'-0', b'1_']) + m.group(1) + rng.choice([b'', b' ', b'_0']) + b'\r\n', raw, count=1)
    if r == 0: return raw[:rng.randrange(0, len(raw) + 1)]
    if r == 1:
        i = rng.randrange(0, len(raw) + 1); return raw[:i] + b'\r\n' + raw[i:]
    if r == 2:
        i = raw.find(b'\r\n', rng.randrange(0, len(raw))); return raw if i < 0 else raw[:i] + rng.choice([b'\r', b'\n', b'']) + raw[i + 2:]
    if r == 3: return raw.replace(b'Content-Length: ', b'Content-Length: ' + rng.choice([b'x', b'-', b'+', b'1_', b' 0x', b'9' * 30]), 1)
    if r == 4:
        i = rng.randrange(0, len(raw) + 1); return raw[:i] + bytes([rng.choice([0xff, 0xc3, 0x80, 0x00])]) + raw[i:]
    if r == 5: return raw.replace(b'\r\n\r\n', b'\r\nContent-Length: %d\r\n\r\n' % rng.choice([0, 3, 50]), 1)
    if r == 6: return raw.replace(b'\r\n\r\n', b'\r\nTransfer-Encoding: chunked\r\n\r\n', 1)
    if r == 7: return raw.replace(b' ', rng.choice([b'', b'  ', b'\t']), 1)
    i = rng.randrange(0, len(raw)); return raw[:i] + bytes([rng.randrange(256)]) + raw[i + 1:]


def generate(rng, tier):
    cases = []
    nmsg = 70 if tier != 'thorough' else 1200
    for _ in range(nmsg):
        d = H.gen_message(rng)
        tail = b''
        if not d['header_less'] and rng.random() < 0.6:
            tail = rng.choice([H.rbody(rng, rng.randint(1, 12)), b'GET / HTTP/1.1\r\n\r\n', b'\r\n', b'0\r\n\r\n', b'HTTP/1.1 200 OK\r\n'])
        data = d['raw'] + tail
        meta = dict(ptype=d['ptype'], framing=d['framing'], body=d['body'], msg_len=len(d['raw']), tail=tail,
                    fields={k: d.get(k) for k in ('method', 'version', 'code', 'reason', 'host', 'port', 'path')},
                    nheaders=len(d['headers']))
        for cuts in cut_strategies(rng, data, len(d['raw']), tier):
            cases.append(dict(kind='parse', ptype=d['ptype'], data=data, cuts=cuts, meta=meta))
        # the chunked decoder used on its own, on the same layout
        if d['framing'] == 'chunked':
            wire = d['raw'].split(b'\r\n\r\n', 1)[1] + tail
            hdr_len = len(d['raw']) - len(d['raw'].split(b'\r\n\r\n', 1)[1])
            for cuts in cut_strategies(rng, wire, len(d['raw']) - hdr_len, 'quick'):
                cases.append(dict(kind='chunk', data=wire, cuts=cuts, meta=dict(body=d['body'], msg_len=len(d['raw']) - hdr_len, tail=tail)))
    # malformed stream: correspondence only
    for _ in range(120 if tier != 'thorough' else 3000):
        d = H.gen_message(rng)
        raw = mutate(rng, d['raw'] + rng.choice([b'', b'', b'xyz']))
        if rng.random() < 0.3 and raw:
            raw = mutate(rng, raw)
        if not raw:
            continue
        n = len(raw)
        cuts = rng.choice([[], H.random_cuts(rng, n, 1), H.random_cuts(rng, n, 3), list(range(1, n)) if n < 80 else []])
        cases.append(dict(kind='parse', ptype=d['ptype'], data=raw, cuts=cuts, meta=None))
        if rng.random() < 0.25:
            body = raw.split(b'\r\n\r\n', 1)[-1]
            if body:
                cases.append(dict(kind='chunk', data=body, cuts=H.random_cuts(rng, len(body), 2), meta=None))
    return cases


def complete_at(ptype, pieces):
    """cumulative number of bytes after which the parser first reported completion (None if never / raised)"""
    from proxy.http.parser import HttpParser
    p = HttpParser(ptype)
    tot = 0
    for x in pieces:
        try:
            p.parse(memoryview(x))
        except Exception:
            return None
        tot += len(x)
        if p.is_complete:
            return tot
    return None


def chunk_complete_at(pieces):
    from proxy.http.parser.chunk import ChunkParser, chunkParserStates
    c = ChunkParser(); tot = 0
    for x in pieces:
        try:
            c.parse(memoryview(x))
        except Exception:
            return None
        tot += len(x)
        if c.state == chunkParserStates.COMPLETE:
            return tot
    return None


def run_impl(case):
    pieces = H.cut(case['data'], case['cuts'])
    if case['kind'] == 'parse':
        out = dict(pieces=H.run_parser(case['ptype'], pieces), whole=H.run_parser(case['ptype'], [case['data']]))
        if case.get('meta'):
            out['complete_at'] = complete_at(case['ptype'], pieces)
        return out
    out = dict(pieces=H.run_chunk(pieces), whole=H.run_chunk([case['data']]))
    if case.get('meta'):
        out['complete_at'] = chunk_complete_at(pieces)
    return out


def coq_term(case, out):
    pieces = H.cut(case['data'], case['cuts'])
    if case['kind'] == 'parse':
        t = [H.term_parser(case['ptype'], pieces, out['pieces'])]
        if case['cuts'] == []:
            return t
        return t
    return [H.term_chunk(pieces, out['pieces'])]


def strip_internal(o):
    return {k: v for k, v in o.items() if k not in ('exc',)}


def oracle(case, out):
    meta = case.get('meta')
    if not meta:
        return None
    a, w = out['pieces'], out['whole']
    if 'err' in w:
        return 'well-formed message raised %s when fed whole' % w.get('exc')
    if 'err' in a:
        return 'well-formed message raised %s at piece %d of %d' % (a.get('exc'), a['err_idx'], len(case['cuts']) + 1)
    if strip_internal(a) != strip_internal(w):
        diff = [k for k in w if a.get(k) != w.get(k)]
        return 'state after %d pieces differs from state after one piece in %s' % (len(case['cuts']) + 1, diff)
    tail = meta['tail']
    if case['kind'] == 'parse':
        if w['state'] != 6:
            return 'self-delimiting message not reported complete (state %d)' % w['state']
        if (w['buffer'] or b'') != tail:
            return 'bytes after the message not preserved as remainder: %r vs %r' % (w['buffer'], tail)
        if (w['body'] or b'') != meta['body']:
            return 'decoded body differs'
        f = meta['fields']
        for k in ('method', 'version', 'code', 'host', 'path'):
            if f.get(k) is not None and w[k] != f[k]:
                return 'start-line field %s: %r, expected %r' % (k, w[k], f[k])
        if meta['ptype'] == 1 and f.get('port') is not None and w['port'] != f['port']:
            return 'port %r, expected %r' % (w['port'], f['port'])
        if len(w['headers'] or []) != meta['nheaders']:
            return 'number of headers %d, expected %d' % (len(w['headers'] or []), meta['nheaders'])
    else:
        if w['state'] != 3:
            return 'chunked stream not reported complete'
        if w['remainder'] != tail:
            return 'bytes after the chunked stream not preserved: %r vs %r' % (w['remainder'], tail)
        if w['body'] != meta['body']:
            return 'decoded chunked body differs'
    # complete exactly when the last byte has been supplied, never earlier
    pieces = H.cut(case['data'], case['cuts'])
    cum, want = 0, None
    for x in pieces:
        cum += len(x)
        if cum >= meta['msg_len']:
            want = cum; break
    if out.get('complete_at') != want:
        return 'reported complete after %r bytes, message ends at %d (piece boundary %r)' % (out.get('complete_at'), meta['msg_len'], want)
    return None


def nontrivial(case, out):
    w = out['whole']
    return 'err' not in w and w['state'] in (6, 3) and len(case['cuts']) >= 1


def classify(case, out, failure):
    return None


def model_expr(case):
    pieces = H.cut(case['data'], case['cuts'])
    if case['kind'] == 'parse':
        return 'parser_pieces 0 (new_parser %s) %s' % ('REQUEST_PARSER' if case['ptype'] == 1 else 'RESPONSE_PARSER', H.coq_pieces(pieces))
    return 'chunk_pieces 0 new_chunkp [] %s' % H.coq_pieces(pieces)


def shrink(case, fails):
    cur = dict(case)
    # fewer cuts first
    improved = True
    while improved and cur['cuts']:
        improved = False
        for i in range(len(cur['cuts'])):
            t = dict(cur, cuts=cur['cuts'][:i] + cur['cuts'][i + 1:])
            if fails(t):
                cur = t; improved = True; break
    return cur


def debug_mismatches(seed=0):
    import random
    rng = random.Random(seed * 1000003 + sum(map(ord, ID)))
    cases = generate(rng, 'quick')
    outs = [run_impl(c) for c in cases]
    terms, idx = [], []
    for i, (c, o) in enumerate(zip(cases, outs)):
        for t in coq_term(c, o):
            terms.append(t); idx.append(i)
    mism, errs = C.run_coq_cases(ID, IMPORTS, CASE_TYPE, CHECK_FN, terms, shard=SHARD)
    print(errs[:2])
    for j in mism[:8]:
        c, o = cases[idx[j]], outs[idx[j]]
        print('---', c['kind'], c.get('ptype'), c['data'], c['cuts'])
        print({k: v for k, v in o['pieces'].items()})
        print(C.coq_eval(ID, IMPORTS, model_expr(c))[-1500:])
