"""C14 — the proxy connects to exactly the host and port the request-target names.
Correspondence of Http/{Url,Upstream}.v with proxy/http/url.py, HttpParser's host/port/path, HttpProxyPlugin.connect_upstream,
TcpServerConnection.connect and the REAL proxy.common.utils.new_socket_connection observed at the socket level (fake
`socket.socket` / `socket.create_connection` inside proxy.common.utils), plus the property's own statement on the
implementation with urllib.parse.urlsplit + ipaddress as independent references."""
import os, sys, types, socket, logging, ipaddress, itertools
from unittest import mock
from urllib.parse import urlsplit
sys.path.insert(0, os.path.dirname(os.path.dirname(os.path.abspath(__file__))))
import common as C
import sim
from props import http_common as H

logging.disable(logging.CRITICAL)

ID = 'C14'
COQ_TARGETS = ['theories/Props/C14.vo', 'theories/Http/UrlCases.vo']
IMPORTS = ('From PM Require Import Lib.Bytes Lib.PyStr Http.Url Http.Chunk Http.Parser Http.HttpCases Http.Upstream Http.UrlCases.\n'
           'From Coq Require Import ZArith.')
CASE_TYPE = 'UrlCases.case'
CHECK_FN = 'UrlCases.check_case'
SHARD = 600
ANCHOR_FILES = ['proxy/http/url.py', 'proxy/http/parser/parser.py', 'proxy/http/proxy/server.py',
                'proxy/core/connection/server.py', 'proxy/common/utils.py']
RULE = ('request-targets generated from the URI grammar restricted to http and authority forms: origin-form (paths with reserved '
        'characters, empty segments, queries), absolute-form (optional userinfo with/without password, colons in the password; '
        'reg-names incl. sub-delims, pct-encoding, IDNA A-labels and raw UTF-8; IPv4; IPv6 in random compressed/uncompressed/'
        'v4-mapped spellings, upper/lower case, leading zeros; port absent / 0 / 1 / 80 / 443 / 65535 / random / leading zeros; '
        'path absent or with query) and CONNECT authority-form (60 % of the stream), plus a damaged stream (brackets dropped/'
        'doubled/unbalanced, un-bracketed IPv6 with and without trailing :port, signs/underscores/blanks/letters/huge/negative/'
        'out-of-range numbers as port, empty host, doubled @, foreign/upper-case schemes, "//host" network-path references, '
        'truncation, random byte insertion incl. non-UTF-8) and a boundary stream (ports 0, 1, 65535, 65536, 65616, 99999, 2^32+80; '
        'hosts "[", "[]", "[x", "x]"). Every target is run through Url.from_bytes, HttpParser (request line), and the real '
        'HttpProtocolHandler+HttpProxyPlugin with the real new_socket_connection on fake socket primitives. '
        'non-trivial = a grammar-valid target that names a host with a port in 1..65535 and for which a socket-level call was '
        'observed; distinct = distinct (method, target)')
TRUSTED = ['CPython semantics of bytes.split/join/int()/decode as modelled in Lib/PyStr.v',
           'urllib.parse.urlsplit and ipaddress (CPython 3.12) as independent references for valid targets',
           'ip_literal_version (ipaddress.ip_address) enters the Coq model as a Section variable; each case carries its observed value',
           'socket.socket.connect / socket.create_connection / the resolver / the kernel are outside the model: the theorems end at '
           'the arguments handed to them (a live loopback run in extra_checks confirms a listener on 127.0.0.1 / ::1 is reached)']
ASSUMPTIONS = ['--enable-conn-pool off, no plugin overrides resolve_dns / before_upstream_connection (defaults)',
               'scheme http (https is treated identically by Url.from_bytes)']

AF_INET, AF_INET6 = int(socket.AF_INET), int(socket.AF_INET6)

# ------------------------------------------------------------------------------------------------ grammar
UNRESERVED = b"abcdefghijklmnopqrstuvwxyzABCDEFGHIJKLMNOPQRSTUVWXYZ0123456789-._~"
SUBDELIMS = b"!$&'()*+,;="
UTF8_NAMES = ['bücher.example', 'å∫ç.com', '例え.テスト', 'xn--bcher-kva.example', 'παράδειγμα.δοκιμή', 'ünï.cödé.org']


def r_label(rng, lo=1, hi=8):
    return bytes(rng.choice(b"abcdefghijklmnopqrstuvwxyz0123456789-") for _ in range(rng.randint(lo, hi))).strip(b'-') or b'a'


def r_regname(rng):
    r = rng.randrange(10)
    if r == 0: return rng.choice([b'localhost', b'example.com', b'httpbin.org', b'h'])
    if r == 1: return rng.choice(UTF8_NAMES).encode('utf-8')
    if r == 2:   # sub-delims, pct-encoded and mixed case
        s = bytes(rng.choice(UNRESERVED + SUBDELIMS) for _ in range(rng.randint(1, 12)))
        if rng.random() < 0.5: s += b'%' + bytes(rng.choice(b'0123456789ABCDEF') for _ in range(2)) + b'x'
        return s
    if r == 3: return b'.'.join(r_label(rng).upper() if rng.random() < 0.3 else r_label(rng) for _ in range(rng.randint(1, 4)))
    if r == 4: return b'xn--' + r_label(rng, 3, 10) + b'.' + r_label(rng)
    if r == 5: return r_label(rng, 1, 3) + b'_' + r_label(rng) + b'.test'
    return b'.'.join(r_label(rng) for _ in range(rng.randint(1, 4))) + rng.choice([b'', b'.', b'.org', b'.io'])


def r_ipv4(rng):
    return b'%d.%d.%d.%d' % tuple(rng.choice([0, 1, 10, 127, 192, 255, rng.randrange(256)]) for _ in range(4))


def r_ipv6(rng):
    """a valid IPv6 literal (text between the brackets) in a random spelling"""
    r = rng.randrange(12)
    if r == 0: return rng.choice([b'::', b'::1', b'1::', b'::ffff:1.2.3.4', b'fe80::1', b'2001:db8::ff00:42:8329', b'64:ff9b::192.0.2.33'])
    groups = [rng.choice([0, 0, 0, 1, 0xff, 0xdb8, 0xffff, rng.randrange(65536)]) for _ in range(8)]
    def g(x):
        s = b'%x' % x
        if rng.random() < 0.2: s = s.rjust(4, b'0')
        if rng.random() < 0.3: s = s.upper()
        return s
    v4tail = rng.random() < 0.12
    if v4tail:
        tail = [b'%d.%d.%d.%d' % (groups[6] >> 8, groups[6] & 255, groups[7] >> 8, groups[7] & 255)]
        gs = groups[:6]
    else:
        tail, gs = [], groups
    # compress one run of zeros (any run, RFC 5952 not required for validity), or none
    runs = []
    i = 0
    while i < len(gs):
        if gs[i] == 0:
            j = i
            while j < len(gs) and gs[j] == 0: j += 1
            runs.append((i, j)); i = j
        else:
            i += 1
    if runs and rng.random() < 0.8:
        a, b_ = rng.choice(runs)
        if rng.random() < 0.3 and b_ - a > 1:      # compress only part of the run
            a = rng.randint(a, b_ - 1)
        left = b':'.join(g(x) for x in gs[:a]); right = b':'.join([g(x) for x in gs[b_:]] + tail)
        return left + b'::' + right
    return b':'.join([g(x) for x in gs] + tail)


def r_port(rng):
    r = rng.randrange(12)
    if r < 4: return None
    if r == 4: return b'0'
    if r == 5: return rng.choice([b'1', b'80', b'443', b'8080', b'65535'])
    if r == 6: return b'0' * rng.randint(1, 3) + b'%d' % rng.randrange(65536)
    return b'%d' % rng.randrange(65536)


def r_userinfo(rng):
    r = rng.randrange(10)
    if r < 5: return None
    chars = UNRESERVED + SUBDELIMS + b'%'
    user = bytes(rng.choice(chars) for _ in range(rng.randint(0, 8)))
    if r == 5: return (user, None)
    if r == 6: return (user, b'')
    pw = bytes(rng.choice(chars + b':::') for _ in range(rng.randint(1, 10)))
    return (user, pw)


def r_path(rng, origin=False):
    pchars = UNRESERVED + SUBDELIMS + b':@%'
    segs = [bytes(rng.choice(pchars) for _ in range(rng.randint(0, 6))) for _ in range(rng.randint(0, 4))]
    if origin and segs and not segs[0]:
        segs[0] = b'x'          # "//..." in origin position is a network-path reference (outside the grammar)
    p = b'/' + b'/'.join(segs)
    if rng.random() < 0.1:
        p = p.rstrip(b'/') + '/päth/日本'.encode('utf-8')
    if rng.random() < 0.4:
        p += b'?' + bytes(rng.choice(pchars + b'/?') for _ in range(rng.randint(0, 10)))
    return p


def gen_valid(rng):
    """a grammar-valid target with its abstract description"""
    form = rng.choice(['origin', 'absolute', 'absolute', 'absolute', 'absolute', 'authority', 'authority'])
    if form == 'origin':
        p = r_path(rng, origin=True)
        return dict(form=form, raw=p, method=rng.choice([b'GET', b'POST', b'HEAD']), host=None, addr_host=None, hkind=None,
                    port_text=None, path=p, ui=None)
    hk = rng.choice(['reg', 'reg', 'reg', 'v4', 'v6', 'v6'])
    if hk == 'reg': h = r_regname(rng); kept = h
    elif hk == 'v4': h = r_ipv4(rng); kept = h
    else: h = r_ipv6(rng); kept = b'[' + h + b']'
    if form == 'authority':
        pt = r_port(rng) or rng.choice([b'443', b'8443'])
        return dict(form=form, raw=kept + b':' + pt, method=b'CONNECT', host=kept, addr_host=h, hkind=hk, port_text=pt, path=None, ui=None)
    ui = r_userinfo(rng)
    pt = r_port(rng)
    pa = r_path(rng) if rng.random() < 0.8 else None
    raw = b'http://'
    if ui is not None:
        raw += ui[0] + (b':' + ui[1] if ui[1] is not None else b'') + b'@'
    raw += kept + (b':' + pt if pt is not None else b'') + (pa or b'')
    method = b'CONNECT' if rng.random() < 0.08 else rng.choice([b'GET', b'GET', b'POST', b'PUT', b'OPTIONS'])
    return dict(form=form, raw=raw, method=method, host=kept, addr_host=h, hkind=hk, port_text=pt, path=pa, ui=ui)


def damage(rng, d):
    """a syntactically damaged variant of a valid target"""
    raw = d['raw']
    r = rng.randrange(22)
    h6 = r_ipv6(rng)
    if r == 0: return b'http://' + h6 + rng.choice([b'/', b'/x', b''])                      # un-bracketed IPv6
    if r == 1: return b'http://' + h6 + b':%d/' % rng.choice([80, 1, 8080])                 # un-bracketed + port
    if r == 2: return h6 + b':%d' % rng.choice([443, 80])                                   # CONNECT un-bracketed
    if r == 3: return raw.replace(b']', b'', 1) if b']' in raw else raw + b']'
    if r == 4: return raw.replace(b'[', b'', 1) if b'[' in raw else b'[' + raw
    if r == 5: return raw.replace(b'[', b'[[', 1).replace(b']', b']]', 1)
    if r == 6:
        bad = rng.choice([b'+80', b'-1', b'8_0', b'\t80', b'80\t', b'', b'8x', b'0x50', b'99999', b'65536', b'65616', b'4294967376',
                          b'9' * 30, b'-0', b'+0', b'1e3', b'\xd9\xa8\xd9\xa0', b'80:80', b'%38%30'])
        base = b'http://' + (d['host'] or b'h')
        return rng.choice([base + b':' + bad + b'/x', (d['host'] or b'h') + b':' + bad])
    if r == 7: return rng.choice([b'http:///x', b'http://:80/', b'http://@/', b':443', b'http://', b'http://u@:80/'])
    if r == 8: return raw.replace(b'http://', b'http://a@b@', 1) if raw.startswith(b'http://') else b'a@b@' + raw
    if r == 9: return raw.replace(b'http://', rng.choice([b'ftp://', b'HTTP://', b'https://', b'http:/', b'http//', b'://', b'http:', b'ws://']), 1)
    if r == 10: return b'//' + (d['host'] or b'h') + rng.choice([b'', b'/x', b':81/y', b':0/'])   # network-path reference
    if r == 11: return raw[:rng.randrange(0, len(raw) + 1)] or b'h'
    if r == 12:
        i = rng.randrange(0, len(raw) + 1)
        return raw[:i] + bytes([rng.choice([0xff, 0xc3, 0x80, 0x00, 0x3a, 0x40, 0x5b, 0x5d, 0x2f, 0x3f, 0x23, 0x25, 0x09])]) + raw[i:]
    if r == 13: return b'http://[' + rng.choice([b'a:b', b'1:2', b'::1', b'x', b'', b':']) + b']' + rng.choice([b':80/', b'/', b'', b':80', b':x/'])
    if r == 14: return rng.choice([b'a:b:80', b'1:2:3', b'::80', b'a::', b'[::1]:80:90', b'[::1]x:80', b'[::1]:', b'x[::1]:80'])
    if r == 15: return b'http://' + (d['host'] or b'h') + rng.choice([b'?q', b'#f', b'?q/x', b'\\x'])
    if r == 16: return b'http://u:p@' + h6 + b'/'                                           # userinfo + un-bracketed
    if r == 17: return b'http://' + rng.choice([b'1.2.3', b'1.2.3.4.5', b'256.1.1.1', b'0x7f.1', b'1.2.3.4.', b'01.02.03.004']) + rng.choice([b'/', b':80/'])
    if r == 18: return raw + rng.choice([b':', b':80', b'@', b'/', b'//'])
    if r == 19: return b'http://h\xff.example' + rng.choice([b'/', b':80/', b''])           # non-UTF-8 host
    if r == 20: return rng.choice([b'*', b'h', b'h:', b'/', b'//', b'///', b'//:80', b'@', b':'])
    i = rng.randrange(0, len(raw)); return raw[:i] + raw[i + 1:]


BOUNDARY = [
    (b'GET', b'http://localhost:%d/' % p) for p in (0, 1, 80, 65535, 65536, 65616, 99999, 131152, 4294967376, 2 ** 64 + 80)
] + [
    (b'GET', b'http://127.0.0.1:%d/' % p) for p in (0, 1, 65535, 65536, 65616)
] + [
    (b'CONNECT', b'[::1]:%d' % p) for p in (0, 1, 443, 65535, 65536, 65979)
] + [
    (b'GET', b'http://h:-1/'), (b'GET', b'http://h:-65456/'), (b'GET', b'http://h:00000000000000000080/'),
    (b'GET', b'http://h:' + b'0' * 4300 + b'/'), (b'GET', b'http://h:' + b'1' * 4301 + b'/'),
    (b'CONNECT', b'http://h/'), (b'CONNECT', b'http://[::1]/'), (b'GET', b'h:80'), (b'GET', b'[::1]:80'),
    (b'GET', b'http://u@[::1]/'), (b'GET', b'http://u:p@[::1]/x'), (b'CONNECT', b'u@[::1]'), (b'GET', b'http://u@h/'),
    (b'GET', b'http://[::ffff:1.2.3.4]/'), (b'GET', b'http://::ffff:1.2.3.4/'), (b'GET', b'http://::1/x'), (b'CONNECT', b':::443'),
    (b'GET', b'http://1::2:3/'), (b'GET', b'http://2001:db8::80/'), (b'GET', b'http://[a:b]:80/'), (b'CONNECT', b'a:b:80'),
]
SOCK_BOUNDARY = ['[', ']', '[]', '[x', 'x]', '[[::1]]', '[::1]', '::1', '[1.2.3.4]', '1.2.3.4', '[h]', 'h', '[::1]]', '[[::1]',
                 '[fe80::1%eth0]', '[::ffff:1.2.3.4]', '[1.2.3]', 'ünï.org', '[ünï]', '0x7f.1', '127.1', ' 1.2.3.4', '[:]', '']


def embeddable(raw):
    return bool(raw) and not any(ch in raw for ch in b' \r\n')


def generate(rng, tier):
    n = 1000 if tier != 'thorough' else 40000
    cases = []
    for m, raw in BOUNDARY:
        cases.append(dict(kind='boundary', method=m, raw=raw))
    for h in SOCK_BOUNDARY:
        cases.append(dict(kind='sock', host=h, port=rng.choice([80, 443, 1, 65535])))
    for _ in range(30 if tier != 'thorough' else 400):
        d = gen_valid(rng)
        base = (d['host'] or b'h').decode('utf-8')
        h = rng.choice([base, base.strip('[]'), '[' + base, base + ']', '[' + base + ']'])
        cases.append(dict(kind='sock', host=h, port=rng.choice([80, 443, 0, 65535, 65536, -1, rng.randrange(1, 65536)])))
    for _ in range(n):
        d = gen_valid(rng)
        if rng.random() < 0.6:
            cases.append(dict(kind='valid-' + d['form'], method=d['method'], raw=d['raw'],
                              desc={k: d[k] for k in ('form', 'host', 'addr_host', 'hkind', 'port_text', 'path')},
                              ui=list(d['ui']) if d['ui'] else None))
        else:
            raw = damage(rng, d)
            if rng.random() < 0.15 and raw:
                raw = damage(rng, dict(d, raw=raw))
            if not raw:
                continue
            m = d['method']
            if b'://' not in raw and not raw.startswith(b'/') and rng.random() < 0.7:
                m = b'CONNECT'
            cases.append(dict(kind='damaged', method=m, raw=raw))
    return cases


# ------------------------------------------------------------------------------------------------ running the implementation
class Recorder:
    """fake socket primitives for proxy.common.utils: record the call, succeed (or fail the way CPython does)"""
    def __init__(self, owner=None):
        self.calls = []
        self.owner = owner
        rec = self

        class FSock(sim.FakeSock):
            def __init__(self, family=-1, type=-1, proto=0, fileno=None):
                super().__init__('up%d' % len(rec.calls))
                self.family = int(family)
            def connect(self, addr):
                rec.calls.append(('connect', self.family, tuple(addr)))
                if not (isinstance(addr[1], int) and 0 <= addr[1] <= 65535):
                    raise OverflowError('connect(): port must be 0-65535.')
                if rec.owner is not None:
                    rec.owner.upstreams.append(self)

        def create_connection(addr, timeout=None, source_address=None, **kw):
            rec.calls.append(('create_connection', tuple(addr), source_address))
            if not isinstance(addr[1], int) or addr[1] < 0:
                raise socket.gaierror(-8, 'Servname not supported for ai_socktype')
            s = sim.FakeSock('up%d' % len(rec.calls))
            if rec.owner is not None:
                rec.owner.upstreams.append(s)
            return s

        self.shim = types.SimpleNamespace(**{k: getattr(socket, k) for k in dir(socket) if not k.startswith('__')})
        self.shim.socket = FSock
        self.shim.create_connection = create_connection


def canon_calls(calls):
    out = []
    for c in calls:
        if c[0] == 'connect':
            addr = c[2]
            out.append(dict(fn='connect', family=c[1], host=addr[0], port=addr[1], extra=list(addr[2:])))
        else:
            out.append(dict(fn='create_connection', host=c[1][0], port=c[1][1], extra=[c[2]]))
    return out


def run_sock(host, port):
    import proxy.common.utils as U
    rec = Recorder()
    exc = None
    with mock.patch('proxy.common.utils.socket', rec.shim):
        try:
            U.new_socket_connection((host, port))
        except Exception as e:
            exc = type(e).__name__
    return dict(calls=canon_calls(rec.calls), exc=exc)


class RouteSim(sim.Sim):
    """sim.Sim, but the REAL new_socket_connection runs, against fake socket primitives"""
    def __init__(self, **kw):
        super().__init__(**kw)
        import proxy.common.utils as U
        self.rec = Recorder(self)
        for target, obj in (('proxy.common.utils.socket', self.rec.shim),
                            ('proxy.core.connection.server.new_socket_connection', U.new_socket_connection)):
            p = mock.patch(target, obj); p.start(); self._patches.append(p)

    def close(self):
        self._patches.reverse()       # nested patches of the same attribute must be undone innermost first
        super().close()


_FLAGS = None
def flags():
    global _FLAGS
    if _FLAGS is None:
        _FLAGS = sim.make_flags()
    return _FLAGS


def run_route(method, raw):
    with RouteSim(flags=flags()) as s:
        s.client.feed(method + b' ' + raw + b' HTTP/1.1\r\nHost: irrelevant.example\r\n\r\n')
        r = s.run(6)
        esc = None
        if isinstance(r, tuple):
            esc = C.exn_code(r[1]); r = 'raised:' + type(r[1]).__name__
        status = s.client.out.split(b'\r\n', 1)[0] if s.client.out else None
        fwd = None
        if s.upstreams:
            s.run(3)
            fwd = bytes(s.upstreams[0].out).split(b'\r\n', 1)[0] if s.upstreams[0].out else None
        return dict(calls=canon_calls(s.rec.calls), escaped=esc, result=r, status=status, forwarded=fwd)


def run_attrs(method, raw):
    from proxy.http.parser import HttpParser
    p = HttpParser(1)
    try:
        p.parse(memoryview(method + b' ' + raw + b' HTTP/1.1\r\n'))
    except Exception as e:
        return dict(err=C.exn_code(e), err_idx=0, exc=repr(e))
    return dict(host=H.obs_bytes(p.host), port=p.port, path=H.obs_bytes(p.path), tunnel=bool(p._is_https_tunnel))


def run_impl(case):
    if case['kind'] == 'sock':
        return run_sock(case['host'], case['port'])
    raw, m = case['raw'], case['method']
    out = dict(url=H.run_url(raw))
    if embeddable(raw):
        out['attrs'] = run_attrs(m, raw)
        out['route'] = run_route(m, raw)
    return out


# ------------------------------------------------------------------------------------------------ Coq terms
def ipver_of(host_text):
    try:
        return ipaddress.ip_address(host_text).version
    except ValueError:
        return None

def coq_ipver(v):
    return 'None' if v is None else '(Some %d)' % v

def coq_call(c):
    hb = C.coq_bytes(c['host'].encode('utf-8'))
    if c['fn'] == 'connect':
        return '(SockConnect %d %s %s)' % (c['family'], hb, H.cZ(c['port']))
    return '(CreateConnection %s %s)' % (hb, H.cZ(c['port']))

def coq_attrs(o):
    return '(%s, %s, %s)' % (H.cob(o['host']), H.coZ(o['port']), H.cob(o['path']))


def coq_term(case, out):
    if case['kind'] == 'sock':
        if len(out['calls']) != 1:
            return None
        c = out['calls'][0]
        return 'CSock %s %s %s %s' % (C.coq_bytes(case['host'].encode('utf-8')), H.cZ(case['port']),
                                      coq_ipver(ipver_of(c['host'])), coq_call(c))
    raw = case['raw']
    ic = C.coq_bool(case['method'] == b'CONNECT')
    terms = ['CFromBytes %s %s' % (H.cb(raw), H.coq_obs(out['url'], H.coq_url))]
    if 'attrs' in out:
        terms.append('CDerive %s %s %s' % (ic, H.cb(raw), H.coq_obs(out['attrs'], coq_attrs)))
        r = out['route']
        v = ipver_of(r['calls'][0]['host']) if r['calls'] else None
        terms.append('CRoute %s %s %s %s %s' % (ic, H.cb(raw), coq_ipver(v), C.coq_list(coq_call(c) for c in r['calls']),
                                               'None' if r['escaped'] is None else '(Some %d)' % r['escaped']))
    return terms


def model_expr(case):
    if case['kind'] == 'sock':
        return 'new_socket_connection (fun _ => None) (%s, %s)' % (C.coq_bytes(case['host'].encode('utf-8')), H.cZ(case['port']))
    ic = C.coq_bool(case['method'] == b'CONNECT')
    return '(from_bytes DEFAULT_ALLOWED_URL_SCHEMES %s, derive %s %s, route_obs None %s %s)' % (
        H.cb(case['raw']), ic, H.cb(case['raw']), ic, H.cb(case['raw']))


# ------------------------------------------------------------------------------------------------ independent references
def ref_hostport_text(raw):
    """host[:port] text of a raw target located without interpreting it (None: origin-form)"""
    if raw[:1] == b'/' and raw[1:2] != b'/':
        return None
    if raw[:2] == b'//':
        rest = raw[2:]
    else:
        i = raw.find(b'://')
        if i < 0:
            j = raw.find(b'@')
            return raw if j < 0 else raw[j + 1:]
        rest = raw[i + 3:]
    k = rest.find(b'/')
    auth = rest if k < 0 else rest[:k]
    j = auth.find(b'@')
    return auth if j < 0 else auth[j + 1:]


def int_text(t):
    try:
        return int(t)
    except ValueError:
        return None


def valid_ipv6_text(hp):
    try:
        return ipaddress.ip_address(hp.decode('ascii')).version == 6
    except (ValueError, UnicodeDecodeError):
        return False


def plain_reading(raw, is_connect):
    """(host text, port) the target names, read with nothing but rfind/int/ipaddress:
    an un-bracketed valid IPv6 literal means that address on the default port (except in authority-form, where a
    port is mandatory and "<literal>:<n>" is read as literal + port); otherwise the port is the number after the
    last colon (if it is a number).  None: origin-form."""
    hp = ref_hostport_text(raw)
    if hp is None:
        return None
    default = 443 if is_connect else 80
    i = hp.rfind(b':')
    n = int_text(hp[i + 1:]) if i >= 0 else None
    authority_form = b'://' not in raw and not raw.startswith(b'/')
    if authority_form and n is not None and valid_ipv6_text(hp[:i]):
        return hp[:i], n          # authority-form always carries a port: "<IPv6 literal>:<port>" without brackets
    if valid_ipv6_text(hp):
        return hp, default
    if n is not None:
        return hp[:i], n
    return hp, default


def expected_call(reading):
    """the socket-level call a correct proxy makes for (host text, port), or None when it has to refuse"""
    if reading is None:
        return None
    h, p = reading
    try:
        t = h.decode('utf-8')
    except UnicodeDecodeError:
        return None
    if not t or not (0 < p <= 65535):
        return None
    if t.startswith('[') and t.endswith(']'):
        t = t[1:-1]
    v = ipver_of(t)
    if v == 4: return dict(fn='connect', family=AF_INET, host=t, port=p, extra=[])
    if v == 6: return dict(fn='connect', family=AF_INET6, host=t, port=p, extra=[0, 0])
    return dict(fn='create_connection', host=t, port=p, extra=[None])


def lenient_class(raw):
    """the two recorded leniency classes (known findings), decided on the target text alone"""
    hp = ref_hostport_text(raw)
    if hp is None or hp.count(b':') < 2:
        return None
    last = hp[hp.rfind(b':') + 1:]
    if int_text(last) is None:
        return None
    if valid_ipv6_text(hp) and not (b'://' not in raw and not raw.startswith(b'/') and valid_ipv6_text(hp[:hp.rfind(b':')])):
        return 'C14-unbracketed-ipv6-misroute'      # last group of an un-bracketed IPv6 literal taken for a port
    if hp.count(b':') == 2:
        return 'C14-two-colon-trailing-colon'       # "a:b:80" / "[a:b]:80": host text keeps the colon before the port
    return None


def oracle_valid(case, out):
    d = case['desc']; raw = case['raw']; ic = case['method'] == b'CONNECT'
    default = 443 if ic else 80
    port_val = int(d['port_text']) if d['port_text'] is not None else None
    u = out['url']
    if 'err' in u:
        return 'valid %s target rejected by Url.from_bytes: %s' % (d['form'], u.get('exc'))
    # --- the generator's abstract description against urlsplit + ipaddress (validates the reference itself)
    if d['form'] != 'origin':
        try:
            sp = urlsplit(raw.decode('utf-8') if d['form'] == 'absolute' else '//' + raw.decode('utf-8'))
            ref_host = sp.hostname
            try:
                ref_port = sp.port
            except ValueError:
                if port_val is None or port_val <= 65535:
                    raise
                ref_port = port_val           # the reference, too, says "out of range": nothing may be connected
            ref_path = sp.path + ('?' + sp.query if '?' in raw.decode('utf-8') else '')
            ref_user, ref_pw = sp.username, sp.password
        except Exception as e:
            return 'reference urlsplit rejects a generated target: %r' % e
        if (ref_host or '').lower() != d['addr_host'].decode('utf-8').lower():
            return 'generator and urlsplit disagree on the host: %r vs %r' % (ref_host, d['addr_host'])
        if ref_port != port_val:
            return 'generator and urlsplit disagree on the port: %r vs %r' % (ref_port, port_val)
        if ref_path != (d['path'] or b'').decode('utf-8'):
            return 'generator and urlsplit disagree on the path: %r vs %r' % (ref_path, d['path'])
        if d['hkind'] in ('v4', 'v6') and ipver_of(d['addr_host'].decode()) != (4 if d['hkind'] == 'v4' else 6):
            return 'generator produced an invalid IP literal %r' % d['addr_host']
        ui = case.get('ui')
        if ui is not None:
            if (ref_user or '') != ui[0].decode() or (ref_pw if ref_pw is not None else None) != (ui[1].decode() if ui[1] is not None else None):
                return 'generator and urlsplit disagree on userinfo: %r %r vs %r' % (ref_user, ref_pw, ui)
            if u['username'] != ui[0] or u['password'] != ui[1]:
                return 'userinfo derived as %r:%r, target says %r' % (u['username'], u['password'], ui)
        # --- implementation against the reference
        if (u['hostname'] or b'').strip(b'[]').lower() != ref_host.encode('utf-8').lower() or u['hostname'] != d['host']:
            return 'host derived as %r, target names %r' % (u['hostname'], d['host'])
        if u['port'] != ref_port:
            return 'port derived as %r, target names %r' % (u['port'], ref_port)
        if (u['remainder'] or b'').decode('utf-8') != ref_path:
            return 'path derived as %r, target says %r' % (u['remainder'], ref_path)
    else:
        if u['hostname'] is not None or u['port'] is not None or u['remainder'] != raw:
            return 'origin-form target not kept as path: %r' % (u,)
    a = out.get('attrs')
    if a is None:
        return None
    if 'err' in a:
        return 'valid target rejected by HttpParser: %s' % a.get('exc')
    want = (d['host'], port_val if port_val is not None else default, d['path'])
    if (a['host'], a['port'], a['path']) != want:
        return 'HttpParser derived (host, port, path) = %r, target names %r (default port %d)' % ((a['host'], a['port'], a['path']), want, default)
    # --- the connection
    r = out['route']
    exp = expected_call((d['addr_host'], want[1])) if d['form'] != 'origin' else None
    if d['form'] != 'origin' and d['hkind'] == 'v6' and exp is not None and exp['fn'] != 'connect':
        return 'reference ipaddress does not recognise %r' % d['addr_host']
    if r['escaped'] is not None:
        return 'valid target made handle_events raise (%s)' % r['result']
    if exp is None:
        if r['calls']:
            return 'no connection is due (origin-form / port %r) but %r was called' % (want[1], r['calls'])
        return None
    if len(r['calls']) != 1:
        return 'expected one connection to %s port %d, socket-level calls: %r' % (exp['host'], exp['port'], r['calls'])
    if r['calls'][0] != exp:
        return 'connection opened to %r, target names %r' % (r['calls'][0], exp)
    if ic:
        if not (r['status'] or b'').startswith(b'HTTP/1.1 200'):
            return 'CONNECT to a reachable upstream answered %r' % r['status']
    elif r['forwarded'] != case['method'] + b' ' + (d['path'] or b'/') + b' HTTP/1.1':
        return 'request line read by the upstream peer is %r, target path is %r' % (r['forwarded'], d['path'])
    return None


def oracle_any(case, out):
    """damaged / boundary targets: refused, or connected exactly where the target says (plain reading)"""
    r = out.get('route')
    if r is None:
        return None
    raw = case['raw']; ic = case['method'] == b'CONNECT'
    exp = expected_call(plain_reading(raw, ic))
    if not r['calls']:
        return None                           # refused (400 / teardown / 502): never a mis-route
    if len(r['calls']) > 1:
        return 'more than one socket-level call: %r' % r['calls']
    got = r['calls'][0]
    if exp is None:
        return 'the target names no connectable host/port, yet %s(%r, %r) was called' % (got['fn'], got['host'], got['port'])
    if got != exp:
        return 'mis-routed: the target names %s port %d, connection attempted to %s port %r (%s)' % (
            exp['host'], exp['port'], got['host'], got['port'], got['fn'])
    return None


def oracle_sock(case, out):
    h, p = case['host'], case['port']
    t = h[1:-1] if h.startswith('[') and h.endswith(']') else h
    v = ipver_of(t)
    if v == 4: exp = dict(fn='connect', family=AF_INET, host=t, port=p, extra=[])
    elif v == 6: exp = dict(fn='connect', family=AF_INET6, host=t, port=p, extra=[0, 0])
    else: exp = dict(fn='create_connection', host=t, port=p, extra=[None])
    if out['calls'] != [exp]:
        return 'new_socket_connection((%r, %r)) made %r, expected %r' % (h, p, out['calls'], exp)
    return None


def oracle(case, out):
    if case['kind'] == 'sock':
        return oracle_sock(case, out)
    if case['kind'].startswith('valid-'):
        return oracle_valid(case, out) or oracle_any(case, out)
    return oracle_any(case, out)


def nontrivial(case, out):
    if not case['kind'].startswith('valid-') or case['kind'] == 'valid-origin':
        return False
    r = out.get('route')
    return bool(r and r['calls'])


def classify(case, out, failure):
    if case['kind'] in ('sock',) or case['kind'].startswith('valid-'):
        return None
    if failure == 'model-mismatch' or not failure.startswith('mis-routed'):
        return None
    return lenient_class(case['raw'])


def shrink(case, fails):
    if case['kind'] == 'sock':
        return case
    cur = dict(case)
    cur.pop('desc', None); cur.pop('ui', None)
    if cur['kind'].startswith('valid-'):
        return case
    improved = True
    while improved and len(cur['raw']) > 1:
        improved = False
        for i in range(len(cur['raw'])):
            t = dict(cur, raw=cur['raw'][:i] + cur['raw'][i + 1:])
            if t['raw'] and fails(t):
                cur = t; improved = True; break
    return cur


# ------------------------------------------------------------------------------------------------ live loopback run
def live_connect(method, target_fmt, family, bind_host):
    """real sockets: a listener on loopback, the real handler + plugin + new_socket_connection, no fakes at all"""
    import proxy.common.utils as U
    lst = socket.socket(family, socket.SOCK_STREAM)
    lst.bind((bind_host, 0)); lst.listen(4); lst.settimeout(2.0)
    port = lst.getsockname()[1]
    target = target_fmt % port
    got = None
    try:
        s = sim.Sim(flags=flags())
        p = mock.patch('proxy.core.connection.server.new_socket_connection', U.new_socket_connection); p.start()
        try:
            s.client.feed(method + b' ' + target + b' HTTP/1.1\r\nHost: x\r\n\r\n')
            try:
                s.loop.run_until_complete(s.h.handle_events([s.client.fd], []))
            except Exception as e:
                got = 'raised %r' % e
            try:
                conn, peer = lst.accept()
                got = 'accepted'
                conn.close()
            except socket.timeout:
                got = got or 'nothing arrived at the listener'
            up = getattr(s.h.plugin, 'upstream', None) if s.h.plugin else None
            if up is not None and up._conn is not None:
                try: up._conn.close()
                except Exception: pass
        finally:
            p.stop(); s.close()
    finally:
        lst.close()
    return target, port, got


def extra_checks(rng, tier):
    failures, notes = [], []
    runs = [(b'GET', b'http://127.0.0.1:%d/x', socket.AF_INET, '127.0.0.1'),
            (b'CONNECT', b'127.0.0.1:%d', socket.AF_INET, '127.0.0.1'),
            (b'GET', b'http://localhost:%d/', socket.AF_INET, '127.0.0.1'),
            (b'GET', b'http://u:p@[::1]:%d/', socket.AF_INET6, '::1'),
            (b'CONNECT', b'[::1]:%d', socket.AF_INET6, '::1'),
            (b'GET', b'http://[0:0:0:0:0:0:0:1]:%d/x?y', socket.AF_INET6, '::1')]
    live = []
    for m, fmt, fam, bh in runs:
        try:
            target, port, got = live_connect(m, fmt, fam, bh)
        except OSError as e:
            notes.append('live loopback run skipped for %r: %r' % (fmt, e)); continue
        live.append(dict(target=target.decode(), result=got))
        if got != 'accepted':
            failures.append(dict(case=dict(kind='live', method=m, raw=target), out=dict(result=got),
                                 what='live: a listener on %s port %d was not reached for target %r: %s' % (bh, port, target, got)))
    # out-of-range port on a NAME: must be refused, not reduced modulo 65536 by the resolver
    try:
        lst = socket.socket(socket.AF_INET, socket.SOCK_STREAM); lst.bind(('127.0.0.1', 0)); lst.listen(1); lst.settimeout(0.7)
        port = lst.getsockname()[1]; lst.close()
        target, _, got = live_connect_wrapped(port)
        live.append(dict(target=target.decode(), result=got))
        if got == 'accepted':
            failures.append(dict(case=dict(kind='live', method=b'GET', raw=target), out=dict(result=got),
                                 what='live: mis-routed: port %d in %r was reduced modulo 65536 and localhost:%d was reached' % (port + 65536, target, port)))
    except OSError as e:
        notes.append('live wrap-around run skipped: %r' % e)
    return dict(failures=failures, notes=notes, live_runs=live)


def live_connect_wrapped(port_unused):
    """listener on P, target names P + 65536"""
    import proxy.common.utils as U
    lst = socket.socket(socket.AF_INET, socket.SOCK_STREAM)
    lst.bind(('127.0.0.1', 0)); lst.listen(2); lst.settimeout(0.7)
    port = lst.getsockname()[1]
    target = b'http://localhost:%d/' % (port + 65536)
    got = 'nothing arrived at the listener'
    try:
        s = sim.Sim(flags=flags())
        p = mock.patch('proxy.core.connection.server.new_socket_connection', U.new_socket_connection); p.start()
        try:
            s.client.feed(b'GET ' + target + b' HTTP/1.1\r\nHost: x\r\n\r\n')
            try:
                s.loop.run_until_complete(s.h.handle_events([s.client.fd], []))
            except Exception as e:
                got = 'raised %r' % e
            try:
                conn, _ = lst.accept(); got = 'accepted'; conn.close()
            except socket.timeout:
                pass
        finally:
            p.stop(); s.close()
    finally:
        lst.close()
    return target, port, got


def debug_mismatches(seed=0, tier='quick', limit=8):
    import random
    rng = random.Random(seed * 1000003 + sum(map(ord, ID)))
    cases = generate(rng, tier)
    outs = [run_impl(c) for c in cases]
    terms, idx = [], []
    for i, (c, o) in enumerate(zip(cases, outs)):
        t = coq_term(c, o)
        for t1 in (t if isinstance(t, list) else [t]):
            if t1 is not None:
                terms.append(t1); idx.append(i)
    mism, errs = C.run_coq_cases(ID, IMPORTS, CASE_TYPE, CHECK_FN, terms, shard=SHARD)
    print('terms', len(terms), 'mismatches', len(mism), errs[:2])
    for j in mism[:limit]:
        c, o = cases[idx[j]], outs[idx[j]]
        print('---', c['kind'], c.get('method'), c.get('raw'), terms[j][:300])
        print(o)
        print(C.coq_eval(ID, IMPORTS, model_expr(c))[-1200:])
    fails = [(c, oracle(c, o)) for c, o in zip(cases, outs)]
    fails = [(c, f) for c, f in fails if f]
    print('oracle failures', len(fails))
    for c, f in fails[:limit * 3]:
        print(c['kind'], c.get('method'), c.get('raw', c.get('host')), '->', f, '| class', classify(c, None, f))
