"""C08 — with basic proxy authentication on, unauthenticated requests reach nothing; credentials are never
forwarded.  Correspondence of Net/Auth.v + Net/PluginChain.v with the REAL AuthPlugin, FlagParser, Plugins.load,
HttpProtocolHandler and HttpProxyPlugin (driven through harness/sim.py), and the property itself evaluated on
the implementation's observables with references independent of the model (regex over the header value, h11 /
plain scans of the bytes that reached the fake upstream socket, the 407 parsed from the client socket)."""
import re, base64
import common as C
from props import plugins_common as P

ID = 'C08'
COQ_TARGETS = ['theories/Props/C08.vo'] + P.COQ_TARGETS_COMMON
IMPORTS = P.IMPORTS
CASE_TYPE = 'case'
CHECK_FN = 'check_case'
ANCHOR_FILES = P.ANCHOR_FILES
SHARD = 20
RULE = ('cases = (a) credential decisions: the real AuthPlugin.before_upstream_connection on a request parsed by the real '
        'HttpParser, header value = the valid "Basic <code>" or a near miss (absent, other scheme, truncated/extended/'
        're-encoded/re-cased token, parameters, trailing garbage, tabs and runs of blanks, duplicated header lines in both '
        'orders, any header-name casing; thorough: every single-byte edit/insertion/deletion of the valid value); '
        '(b) whole connections through the real HttpProtocolHandler+HttpProxyPlugin with basic auth on: method GET/POST/CONNECT/... '
        'x valid or near-miss credentials x 0-3 generated user plugins (pass/modify/drop/reject per hook) x later requests on the '
        'same connection x connect success/failure x random segmentation of the first request; (b2) authenticated connections '
        'with a user plugin behind the auth plugin whose handle_client_request / handle_client_data / before_upstream_connection '
        'raises ConnectionResetError / BrokenPipeError / TimeoutError / OSError (reads_teared), rejects (must_flush) or raises '
        'ValueError, with a response chunk pending and upstream/client data and flushes arriving afterwards (every run); '
        '(c) plugin load order with the auth '
        'plugin and user plugins (duplicates, auth plugin requested again); (d) auth_code for random --basic-auth values. '
        'A case is non-trivial when the implementation reached the credential comparison with a proxy-authorization header present '
        '(a), or a connection produced a 407 or forwarded at least one request (b); distinct = distinct inputs')
TRUSTED = ['Lib/PyStr.v split_ws / lower / strip mean bytes.split() / lower() / strip() (compared with CPython through the real AuthPlugin on every run)',
           'Ws/Sha1.v b64encode is base64.b64encode (compared on every run via flags.auth_code)',
           'the request is an abstract parsed record: that hooks run only once the first request is complete and that the record is '
           'independent of segmentation is C03 (the harness does feed random segmentations of the first request)',
           'hooks are modelled as functions of (everything logged on the connection so far, argument); plugins that write to the client/'
           'upstream sockets themselves are outside the model']
ASSUMPTIONS = ['TLS interception, connection pool, proxy protocol and events are off (defaults)',
               'the executor calls shutdown() exactly once per connection (C05/C10)',
               'no other loaded plugin class has the qualified name "AuthPlugin" (recorded limitation C09-name-collision)']

CODE = base64.b64encode(b'user:pass')
WSB = b' \t\n\r\x0b\x0c'


# ------------------------------------------------------------------ independent statement of the decision
def ref_value_ok(value, code):
    """exactly: scheme 'basic' (any ASCII case), ASCII whitespace, the configured code — via the regex engine"""
    return re.fullmatch(rb'(?i:basic)[ \t\n\r\x0b\x0c]+' + re.escape(code), value.strip(WSB)) is not None


def ref_lines_ok(lines, code):
    """the header consulted is the last line named proxy-authorization in any casing"""
    val = None
    for ln in lines:
        n, sep, v = ln.partition(b':')
        if n.strip(WSB).lower() == b'proxy-authorization':
            val = v if sep else b''
    return val is not None and ref_value_ok(val, code)


# ------------------------------------------------------------------ generation
def near_misses(rng, code):
    c = code
    return [
        b'Basic ' + c[:-1], b'Basic ' + c[1:], b'Basic ' + c + b'x', b'Basic x' + c, b'Basic ' + c + b'=', b'Basic ' + c.rstrip(b'='),
        b'Basic ' + c.lower(), b'Basic ' + c.upper(), b'Basic ' + c.swapcase(), b'Basic ' + base64.b64encode(b'user:pas'),
        b'Basic ' + base64.b64encode(b'user:pass\n'), b'Basic ' + base64.b16encode(b'user:pass'), b'Basic user:pass',
        b'Basic ' + base64.urlsafe_b64encode(b'user:pass?~'), b'Bearer ' + c, b'Digest ' + c, b'Negotiate ' + c, b'Basi ' + c, b'Basicc ' + c,
        b'Basic' + c, b'Basic', b'', c, b'Basic ' + c + b' realm="x"', b'Basic ' + c + b', Basic ' + c, b'Basic ' + c + b';q=1',
        b'Basic realm=x ' + c, b'Basic "' + c + b'"', b'Basic ' + c[:4] + b' ' + c[4:], b'Ba sic ' + c, b'Basic\x00' + c,
        b'Basic ' + c + b'\x00', b'Basic\xa0' + c, b'Basic ' + c + b' ' + c, b'basic:' + c, b'Basic=' + c,
    ]


def valid_forms(rng, code):
    return [b'Basic ' + code, b'basic ' + code, b'BASIC ' + code, b'bAsIc ' + code, b'Basic\t' + code, b'Basic  \t  ' + code,
            b'Basic ' + code + b'  ', b'\tBasic ' + code, b'Basic\x0b' + code, b'Basic\x0c\x0c' + code]


NAME_CASINGS = [b'Proxy-Authorization', b'proxy-authorization', b'PROXY-AUTHORIZATION', b'pRoXy-AuThOrIzAtIoN', b'Proxy-authorization ']


def auth_lines(rng, value, dup=None):
    """header lines of an 'auth' case: the credential line with a random name casing (+ optional duplicate before/after)"""
    sep = rng.choice([b': ', b':', b':\t', b':  '])
    line = rng.choice(NAME_CASINGS) + sep + value
    lines = [b'Host: h.example', line]
    if rng.random() < 0.5:
        lines.append(b'User-Agent: t/1')
    if dup is not None:
        other = rng.choice(NAME_CASINGS) + b': ' + dup[1]
        i = lines.index(line)
        lines.insert(i if dup[0] == 'before' else i + 1, other)
    return lines


def gen_auth_cases(rng, quick):
    out = []
    code = CODE
    for v in valid_forms(rng, code) + near_misses(rng, code):
        if b'\n' in v or b'\r' in v:
            continue
        out.append(dict(kind='auth', code=code, lines=auth_lines(rng, v)))
    # duplicated lines: valid then invalid, invalid then valid
    for _ in range(6 if quick else 40):
        bad = rng.choice(near_misses(rng, code))
        if b'\n' in bad or b'\r' in bad:
            continue
        out.append(dict(kind='auth', code=code, lines=auth_lines(rng, b'Basic ' + code, dup=(rng.choice(['before', 'after']), bad))))
    out.append(dict(kind='auth', code=code, lines=[b'Host: h']))
    out.append(dict(kind='auth', code=code, lines=[b'Host: h', b'Authorization: Basic ' + code]))
    out.append(dict(kind='auth', code=code, lines=[b'Host: h', b'Proxy-Authorization'] ))
    # single byte edits of the valid value
    valid = b'Basic ' + code
    edits = []
    for i in range(len(valid) + 1):
        for ch in (b' ', b'\t', b'x', b'=', b'B', b'\x7f', b'\xff', b','):
            edits.append(valid[:i] + ch + valid[i:])
            if i < len(valid):
                edits.append(valid[:i] + ch + valid[i + 1:])
        if i < len(valid):
            edits.append(valid[:i] + valid[i + 1:])
    if quick:
        edits = rng.sample(edits, 60)
    for v in edits:
        out.append(dict(kind='auth', code=code, lines=[b'Host: h.example', b'Proxy-Authorization: ' + v]))
    # other configured credentials
    for _ in range(8 if quick else 80):
        cred = bytes(rng.choice(b'abcXYZ019:@ !') for _ in range(rng.randrange(1, 14)))
        c2 = base64.b64encode(cred)
        v = rng.choice([b'Basic ' + c2, b'basic  ' + c2, b'Basic ' + code, b'Basic ' + c2[:-1], b'Basic ' + c2 + b'A'])
        out.append(dict(kind='auth', code=c2, lines=auth_lines(rng, v)))
    return out


def user_tables(rng, n):
    kinds = ['pass', 'pass', 'modify', 'drop', 'reject', 'after']
    ts = []
    names = P.pick_names(rng, n)
    for i in range(1, n + 1):
        ts.append(P.mk_table(i, name=names[i - 1], buc=P.rand_act(rng, kinds), hcr=P.rand_act(rng, kinds),
                             hcd=P.rand_act(rng, ['pass', 'modify', 'drop']), huc=P.rand_act(rng, ['pass', 'modify', 'drop']),
                             oal=P.rand_act(rng, ['pass', 'modify', 'drop'], lifecycle=True), oucc=['pass'],
                             dns=rng.choice([['none'], ['none'], ['ip', b'10.1.2.3']])))
    return ts


def gen_run_cases(rng, quick):
    out = []
    n = 100 if quick else 2500
    for i in range(n):
        valid = rng.random() < 0.55
        value = rng.choice(valid_forms(rng, CODE)) if valid else rng.choice([None] + near_misses(rng, CODE))
        if value is not None and (b'\n' in value or b'\r' in value):
            value = b'Basic nope'
        line = None if value is None else rng.choice(NAME_CASINGS[:4]) + b': ' + value
        method = [b'GET', b'POST', b'CONNECT'][i % 3]
        spec = P.mk_request(rng, method=method, auth_line=line)
        conn_ok = rng.random() < 0.9
        steps = [P.first_step(rng, spec, conn_ok)]
        if method != b'CONNECT':
            for _ in range(rng.choice([0, 1, 1, 2])):
                l2 = rng.choice([None, NAME_CASINGS[rng.randrange(4)] + b': ' + rng.choice([b'Basic ' + CODE, b'Basic zzz'])])
                s2 = P.mk_request(rng, method=rng.choice([b'GET', b'POST', b'HEAD']), auth_line=l2)
                r2 = rng.random()
                if r2 < 0.2:
                    # a later websocket-upgrade request in several reads: Connection/Upgrade lines first, the credentials
                    # line in a following read, before the blank line
                    u = P.upgrade_request(rng, auth_line=rng.choice(NAME_CASINGS[:4]) + b': Basic ' + CODE)
                    steps.extend(P.later_in_pieces(rng, u, P.upgrade_in_pieces(rng, u)))
                    if rng.random() < 0.5:
                        steps.append(['client', b'\x81\x05hello', None])
                    break          # after a forwarded upgrade the client speaks websocket: opaque bytes, no further requests
                elif r2 < 0.4:
                    # a later request in several reads cut at header-line boundaries
                    steps.extend(P.later_in_pieces(rng, s2))
                elif r2 < 0.55:
                    # two requests back to back in one piece (on_client_data loops over the remainder since e222aa4)
                    s3 = P.mk_request(rng, method=b'GET', auth_line=rng.choice([None, b'Proxy-Authorization: Basic ' + CODE]))
                    steps.append(['client', P.wire(s2) + P.wire(s3), [s2, s3]])
                else:
                    steps.append(['client', P.wire(s2), s2])
                if rng.random() < 0.3:
                    steps.append(['upstream', b'HTTP/1.1 200 OK\r\nContent-Length: 2\r\n\r\nok'])
        else:
            if rng.random() < 0.6:
                steps.append(['client', b'\x16\x03\x01 Proxy-Authorization: Basic ' + CODE, None])
            if rng.random() < 0.4:
                steps.append(['upstream', b'\x16\x03\x03srv'])
        max_send = None
        if not valid and rng.random() < 0.6:
            # the 407 leaves in several writes (short writes / EAGAIN / a small --max-sendbuf-size) and the client keeps
            # sending: the connection must still be closed once the 407 is out, and nothing of the follow-up may be handled
            max_send = rng.choice([None, None, 16, 50])
            extra = [['flush', rng.choice([1, 10, 60, 'block'])]]
            follow = P.mk_request(rng, method=b'GET', auth_line=rng.choice([None, b'Proxy-Authorization: Basic ' + CODE]))
            extra.append(['client', rng.choice([P.wire(follow), b'\x16\x03\x01junk']), None])
            extra.append(['flush', rng.choice([5, 100000])])
            extra.append(['client', b'more', None])
            extra.append(['flush', 100000])
            extra.append(['client', b'even more', None])
            steps = steps[:1] + extra
        out.append(dict(kind='run', basic_auth=b'user:pass', tables=user_tables(rng, rng.choice([0, 1, 1, 2, 2, 3])),
                        disable=rng.choice([[], [], [b'x-secret']]), steps=steps, max_send=max_send,
                        end=rng.choice(['client_eof', 'shutdown', 'upstream_eof', 'client_reset'])))
    return out


def gen_segmented_later(rng, quick):
    """authenticated connection, then a LATER request delivered in several reads cut at header-line boundaries with its
    Proxy-Authorization line in a later read than its first header lines — plain and websocket-upgrade requests
    (an unfinished request carrying Connection+Upgrade must not be taken for an established upgrade)"""
    out = []
    for i in range(10 if quick else 150):
        first = P.mk_request(rng, method=b'GET', auth_line=b'Proxy-Authorization: Basic ' + CODE)
        steps = [P.first_step(rng, first, True)]
        auth = rng.choice(NAME_CASINGS[:4]) + b': ' + rng.choice([b'Basic ' + CODE, b'basic  ' + CODE])
        if i % 2 == 0:
            u = P.upgrade_request(rng, auth_line=auth)
            steps.extend(P.later_in_pieces(rng, u, P.upgrade_in_pieces(rng, u)))
            if rng.random() < 0.5:
                steps.append(['client', b'\x81\x05hello', None])        # websocket frames after the forwarded upgrade
        else:
            s2 = P.mk_request(rng, method=rng.choice([b'GET', b'POST']))
            s2['lines'] = [l for l in s2['lines'] if not l.lower().startswith(b'proxy-authorization')] + [auth]
            raw = P.wire(s2)
            c = raw.index(auth)
            steps.extend([['client', raw[:c], None], ['client', raw[c:], s2]])
        out.append(dict(kind='run', basic_auth=b'user:pass', tables=user_tables(rng, rng.choice([0, 1])) if rng.random() < 0.3 else [],
                        disable=[], steps=steps, end=rng.choice(['client_eof', 'shutdown'])))
    return out


def gen_order_cases(rng, quick):
    out = []
    for _ in range(14 if quick else 200):
        n = rng.randrange(0, 5)
        names = P.pick_names(rng, n)
        ts = [P.mk_table(i, name=names[i - 1]) for i in range(1, n + 1)]
        rng.shuffle(ts)
        if ts and rng.random() < 0.4:
            ts.insert(rng.randrange(len(ts) + 1), dict(rng.choice(ts)))       # the same class listed twice
        if rng.random() < 0.3:
            ts.insert(rng.randrange(len(ts) + 1), P.mk_table(1001, name='AuthPlugin'))   # the auth plugin requested again
        out.append(dict(kind='order', basic_auth=b'user:pass', tables=ts))
    return out


def gen_code_cases(rng, quick):
    out = [dict(kind='authcode', basic_auth=b'user:pass'), dict(kind='authcode', basic_auth=b'u'), dict(kind='authcode', basic_auth=b'a:b:c')]
    for _ in range(8 if quick else 100):
        out.append(dict(kind='authcode', basic_auth=bytes(rng.choice(b'abcdefXYZ0189:@!~ -_') for _ in range(rng.randrange(1, 20)))))
    return out


def generate(rng, tier):
    quick = tier != 'thorough'
    return gen_auth_cases(rng, quick) + gen_run_cases(rng, quick) + P.gen_oserror_drain(rng, quick, auth=True) + gen_segmented_later(rng, quick) + gen_order_cases(rng, quick) + gen_code_cases(rng, quick)


# ------------------------------------------------------------------ implementation
_FLAGS = {}


def auth_flags(code):
    """flags with the given auth_code (opts override, flag.py:215-221) and the real AuthPlugin loaded"""
    import logging
    logging.disable(logging.CRITICAL)
    if code not in _FLAGS:
        from sim import make_flags
        f = make_flags(basic_auth='x:y')
        f.auth_code = code
        _FLAGS[code] = f
    return _FLAGS[code]


def run_impl(case):
    k = case['kind']
    if k == 'auth':
        from proxy.http.parser import HttpParser
        from proxy.http.proxy.auth import AuthPlugin
        from proxy.http.exception import ProxyAuthenticationFailed
        raw = b'GET http://h.example/ HTTP/1.1\r\n' + b''.join(l + b'\r\n' for l in case['lines']) + b'\r\n'
        req = HttpParser.request(raw)
        assert req.is_complete
        plugin = AuthPlugin('uid', auth_flags(case['code']), None, None, None)
        try:
            r = plugin.before_upstream_connection(req)
            return dict(accepted=r is req)
        except ProxyAuthenticationFailed as e:
            return dict(accepted=False, response=bytes(e.response(req)))
    if k == 'run':
        return P.run_connection(case)
    if k == 'order':
        import logging
        logging.disable(logging.CRITICAL)
        flags = P.make_flags(case)
        return dict(order=P.chain_ids(flags))
    if k == 'authcode':
        from sim import make_flags
        import logging
        logging.disable(logging.CRITICAL)
        f = make_flags(basic_auth=case['basic_auth'].decode('latin-1'))
        return dict(code=None if f.auth_code is None else bytes(f.auth_code),
                    first=[x.__name__ for x in f.plugins[b'HttpProxyBasePlugin']][:1])
    raise ValueError(k)


def coq_term(case, out):
    k = case['kind']
    if k == 'auth':
        return 'CAuth %s %s %s' % (P.cb(case['code']), C.coq_list(P.cb(l) for l in case['lines']), C.coq_bool(out['accepted']))
    if k == 'run':
        return P.coq_run_term(case, out)
    if k == 'order':
        return P.coq_order_term(case, out)
    if k == 'authcode':
        return 'CAuthCode %s %s' % (P.cb(case['basic_auth']), P.cb(out['code'] or b''))


def model_expr(case):
    if case['kind'] == 'run':
        return P.model_expr_run(case, run_impl(case))
    if case['kind'] == 'auth':
        return 'auth_ok %s (headers_of_lines %s)' % (P.cb(case['code']), C.coq_list(P.cb(l) for l in case['lines']))
    return '0'


# ------------------------------------------------------------------ the property, on the implementation
REQUEST_HOOKS = ('BUC', 'HCR', 'HCD', 'HUC', 'DNS')


def first_spec(case):
    return case['steps'][0][1]


def oracle(case, out):
    k = case['kind']
    if k == 'auth':
        want = ref_lines_ok(case['lines'], case['code'])
        if out['accepted'] != want:
            return 'credential decision: implementation %s, reference (scheme "basic" ignoring case, whitespace, exactly the configured code; last header line) %s' % (
                'accepts' if out['accepted'] else 'rejects', 'accepts' if want else 'rejects')
        if not out['accepted']:
            line, hs, body = P.split_head(out['response'])
            if not line.startswith(b'HTTP/1.1 407'):
                return 'rejection does not produce a 407: %r' % line
        return None
    if k == 'authcode':
        if out['code'] != base64.b64encode(case['basic_auth']):
            return 'auth_code is not base64 of the configured credentials'
        if out['first'] != ['AuthPlugin']:
            return 'auth plugin not first in the chain: %r' % out['first']
        return None
    if k == 'order':
        if any(t['name'] == 'AuthPlugin' and t['id'] != 1001 for t in case['tables']):
            return None         # recorded limitation: name collision
        if not out['order'] or out['order'][0] != 0:
            return 'auth plugin is not the first plugin of the chain: %r' % out['order']
        want = []
        for t in case['tables']:
            if t['id'] != 1001 and t['id'] not in want:
                want.append(t['id'])
        if out['order'][1:] != want:
            return 'user plugins not in configured order after the auth plugin: %r vs %r' % (out['order'][1:], want)
        return None
    if k == 'run':
        spec = first_spec(case)
        ok = ref_lines_ok(spec['lines'], base64.b64encode(case['basic_auth']))
        log = out['log']
        up = b''.join(out['upstream_out'])
        queued_up = b''.join(e[1] for e in log if e[0] == 'qup')
        tunnel = spec['method'] == b'CONNECT'
        if not ok:
            if out['connect_log']:
                return 'unauthenticated first request: an upstream connection was attempted to %r' % (out['connect_log'],)
            if up or queued_up or out['upstream_out']:
                return 'unauthenticated first request: bytes were forwarded upstream'
            later = [e for e in log if e[0] == 'call' and e[1] != 0 and e[2] in REQUEST_HOOKS]
            if later:
                return 'unauthenticated first request: request-handling hook %s of later plugin %d ran' % (later[0][2], later[0][1])
            line, hs, body = P.split_head(out['client_out'])
            if not line.startswith(b'HTTP/1.1 407 '):
                return 'unauthenticated first request: client did not receive a 407 but %r' % line[:60]
            names = {n.lower(): v for n, v in hs}
            if names.get(b'proxy-authenticate', b'').lower() != b'basic' or names.get(b'connection', b'').lower() != b'close':
                return '407 lacks Proxy-Authenticate: Basic / Connection: close'
            if not out['client_closed']:
                return 'unauthenticated first request: connection not closed'
            if not out.get('closed_by_handler'):
                return 'unauthenticated first request: the proxy did not close the connection after the 407 had been flushed'
            return None
        # authenticated: served, and credentials never reach the origin
        if not tunnel:
            code = base64.b64encode(case['basic_auth'])
            for stream in (up, queued_up):
                if b'proxy-authorization' in stream.lower() or b'proxy-connection' in stream.lower():
                    return 'credentials / Proxy-Connection forwarded to the origin: %r' % stream[:200]
            reqs = P.h11_requests(queued_up) if queued_up else []
            if reqs is not None:
                for m, t, hs, body in reqs:
                    if any(n.lower() in (b'proxy-authorization', b'proxy-connection') for n, v in hs):
                        return 'h11 sees a proxy-authorization/proxy-connection header at the upstream'
        # served: unless a user plugin intervened or the connect failed, the origin was contacted
        passive = all(t[h] == ['pass'] or t[h][0] == 'modify' for t in case['tables'] for h in ('buc', 'hcr')) and \
            all(t['dns'] == ['none'] for t in case['tables'])
        if passive and case['steps'][0][2] and 0 < spec['port'] <= 65535:     # out-of-range ports are refused before any connect (f918c36)
            if out['connect_log'][:1] != [(spec['host'].decode(), spec['port'])]:
                return 'authenticated request was not served: connect_log %r' % (out['connect_log'],)
            if tunnel and not out['client_out'].startswith(b'HTTP/1.1 200 '):
                return 'authenticated CONNECT did not get a 200'
            if not tunnel and not queued_up.startswith(spec['method'] + b' '):
                return 'authenticated request was not forwarded'
        if not 0 < spec['port'] <= 65535 and out['connect_log']:
            return 'request-target port %d outside 1..65535 but an upstream connection was attempted' % spec['port']
        return None
    return None


def nontrivial(case, out):
    k = case['kind']
    if k == 'auth':
        return any(l.split(b':')[0].strip().lower() == b'proxy-authorization' for l in case['lines'])
    if k == 'run':
        return any(e[0] in ('qup', 'qclient') for e in out.get('log', []))
    return True


def classify(case, out, failure):
    return None


def shrink(case, fails):
    if case['kind'] != 'run':
        return case
    cur = dict(case)
    # fewer steps, fewer plugins
    changed = True
    while changed:
        changed = False
        for i in range(len(cur['steps']) - 1, 0, -1):
            t = dict(cur, steps=cur['steps'][:i] + cur['steps'][i + 1:])
            if fails(t):
                cur = t; changed = True; break
        for i in range(len(cur['tables'])):
            t = dict(cur, tables=cur['tables'][:i] + cur['tables'][i + 1:])
            if fails(t):
                cur = t; changed = True; break
    return cur


def extra_checks(rng, tier):
    """premise of C08_load_order checked on the tree: none of the default plugins is an HttpProxyBasePlugin"""
    from proxy.common import constants as K
    from proxy.common.plugins import Plugins
    from proxy.common.utils import bytes_
    from proxy.http.proxy import HttpProxyBasePlugin
    failures, names = [], []
    for nm in dir(K):
        if nm.startswith('PLUGIN_') and nm != 'PLUGIN_PROXY_AUTH':
            try:
                klass, _ = Plugins.importer(bytes_(getattr(K, nm)))
            except Exception as e:      # optional dependency missing
                names.append('%s: not importable (%s)' % (nm, type(e).__name__))
                continue
            names.append('%s: %s' % (nm, 'PROXY-BASE' if issubclass(klass, HttpProxyBasePlugin) else 'other base'))
            if issubclass(klass, HttpProxyBasePlugin):
                failures.append(dict(case=dict(kind='default-plugin', name=nm), out=None,
                                     what='default plugin %s is an HttpProxyBasePlugin and would run ahead of the auth plugin' % nm))
    return dict(failures=failures, notes=['default plugin bases: ' + '; '.join(names)])
