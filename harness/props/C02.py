"""C02 — the forwarded HTTP request is semantically identical to the client's.
Correspondence of Net/Forward.v (+ Http/Parser.v, Http/Builders.v) with the REAL HttpProtocolHandler +
HttpProxyPlugin (+ AuthPlugin) driven through harness/sim.py, and the property itself evaluated on the
implementation's observable (the bytes the fake upstream socket received) with a reference independent of
the model: h11 (server role) parses those bytes and the result is compared with the client's request under
the documented rewriting."""
import base64, itertools, logging
import common as C
from props import http_common as H

ID = 'C02'
COQ_TARGETS = ['theories/Props/C02.vo', 'theories/Net/ForwardCases.vo']
IMPORTS = ('From PM Require Import Lib.Bytes Lib.PyStr Lib.PyStrFacts Http.Url Http.Chunk Http.Parser Http.Builders Http.Grammar '
           'Http.UrlSpec Net.Forward Net.ForwardCases.\nFrom Coq Require Import ZArith.')
CASE_TYPE = 'fcase'
CHECK_FN = 'check_case'
SHARD = 24
ANCHOR_FILES = ['proxy/http/handler.py', 'proxy/http/proxy/server.py', 'proxy/http/parser/parser.py',
                'proxy/http/parser/chunk.py', 'proxy/common/utils.py']
RULE = ('cases = client connections through the real HttpProtocolHandler+HttpProxyPlugin: 1-3 well-formed proxy requests per '
        'connection (absolute-form http targets: reg-name / IPv4 / bracketed IPv6 hosts, optional userinfo, port, path, query; '
        'methods; HTTP/1.1 and 1.0; 0-6 header fields with random name casings and OWS around the values, among them Host, '
        'Proxy-Connection, Proxy-Authorization, a client Via, Connection, Expect, User-Agent, operator-disabled names; framing = '
        'none | Content-Length (0, leading zeros) | chunked with random layouts: hex case, leading zeros, extensions, last-chunk '
        'extensions, trailers, empty body), each request cut at random points / at every CR-LF boundary / into single bytes / '
        'not at all; the origin\'s answer to request k (whole or in two parts) arrives before request k+1 starts OR between two of its pieces '
        '(also while k+1 is the 3rd/4th request: handle_pipeline_response path); in a third of the runs the first sends on the upstream socket '
        'are short writes / would-block; --disable-headers and --basic-auth configured in '
        'part of the runs; a boundary stream (bodies around the 128 KiB re-chunking size), a stream of requests outside the '
        'domain (CONNECT, origin-form, bad credentials, connect failure, Transfer-Encoding lists, duplicated framing fields, '
        'damaged bytes, several requests packed into one segment) for the correspondence only.  Each connection yields one FConn term: the requests (abstract syntax, rendered inside Coq) with one or more '
        'segmentations; model vs implementation byte for byte plus the cumulative count of forwarded bytes after every piece; abstract '
        'requests inside wf_request, theorem-side expectation == harness expectation, reference parser of Net/Forward.v on every forwarded '
        'request == that expectation (== h11, by the oracle); FRef: reference parser vs h11 on forwarded bytes of requests outside the grammar.  non-trivial = at least one request was forwarded and parsed back by h11; distinct = '
        'distinct (configuration, pieces)')
TRUSTED = ['the abstract request grammar of Net/Forward.v (wf_request / render_request) as the definition of "well-formed HTTP/1.x proxy request"; '
           'the generator emits the abstract syntax and FDom checks on every run that it renders to the bytes actually sent',
           'ref_parse_request (RFC 7230 request reader built from the recognisers of Http/Grammar.v), cross-validated against h11 0.16 on every '
           'forwarded request of every run (FRef)',
           'bytes handed to TcpServerConnection.queue reach the socket in order and unmodified: that is C01; the fake socket accepts everything',
           'the plugin chain is the identity apart from the AuthPlugin (C08/C09 cover user plugins)']
ASSUMPTIONS = ['forward proxy with only HttpProxyPlugin enabled; TLS interception, connection pool, proxy protocol off (defaults)',
               'one request per completed parse: a piece never contains bytes of two requests (packing several requests into one segment is C04)',
               'the upstream connect succeeds and the upstream connection stays open between the requests of a connection']

KNOWN_TE = 'C02-te-list-not-chunked'


def agent():
    from proxy.common.constants import PROXY_AGENT_HEADER_VALUE
    return bytes(PROXY_AGENT_HEADER_VALUE)


# ------------------------------------------------------------------ abstract requests (the grammar of Net/Forward.v)
OWS = [b'', b' ', b'  ', b'\t', b' \t ']

def render_target(t):
    ui = b''
    if t['ui'] is not None:
        ui = t['ui'][0] + (b':' + t['ui'][1] if t['ui'][1] is not None else b'') + b'@'
    host = b'[' + t['host'] + b']' if t['hk'] == 'IPv6' else t['host']
    return b'http://' + ui + host + (b':' + t['port'] if t['port'] is not None else b'') + (t['path'] or b'')

def render_field(f):
    n, pre, v, post = f
    return n + b':' + pre + v + post

def render_chunked(lay):
    out = b''
    for sz, ext, data in lay['chunks']:
        out += sz + ext + b'\r\n' + data + b'\r\n'
    out += lay['last'] + lay['last_ext'] + b'\r\n'
    for t in lay['trailers']:
        out += t + b'\r\n'
    return out + b'\r\n'

def all_fields(r):
    fr = r['framing']
    return r['hs1'] + ([fr[1]] if fr[0] != 'none' else []) + r['hs2']

def render_request(r):
    fr = r['framing']
    wire = b'' if fr[0] == 'none' else (fr[2] if fr[0] == 'cl' else render_chunked(fr[2]))
    return (r['method'] + b' ' + render_target(r['target']) + b' ' + r['version'] + b'\r\n' +
            b''.join(render_field(f) + b'\r\n' for f in all_fields(r)) + b'\r\n' + wire)

def decoded_body(r):
    fr = r['framing']
    if fr[0] == 'none':
        return b''
    if fr[0] == 'cl':
        return fr[2]
    return b''.join(d for _, _, d in fr[2]['chunks'])


# ------------------------------------------------------------------ the documented rewriting, stated by the harness
HOP = (b'proxy-authorization', b'proxy-connection')

def expect(cfg, r):
    """(method, origin-form target, version, [(name, value)], body) the origin must be sent"""
    fields = []
    for f in all_fields(r):
        fields.append([f[0], f[2]])
    fr = r['framing']
    if fr[0] == 'cl' and fr[2]:
        for nv in fields:
            if nv[0].lower() == b'content-length':
                nv[1] = b'%d' % len(fr[2])
    fields = [nv for nv in fields if nv[0].lower() not in HOP]
    via = b'1.1 ' + cfg['agent']
    for nv in fields:
        if nv[0].lower() == b'via':
            nv[0], nv[1] = b'Via', nv[1] + b', ' + via
            break
    else:
        fields.append([b'Via', via])
    fields = [nv for nv in fields if nv[0].lower() not in cfg['disable']]
    t = r['target']
    return dict(method=r['method'], target=t['path'] or b'/', version=r['version'],
                headers=[(bytes(n), bytes(v)) for n, v in fields], body=decoded_body(r))


# ------------------------------------------------------------------ generation
def recase(rng, name):
    m = rng.randrange(5)
    if m == 0: return name
    if m == 1: return name.lower()
    if m == 2: return name.upper()
    if m == 3: return bytes(ch ^ 0x20 if (65 <= ch <= 90 or 97 <= ch <= 122) and rng.random() < 0.5 else ch for ch in name)
    return name.title()

def gen_target(rng):
    hk = rng.choice(['RegName', 'RegName', 'RegName', 'IPv4', 'IPv6'])
    if hk == 'RegName':
        host = rng.choice([b'example.com', b'localhost', b'h', H.rtoken(rng, 1, 8).lower() + b'.' + rng.choice([b'org', b'net', b'io']),
                           b'a-b.c_d.example', b'xn--bcher-kva.example'])
    elif hk == 'IPv4':
        host = b'%d.%d.%d.%d' % tuple(rng.randrange(256) for _ in range(4))
    else:
        host = rng.choice([b'::1', b'2001:db8::%x' % rng.randrange(1, 65535), b'fe80::1:2', b'::ffff:1.2.3.4'])
    port = rng.choice([None, None, b'80', b'8080', b'443', b'65535', b'1', b'0080'])
    ui = rng.choice([None, None, None, (b'user', None), (b'u', b'p:w'), (b'', b'')])
    path = rng.choice([None, b'/'] + [H.rpath(rng) for _ in range(4)])
    if path is not None and rng.random() < 0.1:
        path += b'#frag'
    return dict(ui=ui, hk=hk, host=host, port=port, path=path)

def rvalue(rng):
    return H.rvalue(rng)[:rng.choice([3, 6, 12, 24])].strip()

def gen_field(rng, name, value):
    return (name, rng.choice(OWS + [b' ', b' ', b' ']), value, rng.choice(OWS + [b'', b'']))

def chunk_layout(rng, body):
    chunks, i = [], 0
    while i < len(body):
        k = rng.randint(1, max(1, min(len(body) - i, rng.choice([1, 2, 5, 16, 64, 300]))))
        hx = b'%x' % k
        if rng.random() < 0.3: hx = hx.upper()
        if rng.random() < 0.15: hx = b'0' * rng.randint(1, 3) + hx
        ext = b''
        r = rng.random()
        if r < 0.2: ext = b';' + H.rtoken(rng, 1, 4) + (b'=' + H.rtoken(rng, 1, 4) if rng.random() < 0.5 else b'')
        elif r < 0.25: ext = rng.choice([b' ', b'\t'])
        chunks.append((hx, ext, body[i:i + k]))
        i += k
    last = rng.choice([b'0', b'0', b'0', b'000'])
    last_ext = b';' + H.rtoken(rng, 1, 4) if rng.random() < 0.15 else b''
    trailers = []
    if rng.random() < 0.25:
        for _ in range(rng.randint(1, 2)):
            trailers.append(H.rtoken(rng) + b': ' + (rvalue(rng) or b'x'))
    return dict(chunks=chunks, last=last, last_ext=last_ext, trailers=trailers)

def gen_request(rng, cfg, first, last, max_body=48, body=None, kind=None):
    """a well-formed proxy request (abstract syntax).  first: first request of the connection (credentials needed
    when auth is on); last: no later request follows (Connection: close / HTTP/1.0 allowed)"""
    method = rng.choice(H.METHODS + [b'GET', b'POST', b"M!#$%&'*+-.^_`|~0"])
    version = b'HTTP/1.1' if not last or rng.random() < 0.8 else b'HTTP/1.0'
    target = gen_target(rng)
    names = set()
    fields = []
    def add(name, value, pos=None):
        if name.lower() in names or name.lower() in (b'content-length', b'transfer-encoding'):
            return
        names.add(name.lower())
        fields.insert(rng.randint(0, len(fields)) if pos is None else pos, gen_field(rng, name, value))
    for _ in range(rng.randint(0, 3)):
        n = H.rtoken(rng, 1, 10)
        if n.lower() in (b'upgrade', b'connection', b'host', b'via', b'expect') or n.lower() in HOP:
            continue
        add(n, rvalue(rng))
    hosttext = (b'[' + target['host'] + b']' if target['hk'] == 'IPv6' else target['host']) + (b':' + target['port'] if target['port'] else b'')
    if version == b'HTTP/1.1' or rng.random() < 0.5:
        add(recase(rng, b'Host'), rng.choice([hosttext, hosttext, b'other.example']))
    if rng.random() < 0.35:
        add(recase(rng, b'Proxy-Connection'), rng.choice([b'keep-alive', b'Keep-Alive', b'close', b'']))
    if cfg['auth'] is not None and first:
        code = base64.b64encode(cfg['auth'])
        add(recase(rng, b'Proxy-Authorization'), rng.choice([b'Basic ', b'basic ', b'BASIC  ', b'Basic\t']) + code)
    elif rng.random() < 0.2:
        add(recase(rng, b'Proxy-Authorization'), rng.choice([b'Basic dXNlcjpwYXNz', b'Bearer abc.def', b'x', b'']))
    if rng.random() < 0.25:
        add(recase(rng, b'Via'), rng.choice([b'1.0 fred', b'1.1 a.example, 1.0 b', b'HTTP/1.1 gw (x y)', b'']))
    if rng.random() < 0.3:
        add(recase(rng, b'Connection'), rng.choice([b'keep-alive', b'Keep-Alive', b'close'] if last else [b'keep-alive', b'Keep-Alive']))
    if last and version == b'HTTP/1.1' and rng.random() < 0.12 and b'connection' not in names:
        add(recase(rng, b'Connection'), rng.choice([b'Upgrade', b'upgrade', b'keep-alive, Upgrade']))
        add(recase(rng, b'Upgrade'), rng.choice([b'websocket', b'h2c', b'derp']))
    if rng.random() < 0.2:
        add(b'User-Agent', rng.choice([b'curl/8.0', b'Mozilla/5.0 (X11; Linux) Gecko', rvalue(rng) or b'x']))
    for d in cfg['disable']:
        if rng.random() < 0.5 and d.lower() not in (b'via',):
            add(recase(rng, d), rvalue(rng))
    if cfg['disable'] and rng.random() < 0.2:
        add(recase(rng, b'Via'), b'1.0 up')
    kind = kind or rng.choice(['none', 'cl', 'cl', 'chunked', 'chunked', 'cl0'])
    if body is None:
        n = rng.choice([1, 2, 3, 7, 16, max_body])
        body = H.rbody(rng, rng.randint(1, n))
    elif kind in ('none', 'cl0'):
        kind = 'cl'
    if kind in ('cl', 'chunked') and rng.random() < 0.15:
        add(b'Expect', b'100-continue')
    pos = rng.randint(0, len(fields))
    hs1, hs2 = fields[:pos], fields[pos:]
    if kind == 'none':
        framing = ('none',)
    elif kind == 'cl0':
        framing = ('cl', gen_field(rng, recase(rng, b'Content-Length'), rng.choice([b'0', b'0', b'00'])), b'')
    elif kind == 'cl':
        v = b'%d' % len(body)
        if rng.random() < 0.1: v = b'0' * rng.randint(1, 2) + v
        framing = ('cl', gen_field(rng, recase(rng, b'Content-Length'), v), body)
    else:
        if rng.random() < 0.15:
            body = b''
        framing = ('chunked', gen_field(rng, recase(rng, b'Transfer-Encoding'), recase(rng, b'chunked')), chunk_layout(rng, body))
    return dict(method=method, target=target, version=version, hs1=hs1, framing=framing, hs2=hs2)

def gen_cfg(rng):
    disable = []
    if rng.random() < 0.35:
        disable = rng.sample([b'x-drop', b'user-agent', b'accept-encoding', b'via', b'accept', b'X-Mixed', b'cookie', b'expect'], rng.randint(1, 3))
    auth = b'user:pass' if rng.random() < 0.3 else None
    return dict(disable=disable, auth=auth, agent=agent())

def boundary_cuts(raw):
    pts = set()
    for i, ch in enumerate(raw):
        if ch in (13, 10):
            for d in (-1, 0, 1, 2):
                pts.add(i + d)
    pts.update((len(raw) - 2, len(raw) - 1))
    return sorted(p for p in pts if 0 < p < len(raw))

def gen_cuts(rng, raw):
    n = len(raw)
    m = rng.randrange(7)
    if m == 0 or n <= 1:
        return []
    if m == 1:
        return [rng.randrange(1, n)]
    if m == 2:
        return H.random_cuts(rng, n, rng.randint(2, 6))
    if m == 3:
        bc = boundary_cuts(raw)
        return sorted(rng.sample(bc, min(len(bc), rng.randint(1, 8)))) if bc else []
    if m == 4 and n <= 160:
        return list(range(1, n))
    if m == 5:
        i = raw.find(b'\r\n\r\n')
        return sorted(set(p for p in (i + 2, i + 3, i + 4, i + 5) if 0 < p < n))
    return H.random_cuts(rng, n, rng.randint(1, 3))

def mutate(rng, raw):
    r = rng.randrange(8)
    if r == 0: return raw[:rng.randrange(1, len(raw) + 1)]
    if r == 1:
        i = rng.randrange(0, len(raw) + 1); return raw[:i] + b'\r\n' + raw[i:]
    if r == 2:
        i = raw.find(b'\r\n', rng.randrange(0, len(raw))); return raw if i < 0 else raw[:i] + rng.choice([b'\r', b'\n', b'']) + raw[i + 2:]
    if r == 3: return raw.replace(b'\r\n\r\n', b'\r\nContent-Length: %d\r\n\r\n' % rng.choice([0, 3, 50]), 1)
    if r == 4: return raw.replace(b'\r\n\r\n', b'\r\nTransfer-Encoding: chunked\r\n\r\n', 1)
    if r == 5: return raw.replace(b' ', rng.choice([b'', b'  ', b'\t']), 1)
    if r == 6:
        i = rng.randrange(0, len(raw) + 1); return raw[:i] + bytes([rng.choice([0xff, 0xc3, 0x80, 0x00])]) + raw[i:]
    i = rng.randrange(0, len(raw)); return raw[:i] + bytes([rng.randrange(256)]) + raw[i + 1:]

def conn_case(cfg, reqs, cuts, **kw):
    """reqs: list of dict(abs=<abstract request> | None, raw=bytes); cuts: one cut list per request;
    segs (optional): several such segmentations of the same bytes, each run on a connection of its own;
    scheds (optional, per segmentation): per request i >= 1 the data the origin sends in answer to request i-1 as
    [(j, bytes)]: arrives just before the j-th piece of request i (j = 0: before the request starts);
    sends (optional, per segmentation): outcomes of the first send() calls on the upstream socket (int = accept at
    most that many bytes, 'block' = BlockingIOError), afterwards everything is accepted"""
    segs = kw.pop('segs', None) or [cuts]
    return dict(kind=kw.pop('kind', 'conn'), cfg=cfg, reqs=reqs, segs=segs, connect_ok=kw.pop('connect_ok', True), **kw)

def segs_of(case):
    return case.get('segs') or [case['cuts']]

RESPONSES = [b'HTTP/1.1 200 OK\r\nContent-Length: 2\r\n\r\nok',
             b'HTTP/1.1 200 OK\r\nTransfer-Encoding: chunked\r\n\r\n2\r\nok\r\n0\r\n\r\n',
             b'HTTP/1.1 404 Not Found\r\nContent-Length: 0\r\nX-A: b\r\n\r\n']

def gen_sched(rng, reqs, seg):
    """when the origin's answers arrive, relative to the pieces of the following request"""
    out = [[]]
    for i in range(1, len(reqs)):
        n = len(H.cut(reqs[i]['raw'], seg[i]))
        resp = rng.choice(RESPONSES)
        j = 0 if (n < 2 or rng.random() < 0.4) else rng.randrange(1, n)
        if rng.random() < 0.3:
            c = rng.randrange(1, len(resp))
            j2 = j if rng.random() < 0.5 else rng.randrange(j, n)
            out.append([(j, resp[:c]), (j2, resp[c:])])
        else:
            out.append([(j, resp)])
    return out

def gen_sends(rng):
    if rng.random() < 0.65:
        return []
    return [rng.choice([1, 2, 7, 30, 100, 'block']) for _ in range(rng.randint(1, 8))]

def with_schedules(rng, case, always=False):
    case['scheds'] = [gen_sched(rng, case['reqs'], seg) for seg in case['segs']]
    case['sends'] = [gen_sends(rng) for _ in case['segs']]
    return case

def generate(rng, tier):
    logging.disable(logging.CRITICAL)
    cases = []
    nreq = 500 if tier != 'thorough' else 20000
    nseg = 1 if tier != 'thorough' else 3
    made = 0
    while made < nreq:
        cfg = gen_cfg(rng)
        k = rng.choice([1, 1, 2, 3, 3, 4])
        reqs = []
        for i in range(k):
            a = gen_request(rng, cfg, first=(i == 0), last=(i == k - 1))
            reqs.append(dict(abs=a, raw=render_request(a)))
        made += k
        cases.append(with_schedules(rng, conn_case(cfg, reqs, None, segs=[[gen_cuts(rng, q['raw']) for q in reqs] for _ in range(nseg)])))
    # boundary stream: bodies around the default re-chunking size (128 KiB), patterned so that the Coq terms stay small
    for n in ([131072] if tier != 'thorough' else [131071, 131072, 131073, 262145]):
        cfg = dict(disable=[], auth=None, agent=agent())
        body = (b'ab' * (n // 2 + 1))[:n]
        for kind in (['chunked'] if tier != 'thorough' else ['chunked', 'cl']):
            a = dict(method=b'PUT', target=dict(ui=None, hk='RegName', host=b'big.example', port=None, path=b'/up'), version=b'HTTP/1.1',
                     hs1=[(b'Host', b' ', b'big.example', b'')], hs2=[],
                     framing=('chunked', (b'Transfer-Encoding', b' ', b'chunked', b''),
                              dict(chunks=[(b'%x' % len(body[i:i + 70000]), b'', body[i:i + 70000]) for i in range(0, n, 70000)],
                                   last=b'0', last_ext=b'', trailers=[])) if kind == 'chunked'
                     else ('cl', (b'Content-Length', b' ', b'%d' % n, b''), body))
            raw = render_request(a)
            cases.append(conn_case(cfg, [dict(abs=a, raw=raw, big=True)], [[len(raw) // 2]], kind='big', sends=[[5000, 'block', 1, 70000]]))
    # requests outside the domain: correspondence only (and, for te-list, the known finding)
    nbad = 90 if tier != 'thorough' else 2500
    for _ in range(nbad):
        cfg = gen_cfg(rng)
        a = gen_request(rng, cfg, first=True, last=True, max_body=30)
        raw = render_request(a)
        m = rng.randrange(11)
        connect_ok = True
        if m == 0:
            raw = b'CONNECT ' + rng.choice([b'h.example:443', b'[::1]:8443']) + b' HTTP/1.1\r\nHost: h\r\n\r\n'
            reqs = [dict(abs=None, raw=raw), dict(abs=None, raw=H.rbody(rng, rng.randint(1, 20)))]
        elif m == 1:
            raw = raw.replace(render_target(a['target']), a['target']['path'] or b'/', 1)       # origin-form: no web server enabled
            reqs = [dict(abs=None, raw=raw)]
        elif m == 2:
            cfg = dict(cfg, auth=b'user:pass')
            a = gen_request(rng, dict(cfg, auth=None), first=True, last=True, max_body=30)      # no / wrong credentials
            reqs = [dict(abs=None, raw=render_request(a))]
        elif m == 3:
            connect_ok = False
            reqs = [dict(abs=None, raw=raw)]
        elif m == 4:
            raw = raw.replace(b'\r\n\r\n', b'\r\n' + rng.choice([b'Content-Length: 5', b'Transfer-Encoding: chunked', b'content-length: 0']) + b'\r\n\r\n', 1)
            reqs = [dict(abs=None, raw=raw)]
        elif m == 5:
            raw = raw.replace(b' HTTP/1.', rng.choice([b' HTTP/2.', b' http/1.', b' HTTP/1.1 x']), 1)
            reqs = [dict(abs=None, raw=raw)]
        elif m == 6:
            # a well-formed first request, then a damaged later one
            b = gen_request(rng, cfg, first=False, last=True, max_body=30)
            reqs = [dict(abs=a, raw=raw), dict(abs=None, raw=mutate(rng, render_request(b)))]
        elif m == 7:
            # port out of range / 0
            t = dict(a['target'], port=rng.choice([b'0', b'65536', b'99999']))
            a2 = dict(a, target=t)
            reqs = [dict(abs=None, raw=render_request(a2))]
        elif m in (8, 9):
            # two (or three) requests packed into the same bytes: the remainder loop of on_client_data / handle_data (C04's business;
            # here only the model is compared)
            more = b''.join(render_request(gen_request(rng, dict(cfg, auth=None), first=False, last=True, max_body=20)) for _ in range(rng.randint(1, 2)))
            if m == 8:
                reqs = [dict(abs=None, raw=raw + more)]
            else:
                b = gen_request(rng, cfg, first=False, last=False, max_body=20)
                reqs = [dict(abs=a, raw=raw), dict(abs=None, raw=render_request(b) + more)]
        else:
            reqs = [dict(abs=None, raw=mutate(rng, raw))]
        reqs = [q for q in reqs if q['raw']]
        if not reqs:
            continue
        cases.append(with_schedules(rng, conn_case(cfg, reqs, [gen_cuts(rng, q['raw']) for q in reqs], kind='outside', connect_ok=connect_ok)))
    # Transfer-Encoding with a coding list whose final coding is chunked (known finding)
    for _ in range(3 if tier != 'thorough' else 40):
        cfg = dict(disable=[], auth=None, agent=agent())
        a = gen_request(rng, cfg, first=True, last=True, max_body=20, body=H.rbody(rng, rng.randint(1, 20)), kind='chunked')
        if a['framing'][0] != 'chunked' or not decoded_body(a):
            continue
        f = a['framing'][1]
        a = dict(a, framing=('chunked', (f[0], f[1], rng.choice([b'gzip, chunked', b'identity,chunked', b'x-foo , Chunked']), f[3]), a['framing'][2]))
        raw = render_request(a)
        cases.append(conn_case(cfg, [dict(abs=a, raw=raw, te_list=True)], [gen_cuts(rng, raw)], kind='te-list'))
    return cases


# ------------------------------------------------------------------ running the implementation
_flags_cache = {}

def get_flags(cfg):
    import sim
    key = (tuple(cfg['disable']), cfg['auth'])
    if key not in _flags_cache:
        opts = {}
        if cfg['disable']:
            opts['disable_headers'] = list(cfg['disable'])
        if cfg['auth'] is not None:
            opts['basic_auth'] = cfg['auth'].decode('latin-1')
        _flags_cache[key] = sim.make_flags(**opts)
    return _flags_cache[key]

RESPONSE = b'HTTP/1.1 200 OK\r\nContent-Length: 2\r\n\r\nok'

def pieces_of(case, seg=None):
    seg = segs_of(case)[0] if seg is None else seg
    return [H.cut(q['raw'], cuts) for q, cuts in zip(case['reqs'], seg)]

def run_seg(case, flags, seg, sched=None, sends=None):
    import sim
    script = None if case['connect_ok'] else [sim.io_error('refused')]
    s = sim.Sim(flags=flags, connect_script=script)
    if sends:
        items = [sim.io_error('block') if x == 'block' else int(x) for x in sends]
        s.on_connect = lambda sock: sock.script_send(*items)
    counts, per_req, outcome, fed, gi = [], [], 0, [], 0
    forwarded_prev = False
    try:
        for i, ps in enumerate(pieces_of(case, seg)):
            before = len(s.upstreams[0].out) if s.upstreams else 0
            plan = sorted(((min(int(j), len(ps) - 1), d) for j, d in ((sched[i] if sched and i < len(sched) else None) or [(0, RESPONSES[0])])),
                          key=lambda x: x[0]) if i > 0 else []
            for k, p in enumerate(ps):
                if s.torn:
                    break
                while plan and plan[0][0] <= k:
                    _, d = plan.pop(0)
                    if forwarded_prev and s.upstreams and not s.upstreams[0].closed and not s.torn:
                        # the origin's answer to the previous request (or a part of it) arrives now
                        fed.append((gi, bytes(d)))
                        s.upstreams[0].feed(bytes(d))
                        s.run()
                if s.torn:
                    break
                s.client.feed(p)
                x = s.run()
                gi += 1
                counts.append(len(s.upstreams[0].out) if s.upstreams else 0)
                if isinstance(x, tuple) and x[0] == 'raised':
                    outcome = 1000 + C.exn_code(x[1])
                elif x == 'teardown':
                    outcome = 1
            up = bytes(s.upstreams[0].out) if s.upstreams else b''
            per_req.append(up[before:])
            forwarded_prev = len(up) > before
            if s.torn:
                break
        if forwarded_prev and not s.torn and s.upstreams and not s.upstreams[0].closed:
            s.upstreams[0].feed(RESPONSES[0])
            s.run()
        up = bytes(s.upstreams[0].out) if s.upstreams else b''
        return dict(outcome=outcome, up=up, counts=counts, per_req=per_req, n_up=len(s.upstreams), sched=fed)
    finally:
        s.close()

def run_impl(case):
    logging.disable(logging.CRITICAL)
    case['cfg'] = dict(case['cfg'], agent=agent())      # corpus cases: the Via value of the tree under test
    flags = get_flags(case['cfg'])
    segs = segs_of(case)
    scheds = case.get('scheds') or [None] * len(segs)
    sends = case.get('sends') or [None] * len(segs)
    runs = [run_seg(case, flags, seg, sc, sn) for seg, sc, sn in zip(segs, scheds, sends)]
    out = dict(runs[0])
    out['runs'] = runs
    return out


# ------------------------------------------------------------------ h11 as the independent reader of what the origin received
def h11_requests(stream, n):
    """parse n requests out of the byte stream with h11 in the server role (answering each one so that the next cycle starts)"""
    import h11
    c = h11.Connection(h11.SERVER, max_incomplete_event_size=1 << 26)
    c.receive_data(stream)
    out = []
    try:
        for i in range(n):
            cur = None
            while True:
                e = c.next_event()
                if e is h11.NEED_DATA:
                    return out, 'incomplete request %d' % i
                if e is h11.PAUSED:
                    return out, 'paused'
                if isinstance(e, h11.Request):
                    cur = dict(method=bytes(e.method), target=bytes(e.target), version=b'HTTP/' + bytes(e.http_version),
                               headers=[(bytes(k), bytes(v)) for k, v in e.headers.raw_items()], body=b'')
                elif isinstance(e, h11.Data):
                    cur['body'] += bytes(e.data)
                elif isinstance(e, h11.EndOfMessage):
                    cur['trailers'] = [(bytes(k), bytes(v)) for k, v in e.headers]
                    break
                elif isinstance(e, h11.ConnectionClosed):
                    return out, 'closed'
            out.append(cur)
            if i + 1 < n:
                if c.our_state is h11.MUST_CLOSE or c.their_state is h11.MUST_CLOSE:
                    return out, 'h11 would close the connection after request %d' % i
                c.send(h11.Response(status_code=200, headers=[(b'content-length', b'0')]))
                c.send(h11.EndOfMessage())
                if c.our_state is h11.MUST_CLOSE:
                    return out, 'h11 would close the connection after request %d' % i
                c.start_next_cycle()
    except Exception as ex:
        return out, 'h11 error: %s' % ex
    rest = bytes(c.trailing_data[0])
    if rest:
        return out, 'bytes after the last request: %r' % rest[:40]
    return out, None

def h11_one(raw):
    reqs, why = h11_requests(raw, 1)
    return reqs[0] if (why is None and reqs) else None


def wf_prefix(case):
    """the abstract requests of the leading well-formed part of the connection"""
    out = []
    for q in case['reqs']:
        if q.get('abs') is None or q.get('te_list'):
            break
        out.append(q['abs'])
    return out


def oracle(case, out):
    for k, (seg, run) in enumerate(zip(segs_of(case), out['runs'])):
        f = oracle_run(case, seg, run)
        if f:
            return f if len(out['runs']) == 1 else 'segmentation %d: %s' % (k, f)
    ups = set(r['up'] for r in out['runs'])
    if len(ups) > 1 and wf_prefix(case) and len(wf_prefix(case)) == len(case['reqs']) and case['connect_ok']:
        return 'the same request bytes were forwarded differently under different segmentations'
    return None

def oracle_run(case, seg, out):
    cfg = case['cfg']
    if case['kind'] == 'te-list':
        q = case['reqs'][0]
        want = decoded_body(q['abs'])
        if out['outcome'] != 0:
            return 'te-list: connection ended (%r)' % out['outcome']
        head, sep, wire = out['up'].partition(b'\r\n\r\n')
        got = mini_dechunk(wire)
        if got != want:
            return 'te-list: request with Transfer-Encoding %r: body of %d bytes not forwarded (origin was sent %d body bytes)' % (
                q['abs']['framing'][1][2], len(want), len(wire))
        return None
    wf = wf_prefix(case)
    if not wf or not case['connect_ok']:
        return None
    if case['kind'] == 'outside' and len(wf) < len(case['reqs']):
        # only the well-formed first request is judged; what a damaged later request does is not C02's business
        stream = out['per_req'][0] if out['per_req'] else b''
        wf = wf[:1]
    else:
        stream = out['up']
        if out['outcome'] != 0:
            return 'connection with only well-formed requests ended: outcome %r' % out['outcome']
    got, why = h11_requests(stream, len(wf))
    if why:
        return 'origin side (h11) could not read %d request(s) from what was forwarded: %s' % (len(wf), why)
    for i, (a, g) in enumerate(zip(wf, got)):
        e = expect(cfg, a)
        g = dict(g, headers=[(n, v.lower() if n.lower() == b'transfer-encoding' else v) for n, v in g['headers']])
        e = dict(e, headers=[(n, v.lower() if n.lower() == b'transfer-encoding' else v) for n, v in e['headers']])
        for k in ('method', 'target', 'version', 'headers', 'body'):
            if g[k] != e[k]:
                return 'request %d of the connection: %s differs: origin got %r, client sent (after the documented rewriting) %r' % (i, k, _short(g[k]), _short(e[k]))
        names = [n.lower() for n, _ in g['headers']]
        for hop in HOP:
            if hop in names:
                return 'request %d: %s forwarded' % (i, hop.decode())
    # every prefix of the pieces: nothing of a request is forwarded before its last byte arrived, everything right after
    cum, k = 0, 0
    for ps, want in zip(pieces_of(case, seg)[:len(wf)], out['per_req']):
        for j, p in enumerate(ps):
            if k >= len(out['counts']):
                break
            lastp = (j == len(ps) - 1)
            if not lastp and out['counts'][k] != cum:
                return 'bytes forwarded before the request was complete (piece %d)' % k
            if lastp and out['counts'][k] != cum + len(want):
                return 'request not forwarded when its last byte arrived (piece %d)' % k
            k += 1
        cum += len(want)
    return None

def _short(x):
    return x if not isinstance(x, (bytes, bytearray)) or len(x) < 200 else (bytes(x[:80]), '...', len(x))

def mini_dechunk(wire):
    body, i = b'', 0
    try:
        while True:
            j = wire.index(b'\r\n', i)
            n = int(wire[i:j].split(b';')[0], 16)
            if n == 0:
                return body
            body += wire[j + 2:j + 2 + n]
            i = j + 2 + n + 2
    except Exception:
        return None


# ------------------------------------------------------------------ Coq terms
cb = H.cb
cob = H.cob

def coq_big(x):
    """long patterned byte strings as (prefix ++ bpat [a;b] n ++ suffix)"""
    x = bytes(x)
    if len(x) < 20000:
        return cb(x)
    parts, i = [], 0
    while i < len(x):
        j = i
        # maximal run of the 2-byte pattern starting at i
        if x[i:i + 2] in (b'ab', b'ba'):
            pat = x[i:i + 2]
            while j < len(x) and x[j] == pat[(j - i) % 2]:
                j += 1
        if j - i >= 1000:
            parts.append(C.coq_bpat(x[i:i + 2], j - i)); i = j
        else:
            k = i
            while k < len(x) and not (x[k:k + 2] in (b'ab', b'ba') and x[k:k + 1000] == (x[k:k + 2] * 500)):
                k += 1
            parts.append(cb(x[i:k])); i = k
    return '(' + ' ++ '.join(parts) + ')'

def coq_cfg(cfg, auth=True):
    code = base64.b64encode(cfg['auth']) if (cfg['auth'] is not None and auth) else None
    return '(mk_cfg %s %s %s true true)' % (cb(cfg['agent']), C.coq_list(cb(d) for d in cfg['disable']), cob(code))

def coq_field(f):
    return '(mk_field %s %s %s %s)' % tuple(cb(x) for x in f)

def coq_target(t):
    ui = 'None' if t['ui'] is None else '(Some (%s, %s))' % (cb(t['ui'][0]), cob(t['ui'][1]))
    return '(Absolute %s (%s %s) %s %s)' % (ui, t['hk'], cb(t['host']), cob(t['port']), cob(t['path']))

def coq_chunked(lay, big=False):
    f = coq_big if big else cb
    return '(mk_chunked %s %s %s %s)' % (C.coq_list('(mk_chunk %s %s %s)' % (cb(s), cb(e), f(d)) for s, e, d in lay['chunks']),
                                        cb(lay['last']), cb(lay['last_ext']), C.coq_list(cb(t) for t in lay['trailers']))

def coq_request(a, big=False):
    fr = a['framing']
    f = coq_big if big else cb
    if fr[0] == 'none':
        frt = 'RNone'
    elif fr[0] == 'cl':
        frt = '(RLength %s %s)' % (coq_field(fr[1]), f(fr[2]))
    else:
        frt = '(RChunked %s %s)' % (coq_field(fr[1]), coq_chunked(fr[2], big))
    return '(mk_request %s %s %s %s %s %s)' % (cb(a['method']), coq_target(a['target']), cb(a['version']),
                                               C.coq_list(coq_field(x) for x in a['hs1']), frt, C.coq_list(coq_field(x) for x in a['hs2']))

def coq_fwd(e, big=False):
    f = coq_big if big else cb
    return '(mk_fwd %s %s %s %s %s)' % (cb(e['method']), cb(e['target']), cb(e['version']),
                                        C.coq_list('(%s, %s)' % (cb(n), cb(v)) for n, v in e['headers']), f(e['body']))

def coq_cuts(raw, cuts):
    if len(raw) > 1 and cuts == list(range(1, len(raw))):
        return 'EveryByte'
    return '(Cuts %s)' % C.coq_list(str(c) for c in H_norm_cuts(raw, cuts))

def H_norm_cuts(raw, cuts):
    return sorted(set(c for c in cuts if 0 < c < len(raw)))

def comparable(w):
    """forwarded bytes on which the reference reader and h11 (a lenient receiver) are expected to agree"""
    head, sep, _ = w.partition(b'\r\n\r\n')
    if not sep or b'\n' in head.replace(b'\r\n', b''):
        return False
    lines = head.split(b'\r\n')
    if any(l[:1] in (b' ', b'\t') for l in lines[1:]) or lines[0][:1] in (b' ', b'\t', b''):
        return False
    names = [l.split(b':', 1)[0].lower() for l in lines[1:] if b':' in l]
    ncl, nte = names.count(b'content-length'), names.count(b'transfer-encoding')
    if ncl > 1 or nte > 1 or (ncl and nte):
        return False
    for l in lines[1:]:
        if l.lower().startswith(b'content-length:') and len(l) > 35:
            return False
    if not lines[0].endswith((b' HTTP/1.1', b' HTTP/1.0')):
        return False                                   # h11 reads only HTTP/1.x; the reference reads any HTTP/d.d
    if names.count(b'host') != 1 and lines[0].endswith(b'1.1'):
        return False                                   # h11 insists on exactly one Host field; the reference does not judge Host
    if names.count(b'host') > 1:
        return False
    return True

def h11_fwd(w):
    """h11's reading of one forwarded request as a fwd record; the Transfer-Encoding value, which h11 lower-cases,
    is given back as spelled on the wire"""
    g = h11_one(w)
    if g is None:
        return None
    head = w.split(b'\r\n\r\n', 1)[0].split(b'\r\n')[1:]
    hs = []
    for (n, v), line in zip(g['headers'], head):
        if n.lower() == b'transfer-encoding':
            v = line.split(b':', 1)[1].strip(b' \t')
        hs.append((n, v))
    return dict(g, headers=hs)

def coq_term(case, out):
    cfg = case['cfg']
    big = case['kind'] == 'big'
    f = coq_big if big else cb
    reqs = []
    for q in case['reqs']:
        if q.get('abs') is not None and not q.get('te_list'):
            reqs.append('(RAbs %s %s)' % (coq_request(q['abs'], big), coq_fwd(expect(cfg, q['abs']), big)))
        else:
            reqs.append('(RRaw %s)' % f(q['raw']))
    terms = []
    groups = {}
    for seg, run in zip(segs_of(case), out['runs']):
        groups.setdefault(run['up'], []).append((seg, run))
    for up, rs in groups.items():
        runs = ['(%s, %s, %d, %s)' % (C.coq_list(coq_cuts(q['raw'], cuts) for q, cuts in zip(case['reqs'], seg)),
                                      C.coq_list('(%d, %s)' % (gi, cb(d)) for gi, d in run['sched']), run['outcome'],
                                      C.coq_list(str(n) for n in run['counts'])) for seg, run in rs]
        terms.append('FConn %s %s %s %s %s' % (coq_cfg(cfg), C.coq_bool(case['connect_ok']), C.coq_list(reqs), C.coq_list(runs), f(up)))
    if not big and not is_tunnel(case):
        for q, w in zip(case['reqs'], out['per_req']):
            if w and (q.get('abs') is None or q.get('te_list')) and comparable(w):
                g = h11_fwd(w)
                terms.append('FRef %s %s' % (cb(w), 'None' if g is None else '(Some %s)' % coq_fwd(g)))
    return terms

def is_tunnel(case):
    return case['reqs'][0]['raw'].startswith(b'CONNECT ')

def nontrivial(case, out):
    return bool(out.get('up')) and case['kind'] in ('conn', 'big') and out['outcome'] == 0

def classify(case, out, failure):
    # exactly the recorded class: a request whose Transfer-Encoding value is a coding LIST ending in chunked is taken to have
    # no body (header section forwarded at once, body bytes never forwarded / parsed as a further request)
    if case.get('kind') == 'te-list' and isinstance(failure, str) and 'te-list:' in failure:
        v = case['reqs'][0]['abs']['framing'][1][2].lower()
        if b',' in v and v.split(b',')[-1].strip() == b'chunked':
            return KNOWN_TE
    return None

def model_expr(case):
    seg = segs_of(case)[0]
    datas = C.coq_list(cb(q['raw']) for q in case['reqs'])
    cuts = C.coq_list(coq_cuts(q['raw'], c) for q, c in zip(case['reqs'], seg))
    out = run_impl(case)
    sched = C.coq_list('(%d, %s)' % (gi, cb(d)) for gi, d in out['runs'][0]['sched'])
    return 'let \'(o, counts) := run_one %s %s %s %s %s in (outcome_code o, upstream_bytes (outcome_state o), counts)' % (
        coq_cfg(case['cfg']), C.coq_bool(case['connect_ok']), datas, cuts, sched)

def shrink(case, fails):
    cur = dict(case)
    # one segmentation, fewer requests, then fewer cuts
    scheds = case.get('scheds') or [None] * len(segs_of(case))
    sends = case.get('sends') or [None] * len(segs_of(case))
    for seg, sc, sn in zip(segs_of(case), scheds, sends):
        t = dict(cur, segs=[seg], scheds=[sc], sends=[sn])
        if fails(t):
            cur = t
            break
    else:
        return case
    if cur.get('sends') and cur['sends'][0]:
        t = dict(cur, sends=[None])
        if fails(t):
            cur = t
    while len(cur['reqs']) > 1:
        t = dict(cur, reqs=cur['reqs'][:-1], segs=[cur['segs'][0][:-1]], scheds=[(cur['scheds'][0] or [])[:-1] or None] if cur.get('scheds') else None)
        if fails(t):
            cur = t
        else:
            break
    improved = True
    while improved:
        improved = False
        seg = cur['segs'][0]
        for ri in range(len(seg)):
            for i in range(len(seg[ri])):
                cuts = [list(c) for c in seg]
                del cuts[ri][i]
                t = dict(cur, segs=[cuts])
                if fails(t):
                    cur = t; improved = True; break
            if improved:
                break
    return cur


# ------------------------------------------------------------------ thorough: every cut into two pieces of 300 short requests, on the implementation
def extra_checks(rng, tier):
    if tier != 'thorough':
        return {}
    failures, n_runs, n_req = [], 0, 0
    while n_req < 300:
        cfg = gen_cfg(rng)
        a = gen_request(rng, cfg, first=True, last=True, max_body=16)
        raw = render_request(a)
        if len(raw) > 200:
            continue
        n_req += 1
        first = dict(abs=a, raw=raw)
        case = conn_case(cfg, [first], None, segs=[[[p]] for p in range(1, len(raw))])
        out = run_impl(case)
        n_runs += len(out['runs'])
        f = oracle(case, out)
        if f:
            failures.append(dict(case=shrink(case, lambda c: bool(oracle(c, run_impl(c)))), out=None, what=f))
        if len(failures) >= 3:
            break
    return dict(failures=failures, notes=['exhaustive: every cut into two pieces of %d requests <= 200 bytes: %d runs on the implementation' % (n_req, n_runs)],
                exhaustive_two_cut_runs=n_runs)


def debug_mismatches(seed=0, tier='quick', limit=8):
    import random
    rng = random.Random(seed * 1000003 + sum(map(ord, ID)))
    cases = generate(rng, tier)
    outs = [run_impl(c) for c in cases]
    terms, idx = [], []
    for i, (c, o) in enumerate(zip(cases, outs)):
        for t in coq_term(c, o):
            terms.append(t); idx.append(i)
    mism, errs = C.run_coq_cases(ID, IMPORTS, CASE_TYPE, CHECK_FN, terms, shard=SHARD)
    print('errors', errs[:2])
    print('mismatches', len(mism), 'of', len(terms))
    for j in mism[:limit]:
        c, o = cases[idx[j]], outs[idx[j]]
        print('---', c['kind'], terms[j][:60])
        print(terms[j][:3000])
        if terms[j].startswith('FConn'):
            print(C.coq_eval(ID, IMPORTS, model_expr(c))[-2500:])
    fails = [(i, oracle(c, o)) for i, (c, o) in enumerate(zip(cases, outs))]
    fails = [(i, f) for i, f in fails if f]
    print('oracle failures', len(fails))
    for i, f in fails[:limit]:
        print(cases[i]['kind'], f)
