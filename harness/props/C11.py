"""C11 — TLS interception: correspondence of Tls/Intercept.v with the CONNECT path of
proxy/http/proxy/server.py (+ connection/server.py wrap, connection/client.py wrap, common/pki.py)
and the property itself evaluated on the implementation.

The REAL HttpProtocolHandler + HttpProxyPlugin are driven through harness/sim.py.  Patched from
here (nothing in /repo is touched): ssl.create_default_context / SSLContext.wrap_socket /
SSLContext.load_cert_chain (record the context settings actually passed and deliver a scripted
outcome that is computed FROM those settings the way openssl would: verification fails iff
verify_mode != CERT_NONE and the chain is not trusted by the cafile given, or check_hostname is on
and the certificate does not name server_hostname), pki.run_openssl_command (records the command
and the content of its config / ext file, touches the -out file, scripted outcome),
cert_der_to_dict (scripted upstream subject).  Thorough tier adds a live run with real openssl,
a real proxy.py instance, real TLS origins and a verifying TLS client on loopback."""
import os, ssl, sys, socket, errno, shutil, tempfile, subprocess, ipaddress, itertools, threading, time, logging, atexit
from unittest import mock
import common as C
import sim

ID = 'C11'
CASE_TIMEOUT = 60   # per-case wall-clock limit of the driver's hang detection
COQ_TARGETS = ['theories/Props/C11.vo', 'theories/Tls/InterceptCases.vo']
IMPORTS = 'From PM Require Import Lib.Bytes Lib.PyStr Tls.Intercept Tls.InterceptCases.'
CASE_TYPE = 'case'
CHECK_FN = 'check_case'
ANCHOR_FILES = ['proxy/http/proxy/server.py', 'proxy/core/connection/server.py', 'proxy/core/connection/client.py',
                'proxy/common/pki.py', 'proxy/common/utils.py', 'proxy/http/handler.py', 'proxy/core/base/tcp_server.py']
RULE = ('cases = the outcome table of the interception decision procedure, stage by stage, every oracle outcome at every call '
        'site that is reachable: gate (6 flag sets x 7 do_intercept answer lists x insecure x connect outcome), upstream handshake '
        '(insecure x ca_file x 4 chain situations x 3 name situations, + 5 transport errors x insecure), certificate generation '
        '(5 upstream subjects x 8 cache states, + every openssl command x {exit!=0, timeout, OSError}), client side (6 flush '
        'outcomes x 8 handshake outcomes), relay scripts (tunnel / opt-out / intercepted / answers that flip between calls), a boundary stream '
        '(non-ASCII and undecodable hosts, 200-byte names, odd IP spellings, ports 0/1/65535), and a fault stream: every outcome of the '
        'single send()/recv() calls inside an exchange (short write, BlockingIOError, SSLWantWriteError, SSLWantReadError, BrokenPipe, reset, '
        'timeout, EOF) at each position, intercepted and tunnelled, max_sendbuf_size 16 so that a request needs several upstream writes; each row '
        'is followed by a relay script (client data, flushes, upstream data) so that "nothing is relayed" is observed, not assumed; '
        'a parser-failure stream inside the TLS session on every run: malformed origin status lines / header blocks (the bookkeeping response '
        'parser raises or not - recorded where it is called - and the chunk must be relayed untouched) and follow-up requests the request parser '
        'rejects, with output pending / pending with short writes / nothing pending / after a valid request in the same chunk; '
        'rows are crossed with CONNECT hosts (names, IPv4 and bracketed IPv6 literals): rotating in the quick tier, all hosts in the '
        'thorough tier. non-trivial = the CONNECT reached the interception decision with an upstream connection (flags, plugins '
        'and handshakes actually consulted); distinct = distinct case inputs')
TRUSTED = ['openssl / X.509 path validation / the TLS handshake are NOT modelled: their outcomes are oracle inputs (Section variables); '
           'the scripted stand-in used by the correspondence (sim_handshake, mirrored in this module) follows the documented semantics of '
           'ssl.SSLContext (verify_mode, check_hostname, cafile, server_hostname)',
           'every trust-store / cipher call made on the upstream ssl context after create_default_context is recorded and the effective trust '
           'store (cafile + later loads) decides the scripted verification; verify_flags / versions / options are compared with a fresh context',
           'CPython ssl.SSLSocket._create detaches the socket it is given before handshaking and closes the new one on failure '
           '(so a failed upstream wrap leaves fileno() == -1); read from Lib/ssl.py 3.12 and confirmed by the live run',
           'thorough tier: real openssl 3.0 + real proxy.py + real TLS origins on loopback as supporting evidence (oracle, not proof)']
ASSUMPTIONS = ['plugins other than do_intercept pass the CONNECT request through (before_upstream_connection / handle_client_request return it)',
               'connection pool and PROXY protocol off (defaults)',
               'the bytes inside an intercepted session are handled by on_client_data as in C02 (pipeline_step is a Section variable); a parser failure is '
               'either HttpProtocolException (PipeProtocol, sampled) or another exception (PipeRaise, modelled and proved about, not sampled: the '
               'script has no field for it)']
SHARD = 24

logging.disable(logging.CRITICAL)

PKT200 = b'HTTP/1.1 200 Connection established\r\n\r\n'
CERTS = '/certs'            # canonical name of ca_cert_dir in cases and Coq terms
PATHS = dict(ca_key_file='/x/ca.key', ca_cert_file='/x/ca.pem', ca_signing_key_file='/x/sign.key', ca_file='/x/trust.pem')
OTHER_STORE = '/x/other-store.pem'

HOSTS = [b'example.com', b'127.0.0.1', b'[::1]', b'EXAMPLE.org', b'a-b.c1.example', b'10.1.2.3', b'[2001:db8::1]',
         b'localhost', b'xn--bcher-kva.example']


# ======================================================================================= fakes
class DualSock(sim.FakeSock):
    """FakeSock that can be 'wrapped' in place: isinstance(x, ssl.SSLSocket) flips with .tls; a failed
    wrap marks it dead (detached: fileno() == -1), like CPython's SSLSocket._create does."""
    tls = False
    dead = False
    has_peer_cert = True

    @property
    def __class__(self):
        return ssl.SSLSocket if self.tls else socket.socket

    def _init_dual(self):
        self.out_plain = b''
        self.out_tls = b''
        self.sends = []

    def fileno(self):
        return -1 if (self.dead or self.closed) else self.fd

    def send(self, data):
        if self.dead:
            raise OSError(errno.EBADF, 'Bad file descriptor')
        before = len(self.out)
        try:
            return super().send(data)
        finally:
            new = self.out[before:]
            self.sends.append((bytes(data), len(new)))
            if self.tls:
                self.out_tls += new
            else:
                self.out_plain += new

    def recv(self, n):
        if self.dead:
            raise OSError(errno.EBADF, 'Bad file descriptor')
        return super().recv(n)

    def shutdown(self, how):
        if self.dead:
            raise OSError(errno.EBADF, 'Bad file descriptor')
        return super().shutdown(how)

    def getpeercert(self, binary_form=False):
        return b'DER' if self.has_peer_cert else None

    def unwrap(self):
        return self


def as_dual(s):
    s.__class__ = DualSock
    s._init_dual()
    return s


def mk_exc(kind):
    if kind is None:
        return None
    if kind == 'verify':
        e = ssl.SSLCertVerificationError(1, '[SSL: CERTIFICATE_VERIFY_FAILED] certificate verify failed'); e.reason = 'CERTIFICATE_VERIFY_FAILED'; return e
    if kind == 'eof':
        e = ssl.SSLEOFError(8, 'EOF occurred in violation of protocol'); e.reason = None; return e
    if kind == 'alert':
        e = ssl.SSLError(1, '[SSL: SSLV3_ALERT_HANDSHAKE_FAILURE]'); e.reason = 'SSLV3_ALERT_HANDSHAKE_FAILURE'; return e
    if kind == 'unknown_ca':
        e = ssl.SSLError(1, '[SSL: TLSV1_ALERT_UNKNOWN_CA]'); e.reason = 'TLSV1_ALERT_UNKNOWN_CA'; return e
    if kind == 'sslother':
        e = ssl.SSLError(1, '[SSL: WRONG_VERSION_NUMBER]'); e.reason = 'WRONG_VERSION_NUMBER'; return e
    if kind == 'pipe':
        return BrokenPipeError(errno.EPIPE, 'Broken pipe')
    if kind == 'reset':
        return ConnectionResetError(errno.ECONNRESET, 'Connection reset by peer')
    if kind == 'timeout':
        return TimeoutError(errno.ETIMEDOUT, 'timed out')
    if kind == 'oserror':
        return OSError(errno.EIO, 'I/O error')
    if kind == 'refused':
        return ConnectionRefusedError(errno.ECONNREFUSED, 'Connection refused')
    if kind == 'gaierror':
        return socket.gaierror(-2, 'Name or service not known')
    if kind == 'block':
        return BlockingIOError(errno.EAGAIN, 'Resource temporarily unavailable')
    if kind == 'wantread':
        e = ssl.SSLWantReadError(ssl.SSL_ERROR_WANT_READ, 'The operation did not complete (read)'); e.reason = None; return e
    if kind == 'wantwrite':
        e = ssl.SSLWantWriteError(ssl.SSL_ERROR_WANT_WRITE, 'The operation did not complete (write)'); e.reason = None; return e
    raise ValueError(kind)


SSL_REASON = {'alert': b'SSLV3_ALERT_HANDSHAKE_FAILURE', 'unknown_ca': b'TLSV1_ALERT_UNKNOWN_CA', 'sslother': b'WRONG_VERSION_NUMBER'}

def coq_exn(kind):
    """scripted exception kind -> Coq pyexn term"""
    return {'verify': 'SSLCertVerificationError', 'eof': 'SSLEOFError', 'pipe': 'BrokenPipeError', 'reset': 'ConnectionResetError',
            'timeout': 'TimeoutError', 'oserror': 'OSErrorOther', 'refused': 'OSErrorOther', 'gaierror': 'OSErrorOther',
            'timeoutexpired': 'TimeoutExpired', 'wantread': 'SSLWantReadError', 'wantwrite': 'SSLWantWriteError',
            'block': 'BlockingIOError_'}.get(kind) or '(SSLError %s)' % C.coq_bytes(SSL_REASON[kind])


def exn_code(e):
    """exception instance -> Tls/Intercept.v pyexn_code"""
    if isinstance(e, ssl.SSLWantReadError): return 14
    if isinstance(e, ssl.SSLWantWriteError): return 15
    if isinstance(e, BlockingIOError): return 16
    if isinstance(e, ssl.SSLCertVerificationError): return 1
    if isinstance(e, ssl.SSLEOFError): return 2
    if isinstance(e, ssl.SSLError): return 3
    if isinstance(e, BrokenPipeError): return 4
    if isinstance(e, ConnectionResetError): return 5
    if isinstance(e, TimeoutError): return 6
    if isinstance(e, OSError): return 7
    if isinstance(e, subprocess.TimeoutExpired): return 8
    if isinstance(e, AssertionError): return 9
    if isinstance(e, KeyError): return 10
    if isinstance(e, UnicodeDecodeError): return 11
    name = type(e).__name__
    if name == 'ProxyConnectionFailed': return 13
    if name in ('HttpProtocolException', 'HttpRequestRejected'): return 12
    return 90


def dec(b):
    """host bytes -> text for harness-side bookkeeping (the implementation does its own decoding)"""
    return b.decode('utf-8', 'replace')


def strip_brackets(h):
    return h[1:-1] if h.startswith('[') and h.endswith(']') else h


def is_ip(text):
    try:
        ipaddress.ip_address(text)
        return True
    except ValueError:
        return False


_WORK = {}

def workdir():
    if 'd' not in _WORK:
        _WORK['d'] = tempfile.mkdtemp(prefix='verif-C11-')
        atexit.register(shutil.rmtree, _WORK['d'], True)
    return _WORK['d']


_FLAGS = {}
CURRENT = {'answers': [], 'evals': 0}

def plugin_classes(n):
    from proxy.http.proxy import HttpProxyBasePlugin
    out = []
    for i in range(n):
        def do_intercept(self, request, _i=i):
            CURRENT['evals'] += 1
            return CURRENT['answers'][_i]
        out.append(type('C11Plugin%d' % i, (HttpProxyBasePlugin,), {'do_intercept': do_intercept}))
    return out


def get_flags(n_plugins):
    if n_plugins not in _FLAGS:
        d = os.path.join(workdir(), 'init')
        _FLAGS[n_plugins] = sim.make_flags(plugins=plugin_classes(n_plugins), ca_cert_dir=d)
    return _FLAGS[n_plugins]


def canon_path(p, certdir):
    p = p if isinstance(p, str) else p.decode()
    return CERTS + p[len(certdir):] if p.startswith(certdir) else p


class World:
    """the scripted environment of one case + the log of what the implementation did"""
    def __init__(self, case, certdir):
        self.case = case
        self.certdir = certdir
        self.trace = []          # effects in model vocabulary
        self.default_config = None

    # ---- ssl
    def create_default_context(self, purpose=ssl.Purpose.SERVER_AUTH, cafile=None, capath=None, cadata=None):
        ctx = ssl.SSLContext(ssl.PROTOCOL_TLS_CLIENT)       # same defaults as create_default_context(SERVER_AUTH)
        ctx._c11_cafile = cafile
        return ctx

    def load_cert_chain(self, ctx, certfile, keyfile=None, password=None):
        ctx._c11_chain = (keyfile, certfile)

    # every further trust-store / cipher call on a context is recorded, not performed
    def ctx_call(self, name):
        def f(ctx, *a, **kw):
            arg = None
            if name == 'load_verify_locations':
                arg = kw.get('cafile', a[0] if a else None) or kw.get('capath', a[1] if len(a) > 1 else None) or '<cadata>'
            elif name == 'set_ciphers':
                arg = a[0] if a else kw.get('ciphers')
            entry = name if arg is None else '%s:%s' % (name, arg)
            ctx._c11_extra = getattr(ctx, '_c11_extra', []) + [entry]
        return f

    @staticmethod
    def settings_default(ctx):
        from proxy.common.constants import DEFAULT_SSL_CONTEXT_OPTIONS
        ref = World._ref if getattr(World, '_ref', None) is not None else ssl.SSLContext(ssl.PROTOCOL_TLS_CLIENT)
        World._ref = ref
        diffs = []
        if ctx.verify_flags != ref.verify_flags: diffs.append('verify_flags=%r' % ctx.verify_flags)
        if ctx.minimum_version != ref.minimum_version: diffs.append('minimum_version=%r' % ctx.minimum_version)
        if ctx.maximum_version != ref.maximum_version: diffs.append('maximum_version=%r' % ctx.maximum_version)
        if getattr(ctx, 'hostname_checks_common_name', None) != getattr(ref, 'hostname_checks_common_name', None):
            diffs.append('hostname_checks_common_name')
        if ctx.options != (ref.options | DEFAULT_SSL_CONTEXT_OPTIONS): diffs.append('options=%r' % ctx.options)
        return diffs

    def wrap_socket(self, ctx, sock, server_side=False, do_handshake_on_connect=True, suppress_ragged_eofs=True,
                    server_hostname=None, session=None):
        c = self.case
        if server_side:
            keyfile, certfile = getattr(ctx, '_c11_chain', (None, None))
            self.trace.append(('client_wrap', keyfile, canon_path(certfile, self.certdir)))
            e = mk_exc(c['client_hs'])
            if e is not None:
                sock.dead = True
                raise e
            sock.tls = True
            return sock
        vm = {ssl.CERT_NONE: 'CERT_NONE', ssl.CERT_OPTIONAL: 'CERT_OPTIONAL', ssl.CERT_REQUIRED: 'CERT_REQUIRED'}[ctx.verify_mode]
        cafile = getattr(ctx, '_c11_cafile', None)
        cafile = None if cafile is None else str(cafile)
        extras = list(getattr(ctx, '_c11_extra', []))
        diffs = self.settings_default(ctx)
        self.trace.append(('upstream_wrap', cafile, bool(ctx.check_hostname), vm, server_hostname, extras, not diffs, diffs))
        if ctx.check_hostname and server_hostname is None:
            sock.dead = True
            raise ValueError('check_hostname requires server_hostname')
        e = mk_exc(c['transport'])
        if e is None and vm != 'CERT_NONE':
            # effective trust store = cafile + whatever was loaded into the context afterwards
            if c['chain'][0] == 'trusted_by':
                chain_ok = cafile == c['chain'][1] or ('load_verify_locations:' + c['chain'][1]) in extras
            elif c['chain'][0] == 'platform':
                chain_ok = 'load_default_certs' in extras or 'set_default_verify_paths' in extras
            else:
                chain_ok = False
            name_ok = server_hostname is not None and server_hostname.encode() in c['names']
            if not chain_ok or (ctx.check_hostname and not name_ok):
                e = mk_exc('verify')
        if e is not None:
            sock.dead = True
            raise e
        sock.tls = True
        sock.has_peer_cert = c['peer'] is not None
        return sock

    def cert_der_to_dict(self, der):
        if not der:
            return {}
        # like ssl's decoded certificate: the subject AND the names the origin's certificate is valid for (round-3 seed
        # C11-r3-2 copied these into the generated certificate instead of naming the CONNECT host)
        def is_ip(n):
            import ipaddress
            try:
                ipaddress.ip_address(n); return True
            except ValueError:
                return False
        san = tuple(('IP Address' if is_ip(n.decode('latin-1')) else 'DNS', n.decode('latin-1')) for n in self.case.get('names', []))
        d = {'subject': tuple(tuple((a.decode(), v.decode()) for a, v in rdn) for rdn in self.case['peer'])}
        if san:
            d['subjectAltName'] = san
        return d

    # ---- openssl
    def run_openssl_command(self, command, timeout):
        cmd = list(command)
        def arg(flag):
            return cmd[cmd.index(flag) + 1] if flag in cmd else None
        cp = lambda p: canon_path(p, self.certdir)
        tmpfile = None
        if cmd[1] == 'req':
            kind = 0
            tmpfile = arg('-config')
            cfg = open(tmpfile, 'rb').read()
            from proxy.common import pki
            if not cfg.startswith(pki.DEFAULT_CONFIG):
                tail = b'<config does not start with DEFAULT_CONFIG>' + cfg
            else:
                tail = cfg[len(pki.DEFAULT_CONFIG):]
            has_ext = '-extensions' in cmd
            self.trace.append(('openssl_req', arg('-subj'), cp(arg('-key')), cp(arg('-out')), int(arg('-days')), tail, has_ext))
        elif cmd[1] == 'x509' and '-x509toreq' in cmd:
            kind = 1
            self.trace.append(('openssl_x509toreq', cp(arg('-in')), cp(arg('-signkey')), cp(arg('-out'))))
        elif cmd[1] == 'x509' and '-req' in cmd:
            kind = 2
            tmpfile = arg('-extfile')
            ext = open(tmpfile, 'rb').read()
            self.trace.append(('openssl_sign', cp(arg('-CA')), cp(arg('-CAkey')), cp(arg('-in')), cp(arg('-out')), int(arg('-days')), ext))
        else:
            raise AssertionError('unexpected openssl command %r' % (cmd,))
        outcome = self.case['openssl'][kind]
        if outcome == 'ok':
            open(arg('-out'), 'wb').close()
            return True
        if outcome == 'fail':
            return False
        # the generator-based context managers of pki.py do not remove their temp file when the body raises
        if tmpfile and os.path.exists(tmpfile):
            os.remove(tmpfile)
        if outcome == 'timeoutexpired':
            raise subprocess.TimeoutExpired(cmd, timeout)
        raise mk_exc(outcome)


def request_bytes(host, port, i):
    return b'GET /r%d HTTP/1.1\r\nHost: %s:%d\r\n\r\n' % (i, host, port)

def response_bytes(i):
    body = b'b%d' % i + bytes([65 + i % 26]) * i
    return b'HTTP/1.1 200 OK\r\nContent-Length: %d\r\n\r\n' % len(body) + body


# ======================================================================================= running the implementation
def run_impl(case):
    from proxy.http.connection import HttpClientConnection  # noqa: F401  (import check)
    n_plug = len(case['answers'])
    flags = get_flags(n_plug)
    certdir = os.path.join(workdir(), 'c%d' % os.getpid())
    shutil.rmtree(certdir, ignore_errors=True)
    os.makedirs(certdir)
    host, port = case['host'], case['port']
    hs = dec(host)
    for i, ext in enumerate(('pub', 'csr', 'pem')):
        if case['cache'][i]:
            open(os.path.join(certdir, '%s.%s' % (hs, ext)), 'wb').close()
    fp = case['flags']
    flags.ca_key_file = PATHS['ca_key_file'] if fp['ca_key_file'] else None
    flags.ca_cert_file = PATHS['ca_cert_file'] if fp['ca_cert_file'] else None
    flags.ca_signing_key_file = PATHS['ca_signing_key_file'] if fp['ca_signing_key_file'] else None
    flags.ca_cert_dir = certdir if fp['ca_cert_dir'] else None
    from proxy.common.constants import DEFAULT_CA_FILE
    flags.ca_file = PATHS['ca_file'] if fp['ca_file'] else str(DEFAULT_CA_FILE)
    flags.insecure_tls_interception = bool(case['insecure'])
    flags.max_sendbuf_size = case.get('max_send', 65536)
    w = World(case, certdir)
    CURRENT['answers'] = list(case['answers']); CURRENT['evals'] = 0
    cs = [mk_exc(case['connect'])] if case['connect'] else []
    patches = [
        mock.patch('ssl.create_default_context', w.create_default_context),
        mock.patch.object(ssl.SSLContext, 'wrap_socket', lambda ctx, sock, **kw: w.wrap_socket(ctx, sock, **kw)),
        mock.patch.object(ssl.SSLContext, 'load_cert_chain', lambda ctx, certfile, keyfile=None, password=None: w.load_cert_chain(ctx, certfile, keyfile, password)),
        mock.patch.object(ssl.SSLContext, 'load_default_certs', w.ctx_call('load_default_certs')),
        mock.patch.object(ssl.SSLContext, 'load_verify_locations', w.ctx_call('load_verify_locations')),
        mock.patch.object(ssl.SSLContext, 'set_default_verify_paths', w.ctx_call('set_default_verify_paths')),
        mock.patch.object(ssl.SSLContext, 'set_ciphers', w.ctx_call('set_ciphers')),
        mock.patch('proxy.common.pki.run_openssl_command', w.run_openssl_command),
        mock.patch('proxy.http.proxy.server.cert_der_to_dict', w.cert_der_to_dict),
    ]
    # the HTTP parsers at work inside the intercepted session are oracles of the model (pipeline_step /
    # response_step): whether they raise on a chunk is recorded where they are called, not deduced from what
    # the handler did afterwards
    from proxy.http.parser import HttpParser, httpParserTypes
    from proxy.http.exception import HttpProtocolException
    parser_raises = []
    real_parse = HttpParser.parse
    def logged_parse(self_, raw, *a, **kw):
        try:
            return real_parse(self_, raw, *a, **kw)
        except Exception as e:
            parser_raises.append(('request' if self_.type == httpParserTypes.REQUEST_PARSER else 'response',
                                  isinstance(e, HttpProtocolException), repr(e)[:120]))
            raise
    patches.append(mock.patch.object(HttpParser, 'parse', logged_parse))
    for p in patches:
        p.start()
    out = {}
    try:
        with sim.Sim(flags=flags, connect_script=cs) as s:
            as_dual(s.client)
            s.on_connect = as_dual
            # client.queue during the CONNECT step is part of the compared trace
            real_queue = s.h.work.queue
            def logged_queue(mv):
                w.trace.append(('client_queue', bytes(mv)))
                return real_queue(mv)
            s.h.work.queue = logged_queue
            fl = case['flush']
            if fl == 'all':
                pass
            elif isinstance(fl, int):
                s.client.script_send(fl)
            else:
                s.client.script_send(mk_exc(fl))
            s.client.feed(b'CONNECT %s:%d HTTP/1.1\r\nHost: %s:%d\r\n\r\n' % (host, port, host, port))
            n_sends = len(s.client.sends)
            r = s.step(r=['client'], w=['client'])
            s.h.work.queue = real_queue
            s.client.send_script[:] = []
            # sends on the client socket during the CONNECT step = the flush inside client.wrap
            flushes = [('client_flush', d) for d, _ in s.client.sends[n_sends:]]
            out['connect_log'] = [(h, p) for h, p in s.connect_log]
            # build the effect trace in call order: connect, queue..., wraps/openssl (in order), with client_flush before client_wrap
            tr = [('connect', h.encode(), p) for h, p in s.connect_log]
            for t in w.trace:
                if t[0] == 'client_wrap':
                    tr.extend(flushes); flushes = []
                tr.append(t)
            tr.extend(flushes)
            out['trace'] = tr
            out['step1'] = snapshot(s, r, certdir)
            pipeline = []
            pipeline_raises, response_raises, parser_other = [], [], []
            raised = None
            for ev in case['events']:
                if s.torn:
                    break
                k = ev[0]
                del parser_raises[:]
                if k in ('c', 'u'):
                    CURRENT['answers'] = list(ev[1]) + [True] * (n_plug - len(ev[1]))
                if k == 'c':
                    up = upstream_of(s)
                    nb = len(up.buffer) if up is not None else 0
                    s.client.feed(ev[2])
                    r = s.step(r=['client'], w=[])
                    if s.client.inq and s.client.inq[0] == ev[2]:
                        s.client.inq.pop(0)          # not read (client no longer of interest): the bytes stay in the kernel
                    elif up is not None:
                        pipeline.append((ev[2], [bytes(b) for b in up.buffer[nb:]]))
                elif k == 'u':
                    if s.upstreams:
                        u = s.upstreams[0]
                        u.feed(ev[2])
                        r = s.step(r=[u.name], w=[])
                        if u.inq and u.inq[0] == ev[2]:
                            u.inq.pop(0)
                elif k in ('cw', 'uw'):
                    # one write-ready event with a scripted outcome of the send()
                    sock = s.client if k == 'cw' else (s.upstreams[0] if s.upstreams else None)
                    if sock is not None and sock.fileno() >= 0:
                        sock.send_script[:] = [ev[1] if isinstance(ev[1], int) else mk_exc(ev[1])]
                        r = s.step(r=[], w=[sock.name])
                        sock.send_script[:] = []
                elif k in ('cr', 'ur', 'ueof'):
                    sock = s.client if k == 'cr' else (s.upstreams[0] if s.upstreams else None)
                    if sock is not None and sock.fileno() >= 0:
                        item = sim.EOF if k == 'ueof' else mk_exc(ev[1])
                        sock.inq.insert(0, item)
                        r = s.step(r=[sock.name], w=[])
                        if sock.inq and sock.inq[0] is item:
                            sock.inq.pop(0)            # descriptor no longer of interest: nothing was read
                elif k == 'fc':
                    for _ in range(12):
                        if s.torn or not s.h.work.has_buffer() or s.client.dead:
                            break
                        r = s.step(r=[], w=['client'])
                elif k == 'fu':
                    up = upstream_of(s)
                    for _ in range(12):
                        if s.torn or up is None or not up.has_buffer() or not s.upstreams or s.upstreams[0].fileno() < 0:
                            break
                        r = s.step(r=[], w=[s.upstreams[0].name])
                if isinstance(r, tuple):
                    raised = r[1]
                for which, is_proto, what in parser_raises:
                    if k == 'c' and which == 'request' and is_proto:
                        pipeline_raises.append(ev[2])
                    elif k == 'u' and which == 'response':
                        response_raises.append(ev[2])
                    else:
                        parser_other.append((k, which, what))      # no oracle value for it: the model will disagree
            out['final'] = snapshot(s, r, certdir)
            out['pipeline'] = pipeline
            out['pipeline_raises'] = pipeline_raises
            out['response_raises'] = response_raises
            out['parser_other'] = parser_other
            out['do_intercept_calls'] = CURRENT['evals']
    finally:
        for p in patches:
            p.stop()
        shutil.rmtree(certdir, ignore_errors=True)
    return out


def upstream_of(s):
    p = getattr(s.h, 'plugin', None)
    return getattr(p, 'upstream', None) if p is not None else None


def snapshot(s, r, certdir):
    h = s.h
    up = upstream_of(s)
    if s.torn:
        mode = 3
    elif getattr(h, 'writes_teared', False):
        mode = 4
    elif getattr(h, 'reads_teared', False):
        mode = 2
    elif h.must_flush_before_shutdown:
        mode = 1
    else:
        mode = 0
    esc = exn_code(r[1]) if isinstance(r, tuple) else None
    c = s.client
    cl = 2 if c.dead else (1 if c.tls else 0)
    if up is None or up._conn is None:
        upc = 0
    else:
        u = s.upstreams[0]
        upc = 3 if u.dead else (2 if u.tls else 1)
    u0 = s.upstreams[0] if s.upstreams else None
    files = sorted(os.path.join(CERTS, f).encode() for f in os.listdir(certdir)) if os.path.isdir(certdir) else []
    return dict(mode=mode, escaped=esc, escaped_repr=repr(r[1])[:200] if isinstance(r, tuple) else None, cl=cl, up=upc,
                cl_buf=[bytes(b) for b in h.work.buffer], up_buf=[bytes(b) for b in up.buffer] if up is not None else [],
                cl_plain=c.out_plain, cl_tls=c.out_tls,
                up_plain=u0.out_plain if u0 else b'', up_tls=u0.out_tls if u0 else b'',
                files=files)


# ======================================================================================= Coq terms
_ABBREV = None     # per-term table of byte strings bound once with `let`

def B(x):
    x = bytes(x)
    if x == PKT200:
        return 'K200'
    if _ABBREV is not None and len(x) >= 6:
        return _ABBREV.setdefault(x, 'b%d' % len(_ABBREV))
    return C.coq_bytes(x)

def coq_obytes(x):
    return 'None' if x is None else '(Some %s)' % B(x if isinstance(x, bytes) else str(x).encode())

def coq_effect(t):
    k = t[0]
    if k == 'connect':
        return 'EConnect %s %d' % (B(t[1]), t[2])
    if k == 'client_queue':
        return 'EClientQueue %s' % B(t[1])
    if k == 'upstream_wrap':
        return 'EUpstreamWrap (mkWrapCall %s %s %s %s %s %s)' % (coq_obytes(t[1]), C.coq_bool(t[2]), t[3], coq_obytes(t[4]),
                                                                 C.coq_list(B(x.encode()) for x in t[5]), C.coq_bool(t[6]))
    if k == 'openssl_req':
        return 'EOpenssl (CmdReqX509 %s %s %s %d %s %s)' % (B(t[1].encode()), B(t[2].encode()), B(t[3].encode()), t[4], B(t[5]), C.coq_bool(t[6]))
    if k == 'openssl_x509toreq':
        return 'EOpenssl (CmdX509ToReq %s %s %s)' % (B(t[1].encode()), B(t[2].encode()), B(t[3].encode()))
    if k == 'openssl_sign':
        return 'EOpenssl (CmdSign %s %s %s %s %d %s)' % (B(t[1].encode()), B(t[2].encode()), B(t[3].encode()), B(t[4].encode()), t[5], B(t[6]))
    if k == 'client_flush':
        return 'EClientFlush %s' % B(t[1])
    if k == 'client_wrap':
        return 'EClientWrap %s %s' % (B((t[1] or '<None>').encode()), B((t[2] or '<None>').encode()))
    raise ValueError(k)


def coq_run_result(o):
    return {'ok': 'RTrue', 'fail': 'RFalse'}.get(o) or '(RRaise %s)' % coq_exn(o)


def coq_flags(case, bad_gateway):
    fp = case['flags']
    from proxy.common.constants import DEFAULT_CA_FILE
    def opt(name, val):
        return coq_obytes(val.encode()) if fp[name] else 'None'
    ca_file = PATHS['ca_file'] if fp['ca_file'] else str(DEFAULT_CA_FILE)
    return '(mkFlags %s %s %s %s %s %s %s %d)' % (
        opt('ca_key_file', PATHS['ca_key_file']), opt('ca_cert_dir', CERTS), opt('ca_signing_key_file', PATHS['ca_signing_key_file']),
        opt('ca_cert_file', PATHS['ca_cert_file']), coq_obytes(ca_file.encode()), C.coq_bool(case['insecure']), B(bad_gateway),
        case.get('max_send', 65536))


def coq_subject(peer):
    if peer is None:
        return 'None'
    return '(Some %s)' % C.coq_list('(%s, %s)' % (B(rdn[0][0]), B(rdn[0][1])) for rdn in peer)


def coq_script(case, out):
    host = case['host']
    stripped = strip_brackets(dec(host))
    ips = [stripped.encode()] if is_ip(stripped) else []      # independent oracle for ipaddress.ip_address
    ch = case['chain']
    chain = '(ChainTrustedBy %s)' % B(ch[1].encode()) if ch[0] == 'trusted_by' else \
        {'untrusted': 'ChainUntrusted', 'expired': 'ChainExpired', 'platform': 'ChainPlatform'}[ch[0]]
    fl = case['flush']
    if fl == 'all':
        flush = '(FlushSent %d)' % len(PKT200)
    elif isinstance(fl, int):
        flush = '(FlushSent %d)' % min(fl, len(PKT200))
    elif fl == 'block':
        flush = 'FlushBlocking'
    else:
        flush = '(FlushRaise %s)' % coq_exn(fl)
    pipeline = C.coq_list('(%s, %s)' % (B(raw), C.coq_list(B(o) for o in outs)) for raw, outs in out.get('pipeline', []))
    return '(mkScript %s %s %s %s %s %s %s %s %s %s %s %s %s %s)' % (
        C.coq_list(B(x) for x in ips),
        'None' if not case['connect'] else '(Some %s)' % coq_exn(case['connect']),
        chain, C.coq_list(B(n) for n in case['names']),
        'None' if not case['transport'] else '(Some %s)' % coq_exn(case['transport']),
        coq_subject(case['peer']),
        coq_run_result(case['openssl'][0]), coq_run_result(case['openssl'][1]), coq_run_result(case['openssl'][2]),
        flush,
        'None' if not case['client_hs'] else '(Some %s)' % coq_exn(case['client_hs']),
        pipeline,
        C.coq_list(B(x) for x in out.get('pipeline_raises', [])),
        C.coq_list(B(x) for x in out.get('response_raises', [])))


def coq_event(ev, n_plug):
    if ev[0] in ('c', 'u'):
        answers = list(ev[1]) + [True] * (n_plug - len(ev[1]))
        return '%s %s %s' % ('ClientData' if ev[0] == 'c' else 'UpstreamData', C.coq_list(C.coq_bool(a) for a in answers), B(ev[2]))
    if ev[0] in ('cw', 'uw'):
        o = ev[1]
        out = '(SendOk %d)' % o if isinstance(o, int) else '(SendRaise %s)' % coq_exn(o)
        return '%s %s' % ('ClientWrite' if ev[0] == 'cw' else 'UpstreamWrite', out)
    if ev[0] in ('cr', 'ur'):
        return '%s %s' % ('ClientRecvRaise' if ev[0] == 'cr' else 'UpstreamRecvRaise', coq_exn(ev[1]))
    if ev[0] == 'ueof':
        return 'UpstreamEOF'
    return 'FlushClient' if ev[0] == 'fc' else 'FlushUpstream'


def coq_obs(snap):
    return '(mkObs %d %s %d %d %s %s %s %s %s %s %s)' % (
        snap['mode'], C.coq_option(C.coq_N, snap['escaped']), snap['cl'], snap['up'],
        C.coq_list(B(b) for b in snap['cl_buf']), C.coq_list(B(b) for b in snap['up_buf']),
        B(snap['cl_plain']), B(snap['cl_tls']), B(snap['up_plain']), B(snap['up_tls']),
        C.coq_list(B(f) for f in snap['files']))


def bad_gateway_pkt():
    from proxy.http.responses import BAD_GATEWAY_RESPONSE_PKT
    return bytes(BAD_GATEWAY_RESPONSE_PKT)


def cache_files(case):
    hs = case['host']
    return [CERTS.encode() + b'/' + hs + b'.' + ext for i, ext in enumerate((b'pub', b'csr', b'pem')) if case['cache'][i]]


def coq_term(case, out):
    global _ABBREV
    _ABBREV = {}
    try:
        n_plug = len(case['answers'])
        body = 'CRun %s %s %s %d %s %s %s %s %s %s' % (
            coq_script(case, out), coq_flags(case, bad_gateway_pkt()), B(case['host']), case['port'],
            C.coq_list(C.coq_bool(a) for a in case['answers']), C.coq_list(B(f) for f in cache_files(case)),
            C.coq_list(coq_event(e, n_plug) for e in case['events']),
            C.coq_list(coq_effect(t) for t in out['trace']), coq_obs(out['step1']), coq_obs(out['final']))
        lets = ''.join('let %s : bytes := %s in ' % (name, C.coq_bytes(val)) for val, name in _ABBREV.items())
        return '(%s%s)' % (lets, body)
    finally:
        _ABBREV = None


def model_expr(case):
    out = run_impl(case)
    return 'model_obs (%s)' % coq_term(case, out)


# ======================================================================================= the property on the implementation
def engaged(case):
    """interception is attempted for this CONNECT: all four CA flags present and no plugin opts out"""
    return all(case['flags'][k] for k in ('ca_key_file', 'ca_cert_dir', 'ca_signing_key_file', 'ca_cert_file')) and all(case['answers'])


def benign_event(ev):
    """data, flushes, short writes and every would-block answer (mirror of `benign` in Tls/Intercept.v)"""
    k = ev[0]
    if k in ('c', 'u', 'fc', 'fu'):
        return True
    if k in ('cw', 'uw'):
        return isinstance(ev[1], int) or ev[1] in ('block', 'wantwrite')
    if k in ('cr', 'ur'):
        return ev[1] == 'wantread'
    return False


def drained(events):
    """the script ends with both flushes and nothing is queued after them"""
    tail = [e[0] for e in events[-2:]]
    return sorted(tail) == ['fc', 'fu']


def parse_requests(data):
    """[(method, target, host, body)] of a byte stream of complete requests (h11 as independent parser)"""
    import h11
    out = []
    while data:
        c = h11.Connection(h11.SERVER)
        c.receive_data(data)
        ev = c.next_event()
        if not isinstance(ev, h11.Request):
            return None
        body = b''
        while True:
            e2 = c.next_event()
            if isinstance(e2, h11.Data):
                body += bytes(e2.data)
            elif isinstance(e2, h11.EndOfMessage):
                break
            else:
                return None
        out.append((ev.method, ev.target, dict(ev.headers).get(b'host'), body))
        data = c.trailing_data[0]
    return out


def upstream_cert_good(case):
    """the origin's certificate verifies against the configured trust store and names the CONNECT host"""
    from proxy.common.constants import DEFAULT_CA_FILE
    ca_file = PATHS['ca_file'] if case['flags']['ca_file'] else str(DEFAULT_CA_FILE)
    chain_ok = case['chain'][0] == 'trusted_by' and case['chain'][1] == ca_file
    name_ok = strip_brackets(dec(case['host'])).encode() in case['names']
    return chain_ok and name_ok


def expected_san(host):
    s = strip_brackets(dec(host))
    return (b'IP:' + s.encode()) if is_ip(s) else (b'DNS:' + host)


def semantically_same_request(a, b):
    """request line and Host of the forwarded request are the client's (h11 as independent parser)"""
    import h11
    def parse(x):
        c = h11.Connection(h11.SERVER)
        c.receive_data(x)
        ev = c.next_event()
        if not isinstance(ev, h11.Request):
            return None
        return (ev.method, ev.target, dict(ev.headers).get(b'host'))
    try:
        return parse(a) is not None and parse(a) == parse(b)
    except Exception:
        return False


def oracle(case, out):
    fin, st1, tr = out['final'], out['step1'], out['trace']
    wraps = [t for t in tr if t[0] == 'upstream_wrap']
    cwraps = [t for t in tr if t[0] == 'client_wrap']
    ossl = [t for t in tr if t[0].startswith('openssl_')]
    host = case['host']
    c_chunks = [e[2] for e in case['events'] if e[0] == 'c']
    u_chunks = [e[2] for e in case['events'] if e[0] == 'u']
    later_on = [all(list(e[1]) + [True] * (len(case['answers']) - len(e[1]))) for e in case['events'] if e[0] in ('c', 'u')]
    flags_on = all(case['flags'][k] for k in ('ca_key_file', 'ca_cert_dir', 'ca_signing_key_file', 'ca_cert_file'))
    # ---- verification policy, whenever an upstream handshake is attempted
    if len(wraps) > 1:
        return 'more than one upstream TLS handshake for one CONNECT'
    for _, cafile, check_hostname, vm, sni, extras, settings_ok, diffs in wraps:
        if (vm == 'CERT_NONE') != bool(case['insecure']):
            return 'verify_mode is %s although --insecure-tls-interception is %s' % (vm, 'on' if case['insecure'] else 'off')
        if not case['insecure']:
            if vm != 'CERT_REQUIRED':
                return 'verify_mode is %s, not CERT_REQUIRED, with verification enabled' % vm
            if not check_hostname:
                return 'check_hostname is off with verification enabled'
            from proxy.common.constants import DEFAULT_CA_FILE
            want_ca = PATHS['ca_file'] if case['flags']['ca_file'] else str(DEFAULT_CA_FILE)
            if cafile != want_ca:
                return 'upstream verified against %r instead of the configured trust store %r' % (cafile, want_ca)
            if extras:
                return 'trust store widened beyond --ca-file: further calls on the ssl context: %r' % (extras,)
            if not settings_ok:
                return 'verification settings of the ssl context changed: %r' % (diffs,)
        if sni != strip_brackets(dec(host)):
            return 'server_hostname %r is not the CONNECT host %r (IPv6 literals without their brackets)' % (sni, host)
    if not engaged(case) and (wraps or cwraps or ossl):
        return 'TLS wrap / certificate generation although interception is off or a plugin opted out'
    try:
        case['host'].decode('utf-8')
        addressable = bool(case['host']) and case['port'] != 0
    except UnicodeDecodeError:
        addressable = False          # the request names no origin that could be connected
    if case['connect'] or not addressable:
        if fin['up_plain'] or fin['up_tls'] or wraps or cwraps:
            return 'activity towards an origin that could not be connected'
        return None
    # ---- never trust a bad upstream
    if engaged(case) and not case['insecure'] and not upstream_cert_good(case):
        if fin['up_plain'] or fin['up_tls'] or fin['up_buf']:
            return 'client data forwarded to an origin whose certificate failed verification'
        if fin['cl_tls'] or fin['cl_plain'] not in (b'', PKT200) or [b for b in fin['cl_buf'] if b != PKT200]:
            return 'bytes other than the proxy\'s own CONNECT reply reached the client although the origin failed verification'
        if cwraps or ossl:
            return 'a certificate was generated / presented for an origin that failed verification'
        if fin['mode'] != 3 and 'fc' in [e[0] for e in case['events']]:
            return 'connection not torn down after the origin failed verification'
        return None
    # ---- opt-out / interception off: opaque tunnel
    if not engaged(case):
        if flags_on and any(later_on):
            return None        # plugin answers flip between calls: outside the property (documented), correspondence only
        if fin['cl'] != 0 or fin['up'] != 1:
            return 'tunnel endpoints are not the plain sockets'
        sent_up = fin['up_plain'] + b''.join(fin['up_buf'])
        got_cl = fin['cl_plain'] + b''.join(fin['cl_buf'])
        if fin['up_tls'] or fin['cl_tls']:
            return 'tunnelled bytes were sent inside a TLS session of the proxy'
        if not all(benign_event(e) for e in case['events']):
            return None        # a peer reset / closed: only the safety half applies
        if fin['mode'] != 0:
            return 'opaque tunnel torn down although no peer failed (only short writes / would-block answers occurred)'
        if drained(case['events']) and (fin['up_buf'] or fin['cl_buf']):
            return 'tunnel bytes still queued after both sockets accepted everything'
        if sent_up != b''.join(c_chunks):
            return 'opaque tunnel modified the client->origin byte stream'
        if got_cl != PKT200 + b''.join(u_chunks):
            return 'opaque tunnel modified the origin->client byte stream'
        return None
    # ---- interception engaged and the upstream is acceptable (good, or verification disabled by the operator)
    for t in ossl:
        san = expected_san(host)
        if t[0] == 'openssl_req':
            if t[5] != b'\n[PROXY]\nsubjectAltName=' + san or not t[6]:
                return 'self-signed leaf template does not carry subjectAltName=%s: %r' % (san.decode(), t[5])
            if t[3] != '%s/%s.pub' % (CERTS, dec(host)):
                return 'public key cache file is not named after the CONNECT host'
        if t[0] == 'openssl_sign':
            if t[6] != b'\nsubjectAltName=' + san:
                return 'generated certificate does not carry subjectAltName=%s: %r' % (san.decode(), t[6])
            if t[4] != '%s/%s.pem' % (CERTS, dec(host)):
                return 'certificate cache file is not named after the CONNECT host'
            if (t[1], t[2]) != (PATHS['ca_cert_file'], PATHS['ca_key_file']):
                return 'leaf not signed with the configured CA'
    if case['cache'][2] and ossl:
        return 'cached certificate not reused'
    for _, keyfile, certfile in cwraps:
        if certfile != '%s/%s.pem' % (CERTS, dec(host)) or keyfile != PATHS['ca_signing_key_file']:
            return 'client handshake uses %r / %r, not the certificate generated for the CONNECT host' % (certfile, keyfile)
    if cwraps and not case['cache'][2] and not [t for t in ossl if t[0] == 'openssl_sign']:
        return 'client handshake with a certificate file that was neither cached nor generated'
    upgraded = st1['cl'] == 1 and st1['up'] == 2 and st1['mode'] == 0
    if upgraded:
        if not fin['cl_plain'].startswith(PKT200[:len(fin['cl_plain'])]) or fin['up_plain']:
            return 'plaintext other than the CONNECT reply left the proxy on an intercepted connection'
        if out.get('pipeline_raises') and all(later_on):
            # a follow-up request the parser rejects (HttpProtocolException) ends the session - but only after what the
            # origin had already sent has reached the client, inside TLS; nothing of the rejected bytes reaches the origin
            g = min(i for i, e in enumerate(case['events']) if e[0] == 'c' and e[2] in out['pipeline_raises'])
            before_u = b''.join(e[2] for e in case['events'][:g] if e[0] == 'u')
            after_u = b''.join(e[2] for e in case['events'][g:] if e[0] == 'u')
            leftover = PKT200[len(fin['cl_plain']):]
            got_cl = fin['cl_tls'] + b''.join(fin['cl_buf'])
            if fin['mode'] == 0:
                return 'intercepted session goes on after a malformed follow-up request'
            if fin['escaped'] is not None:
                return 'HttpProtocolException of the follow-up request parser escaped handle_events'
            if all(benign_event(e) for e in case['events']):
                if not got_cl.startswith(leftover + before_u) or not (leftover + before_u + after_u).startswith(got_cl):
                    return 'origin response received before the malformed request did not reach the client intact inside TLS'
                if 'fc' in [e[0] for e in case['events'][g:]] and (fin['mode'] != 3 or fin['cl_buf']):
                    return 'pending output not delivered / connection not closed after the malformed request'
            got = fin['up_tls'] + b''.join(fin['up_buf'])
            if got != b''.join(b''.join(o) for _, o in out['pipeline']):
                return 'bytes queued for the origin are not what on_client_data produced'
            try:
                ok = parse_requests(got) is not None
            except Exception:
                ok = False
            if not ok:
                return 'bytes of a rejected follow-up request reached the origin'
            return None
        if all(later_on) and all(benign_event(e) for e in case['events']):
            if fin['mode'] != 0:
                return 'intercepted exchange torn down although no peer failed (only short writes / would-block answers occurred)'
            if drained(case['events']) and (fin['up_buf'] or fin['cl_buf']):
                return 'bytes still queued after both sockets accepted everything'

            # response returns intact; requests arrive with their meaning (C02) over the upstream TLS session
            leftover = PKT200[len(fin['cl_plain']):]
            if fin['cl_tls'] + b''.join(fin['cl_buf']) != leftover + b''.join(u_chunks):
                return 'origin response did not reach the client intact inside TLS'
            got = fin['up_tls'] + b''.join(fin['up_buf'])
            pieces = [b''.join(o) for _, o in out['pipeline']]
            if got != b''.join(pieces):
                return 'bytes queued for the origin are not what on_client_data produced'
            # every client request must arrive (method, target, Host, body) exactly once, in order
            try:
                reqs_in, reqs_out = parse_requests(b''.join(c_chunks)), parse_requests(got)
            except Exception:
                reqs_in, reqs_out = None, False
            if reqs_in is None or reqs_in != reqs_out:
                return 'requests sent inside TLS did not reach the origin with their meaning'
    else:
        # interception failed on the proxy's side (certificate generation / client handshake): must not fall back to relaying
        if fin['up_plain'] or fin['up_tls']:
            return 'client data forwarded although interception was not established'
        if fin['cl_tls']:
            return 'data sent to the client inside TLS although interception was not established'
    return None


def nontrivial(case, out):
    return not case['connect'] and engaged(case) and bool([t for t in out['trace'] if t[0] == 'upstream_wrap'])   # reached the upstream handshake


def classify(case, out, failure):
    return None


# ======================================================================================= generation
ALL_FLAGS = dict(ca_key_file=True, ca_cert_dir=True, ca_signing_key_file=True, ca_cert_file=True, ca_file=True)
PEERS = [
    None,
    [],
    [[(b'commonName', b'up.example')]],
    [[(b'countryName', b'US')], [(b'stateOrProvinceName', b'CA')], [(b'localityName', b'SF')], [(b'organizationName', b'Org, Inc')],
     [(b'organizationalUnitName', b'Unit')], [(b'commonName', b'first.example')], [(b'commonName', b'*.up.example')], [(b'emailAddress', b'a@b.c')]],
    [[(b'organizationName', b'O1'), (b'commonName', b'hidden.example')], [(b'commonName', b'')], [(b'localityName', b'L')]],
]


def base_case(host, **kw):
    stripped = strip_brackets(dec(host)).encode()
    c = dict(kind='base', host=host, port=443, flags=dict(ALL_FLAGS), insecure=False, answers=[], connect=None,
             chain=['trusted_by', PATHS['ca_file']], names=[stripped, b'alt.' + stripped], transport=None,
             peer=PEERS[2], cache=[False, False, False], openssl=['ok', 'ok', 'ok'], flush='all', client_hs=None, events=None)
    c.update(kw)
    return c


def default_events(case, rng, answers=None):
    host, port = case['host'], case['port']
    a = list(case['answers']) if answers is None else answers
    tunnel = not engaged(case)
    if tunnel:
        c1 = bytes([22, 3, 1, 0, 5]) + bytes(rng.randrange(256) for _ in range(rng.choice([1, 7, 40])))
        c2 = bytes(rng.randrange(256) for _ in range(rng.choice([1, 3, 33])))
        u1 = bytes([22, 3, 3]) + bytes(rng.randrange(256) for _ in range(rng.choice([2, 9, 50])))
        u2 = bytes(rng.randrange(256) for _ in range(rng.choice([1, 5, 21])))
    else:
        c1, c2 = request_bytes(host, port, 1), request_bytes(host, port, 2)
        u1, u2 = response_bytes(1), response_bytes(2)
    return [('c', a, c1), ('fu',), ('u', a, u1), ('fc',), ('c', a, c2), ('u', a, u2), ('fu',), ('fc',)]


def table(rng, full=True):
    """the outcome table; every row is a dict of overrides of base_case"""
    rows = []
    flag_sets = [dict(ALL_FLAGS)] + [dict(ALL_FLAGS, **{k: False}) for k in ('ca_key_file', 'ca_cert_dir', 'ca_signing_key_file', 'ca_cert_file')] + \
                [dict(ca_key_file=False, ca_cert_dir=False, ca_signing_key_file=False, ca_cert_file=False, ca_file=True)]
    answer_sets = [[], [True], [False], [True, True], [True, False], [False, True], [False, False]]
    for fs in flag_sets:
        for a in answer_sets:
            for ins in (False, True):
                for conn in (None, 'refused'):
                    if conn and not full and not (fs in (flag_sets[0], flag_sets[3]) and a in ([], [False], [True, True])):
                        continue          # quick tier: a failed connect is decided before any flag or plugin is consulted
                    rows.append(dict(kind='gate', flags=fs, answers=a, insecure=ins, connect=conn))
    rows.append(dict(kind='gate', connect='timeout'))
    rows.append(dict(kind='gate', connect='gaierror'))
    for ins in (False, True):
        for ca_given in (True, False):
            for chain in ('good', 'other_store', 'platform', 'untrusted', 'expired'):
                for names in ('match', 'other', 'none'):
                    rows.append(dict(kind='upstream', insecure=ins, _ca_given=ca_given, _chain=chain, _names=names))
        for tr in ('alert', 'sslother', 'eof', 'reset', 'timeout', 'oserror'):
            rows.append(dict(kind='upstream-transport', insecure=ins, transport=tr))
    for peer in PEERS:
        for cache in itertools.product((False, True), repeat=3):
            rows.append(dict(kind='certgen', peer=peer, cache=list(cache)))
    for i in range(3):
        for o in ('fail', 'timeoutexpired', 'oserror'):
            ossl = ['ok', 'ok', 'ok']; ossl[i] = o
            rows.append(dict(kind='certgen-openssl', openssl=ossl))
            if i > 0:
                cache = [j < i for j in range(3)]
                rows.append(dict(kind='certgen-openssl', openssl=ossl, cache=cache))
    for fl in ('all', 10, 0, 'block', 'pipe', 'oserror'):
        for hs in (None, 'verify', 'eof', 'unknown_ca', 'sslother', 'pipe', 'reset', 'oserror'):
            rows.append(dict(kind='clientwrap', flush=fl, client_hs=hs))
    # outcomes of the single I/O calls inside an exchange (intercepted and tunnelled), at each position:
    # would-block answers and short writes must not disturb it; peer failures end it without leaking anything
    for answers in ([True], [False]):
        for kind, outcomes, positions in (('uw', ['wantwrite', 'block', 5, 'pipe', 'oserror'], (0, 1, 2)),
                                          ('ur', ['wantread', 'reset', 'timeout', 'oserror', 'eof'], (0, 1)),
                                          ('cr', ['wantread', 'reset', 'timeout'], (0, 1)),
                                          ('cw', ['block', 7, 'pipe', 'wantwrite'], (0, 1))):
            for o in outcomes:
                for pos in positions:
                    if not full and pos == positions[-1] and o in ('pipe', 'oserror', 'timeout', 'block'):
                        continue
                    rows.append(dict(kind='fault-' + kind, answers=answers, _fault=(kind, o, pos)))
    rows.append(dict(kind='fault-deadend', _chain='untrusted', _fault=('cw', 7, 0)))
    rows.append(dict(kind='fault-deadend', _names='other', _fault=('ur', 'wantread', 0)))
    rows.append(dict(kind='fault-deadend', transport='reset', _fault=('uw', 'wantwrite', 1)))
    # inside the TLS session: origin chunks the bookkeeping response parser cannot digest (relayed untouched, the
    # exchange goes on: fix ba95ac6) and follow-up requests the request parser rejects, with and without output
    # pending for the client (pending output is delivered first, then the connection ends)
    for i in range(len(BAD_RESPONSES) + 2):
        rows.append(dict(kind='resp-parse-raises', answers=[True], _badresp=i))
    for i in range(len(GARBAGE_REQUESTS) + 1):
        for shape in ('pending', 'pending-short-writes', 'idle', 'after-valid'):
            if not full and shape != 'pending' and i % 2:
                continue
            rows.append(dict(kind='garbage-request', answers=[True] if i % 2 else [], _garbage=(i, shape)))
    # relay scripts: answers that change between calls (correspondence only), bigger exchanges
    rows.append(dict(kind='relay-flip', answers=[True], _later=[False]))
    rows.append(dict(kind='relay-flip', answers=[False], _later=[True]))
    rows.append(dict(kind='relay-flip', answers=[True, True], _later=[True, False]))
    rows.append(dict(kind='relay-long', answers=[True], _long=True))
    rows.append(dict(kind='relay-long', answers=[False], _long=True))
    rows.append(dict(kind='relay-long', flags=flag_sets[3], _long=True))
    rows.append(dict(kind='relay-long', insecure=True, _chain='untrusted', _names='other', _long=True))
    return rows


BAD_RESPONSES = [b'HTTP/1.1 abc OK\r\n\r\n', b'HTTP/1.1 abc OK\r\nContent-Length: 2\r\n\r\nhi', b'HTTP/1.1 200\r\n\r\n',
                 b'\x00\x01\x02 not http\r\n\r\n', b'HTTP/1.1 200 OK\r\nno colon in this header line\r\n\r\n',
                 b'HTTP/1.1 200 OK\r\nContent-Length: xyz\r\n\r\nbody', b'HTTP/1.1 200 OK\r\nTransfer-Encoding: chunked\r\n\r\nzz\r\nbad\r\n',
                 b'garbage\r\n\r\n', b'HTTP/1.1\r\n\r\n', b'\r\n\r\n']
# request heads HttpParser rejects with HttpProtocolException (inputs it accepts leniently, or on which it raises
# ValueError / IndexError, are C02's subject; the case type has no oracle value for the latter)
GARBAGE_REQUESTS = [b'GARBAGE\r\n\r\n', b'GET\r\n\r\n', b'\x16\x03\x01\x00\x05hello\r\n\r\n', b'\r\n\r\n', b' \r\n\r\n']


def stale_branch_events(c, rng, badresp, garbage):
    """exchanges that reach the two failure branches of the relay callbacks inside the TLS session"""
    host, port, a = c['host'], c['port'], list(c['answers'])
    rnd = lambda n: bytes(rng.randrange(256) for _ in range(n))
    if badresp is not None:
        bad = BAD_RESPONSES[badresp] if badresp < len(BAD_RESPONSES) else \
            (b'HTTP/1.1 ' + rnd(3 + badresp) + b'\r\n\r\n' if badresp == len(BAD_RESPONSES) else rnd(20) + b'\r\n\r\n')
        return [('c', a, request_bytes(host, port, 1)), ('fu',), ('u', a, bad), ('fc',), ('c', a, request_bytes(host, port, 2)),
                ('u', a, b'tail-' + rnd(6)), ('u', a, response_bytes(2)), ('fu',), ('fc',)]
    i, shape = garbage
    g = GARBAGE_REQUESTS[i] if i < len(GARBAGE_REQUESTS) else bytes(65 + rng.randrange(26) for _ in range(9)) + b'\r\n\r\n'
    ev = [('c', a, request_bytes(host, port, 1)), ('fu',), ('u', a, response_bytes(1))]
    if shape == 'idle':
        ev += [('fc',), ('c', a, g), ('u', a, response_bytes(2)), ('fc',)]
    elif shape == 'after-valid':
        # a complete request and the garbage in one chunk: the request is queued for the origin before the parser raises
        ev += [('c', a, request_bytes(host, port, 2) + g), ('u', a, response_bytes(2)), ('fu',), ('fc',)]
    elif shape == 'pending-short-writes':
        ev += [('c', a, g), ('cw', 16), ('c', a, request_bytes(host, port, 3)), ('u', a, response_bytes(2)), ('cw', 7), ('fu',), ('fc',)]
    else:
        ev += [('c', a, g), ('u', a, response_bytes(2)), ('fc',), ('c', a, request_bytes(host, port, 3)), ('fu',)]
    return ev


def make_case(row, host, rng):
    row = dict(row)
    badresp = row.pop('_badresp', None)
    garbage = row.pop('_garbage', None)
    ca_given = row.pop('_ca_given', True)
    chain = row.pop('_chain', None)
    names = row.pop('_names', None)
    later = row.pop('_later', None)
    long_ = row.pop('_long', False)
    fault = row.pop('_fault', None)
    c = base_case(host, **row)
    c['flags'] = dict(c['flags'])
    if not ca_given:
        c['flags']['ca_file'] = False
    from proxy.common.constants import DEFAULT_CA_FILE
    ca_file = PATHS['ca_file'] if c['flags']['ca_file'] else str(DEFAULT_CA_FILE)
    if chain is not None:
        c['chain'] = {'good': ['trusted_by', ca_file], 'other_store': ['trusted_by', OTHER_STORE], 'platform': ['platform'],
                      'untrusted': ['untrusted'], 'expired': ['expired']}[chain]
    else:
        c['chain'] = ['trusted_by', ca_file]
    stripped = strip_brackets(dec(host)).encode()
    if names is not None:
        c['names'] = {'match': [b'www.' + stripped, stripped], 'other': [b'other.example', b'x' + stripped, host + b'.evil.example'], 'none': []}[names]
    ev = default_events(c, rng, later)
    if later is not None:
        # payloads must be parseable in either mode
        ev = [('c', later, request_bytes(host, 443, 1)), ('fu',), ('u', later, response_bytes(1)), ('fc',),
              ('c', list(c['answers']), request_bytes(host, 443, 2)), ('fu',), ('u', later, response_bytes(2)), ('fc',)]
    if long_:
        ev = []
        for i in range(1, 6):
            e = default_events(c, rng)
            ev += [('c', e[0][1], e[0][2] if not engaged(c) else request_bytes(host, 443, i)), ('u', e[2][1], e[2][2] if not engaged(c) else response_bytes(i))]
            if i % 2 == 0:
                ev += [('fu',), ('fc',)]
        ev += [('fu',), ('fc',)]
    if fault is not None:
        ev = fault_events(c, rng, fault)
        c['max_send'] = 16
    if badresp is not None or garbage is not None:
        ev = stale_branch_events(c, rng, badresp, garbage)
        if garbage is not None and garbage[1] == 'pending-short-writes':
            c['max_send'] = 16
    c['events'] = ev
    return c


def fault_events(c, rng, fault):
    """an exchange carried out with single send()/recv() events; one of them gets the outcome under test"""
    kind, o, pos = fault
    host, port, a = c['host'], c['port'], list(c['answers'])
    if engaged(c):
        body = bytes(97 + rng.randrange(26) for _ in range(40))
        req = b'POST /up HTTP/1.1\r\nHost: %s:%d\r\nContent-Length: %d\r\n\r\n' % (host, port, len(body)) + body
        resp1 = b'HTTP/1.1 200 OK\r\nContent-Length: 30\r\n\r\n' + b'r' * 10
        resp2 = b's' * 20
        req2, resp3 = request_bytes(host, port, 2), response_bytes(2)
    else:
        req = bytes([23, 3, 3]) + bytes(rng.randrange(256) for _ in range(50))
        resp1 = bytes(rng.randrange(256) for _ in range(33))
        resp2 = bytes(rng.randrange(256) for _ in range(20))
        req2, resp3 = bytes(rng.randrange(256) for _ in range(9)), bytes(rng.randrange(256) for _ in range(11))
    f = ('ueof',) if o == 'eof' else (kind, o)
    def seq(k, items):
        out = list(items)
        if kind == k:
            out.insert(pos, f)
        return out
    ev = seq('cr', [('c', a, req)])
    ev += seq('uw', [('uw', 16), ('uw', 16), ('uw', 16)]) + [('fu',)]
    ev += seq('ur', [('u', a, resp1)]) + [('u', a, resp2)]
    ev += seq('cw', [('cw', 16), ('cw', 9)]) + [('fc',)]
    ev += [('c', a, req2), ('fu',), ('u', a, resp3), ('fu',), ('fc',)]
    return ev


def generate(rng, tier):
    rows = table(rng, full=(tier == 'thorough'))
    cases = []
    if tier == 'thorough':
        for host in HOSTS:
            for row in rows:
                cases.append(make_case(row, host, rng))
    else:
        off = rng.randrange(len(HOSTS))
        for i, row in enumerate(rows):
            # names, IPv4 and IPv6 literals rotate through every stage; the first three hosts are one of each kind
            cases.append(make_case(row, HOSTS[(i + off) % 3] if i % 2 else HOSTS[(i // 2 + off) % len(HOSTS)], rng))
    # boundary / malformed stream: hosts that are not plain ASCII names, extreme ports, undecodable hosts, port 0
    for host, port in [(b'caf\xc3\xa9.example', 443), (b'\xff\xfe.example', 443), (b'example.com', 0), (b'a' * 200 + b'.example', 8443),
                       (b'x_y.example', 65535), (b'1.2.3', 1), (b'[::ffff:10.0.0.1]', 443), (b'[fe80::1]', 8443), (b'0x7f.1', 443)]:
        for row in (dict(kind='boundary'), dict(kind='boundary', _names='other'), dict(kind='boundary', answers=[False])):
            c = make_case(row, host, rng)
            c['port'] = port
            if port != 443:
                c['events'] = default_events(c, rng)
            cases.append(c)
    return cases


def shrink(case, fails):
    cur = dict(case)
    for k, v in (('events', []), ('peer', PEERS[2]), ('cache', [False, False, False]), ('answers', [a for a in case['answers']][:1])):
        t = dict(cur, **{k: v})
        if t != cur and fails(t):
            cur = t
    return cur


# ======================================================================================= thorough tier: live run, real openssl
def _sh(*cmd, cwd=None):
    p = subprocess.run(cmd, cwd=cwd, stdout=subprocess.PIPE, stderr=subprocess.STDOUT, timeout=60)
    if p.returncode:
        raise RuntimeError('%r failed: %s' % (cmd, p.stdout.decode()[-400:]))
    return p.stdout.decode()


def _make_pki(d):
    """proxy CA + leaf key through the repo's own pki.py; an origin CA (= the proxy's --ca-file) and four origin certificates"""
    from proxy.common import pki
    j = lambda n: os.path.join(d, n)
    assert pki.gen_private_key(j('ca.enc.key'), 'pw') and pki.remove_passphrase(j('ca.enc.key'), 'pw', j('ca.key'))
    assert pki.gen_public_key(j('ca.pem'), j('ca.key'), '', '/CN=C11 proxy CA')
    assert pki.gen_private_key(j('sign.enc.key'), 'pw') and pki.remove_passphrase(j('sign.enc.key'), 'pw', j('sign.key'))
    _sh('openssl', 'req', '-x509', '-newkey', 'rsa:2048', '-nodes', '-keyout', 'oca.key', '-out', 'trust.pem',
        '-subj', '/CN=C11 origin CA', '-days', '2', '-addext', 'basicConstraints=critical,CA:TRUE', cwd=d)
    _sh('openssl', 'genrsa', '-out', 'origin.key', '2048', cwd=d)
    good_san = 'DNS:localhost,IP:127.0.0.1,IP:::1'

    # a "platform" CA: present only in the OpenSSL default verify paths of the proxy process (SSL_CERT_FILE), NOT in --ca-file
    _sh('openssl', 'req', '-x509', '-newkey', 'rsa:2048', '-nodes', '-keyout', 'pca.key', '-out', 'platformca.pem',
        '-subj', '/CN=C11 platform CA', '-days', '2', '-addext', 'basicConstraints=critical,CA:TRUE', cwd=d)
    os.makedirs(j('empty-certs-dir'))

    def leaf(name, san, signer='oca'):
        _sh('openssl', 'req', '-new', '-key', 'origin.key', '-subj', '/CN=origin.test/O=Origin Org', '-out', name + '.csr', cwd=d)
        open(j(name + '.ext'), 'w').write('subjectAltName=%s\n' % san)
        if signer == 'self':
            _sh('openssl', 'x509', '-req', '-in', name + '.csr', '-signkey', 'origin.key', '-days', '2', '-extfile', name + '.ext', '-out', name + '.pem', cwd=d)
        elif signer == 'platform':
            _sh('openssl', 'x509', '-req', '-in', name + '.csr', '-CA', 'platformca.pem', '-CAkey', 'pca.key', '-set_serial', '4242',
                '-days', '2', '-extfile', name + '.ext', '-out', name + '.pem', cwd=d)
        else:
            _sh('openssl', 'x509', '-req', '-in', name + '.csr', '-CA', 'trust.pem', '-CAkey', 'oca.key', '-set_serial', str(1000 + len(name)),
                '-days', '2', '-extfile', name + '.ext', '-out', name + '.pem', cwd=d)
    leaf('good', good_san)
    leaf('selfsigned', good_san, signer='self')
    leaf('wrongname', 'DNS:other.example,IP:10.9.9.9')
    leaf('platform', good_san, signer='platform')
    os.makedirs(j('cadb'))
    open(j('cadb/index.txt'), 'w').close()
    open(j('cadb/serial'), 'w').write('77\n')
    open(j('ca.cnf'), 'w').write(
        '[ca]\ndefault_ca=x\n[x]\ndir=%s/cadb\ndatabase=$dir/index.txt\nnew_certs_dir=$dir\nserial=$dir/serial\n'
        'default_md=sha256\npolicy=pol\nunique_subject=no\ncopy_extensions=none\n[pol]\ncommonName=supplied\norganizationName=optional\n'
        '[ext]\nsubjectAltName=%s\n' % (d, good_san))
    _sh('openssl', 'req', '-new', '-key', 'origin.key', '-subj', '/CN=origin.test/O=Origin Org', '-out', 'expired.csr', cwd=d)
    _sh('openssl', 'ca', '-batch', '-config', 'ca.cnf', '-cert', 'trust.pem', '-keyfile', 'oca.key', '-in', 'expired.csr',
        '-out', 'expired.pem', '-startdate', '20200101000000Z', '-enddate', '20200102000000Z', '-extensions', 'ext', '-notext', cwd=d)


class _Origin(threading.Thread):
    """tiny TLS origin: records what it receives inside TLS and answers with a body naming the request line"""
    def __init__(self, d, cert, family=socket.AF_INET):
        super().__init__(daemon=True)
        self.ctx = ssl.SSLContext(ssl.PROTOCOL_TLS_SERVER)
        self.ctx.load_cert_chain(os.path.join(d, cert + '.pem'), os.path.join(d, 'origin.key'))
        self.sock = socket.socket(family)
        self.sock.setsockopt(socket.SOL_SOCKET, socket.SO_REUSEADDR, 1)
        self.sock.bind(('::1' if family == socket.AF_INET6 else '127.0.0.1', 0))
        self.sock.listen(8)
        self.port = self.sock.getsockname()[1]
        self.received = []
        self.stop = False

    def run(self):
        self.sock.settimeout(0.2)
        while not self.stop:
            try:
                c, _ = self.sock.accept()
            except socket.timeout:
                continue
            except OSError:
                break
            threading.Thread(target=self.serve, args=(c,), daemon=True).start()

    def serve(self, c):
        c.settimeout(45)       # certificate generation under machine load can take many seconds
        try:
            t = self.ctx.wrap_socket(c, server_side=True)
        except Exception as e:
            self.received.append(('handshake-failed', type(e).__name__))
            c.close()
            return
        buf = b''
        try:
            while b'\r\n\r\n' not in buf:
                x = t.recv(65536)
                if not x:
                    break
                buf += x
            self.received.append(('data', buf))
            if buf:
                body = b'origin-saw:' + buf.split(b'\r\n')[0]
                t.sendall(b'HTTP/1.1 200 OK\r\nContent-Length: %d\r\nX-Origin: yes\r\n\r\n' % len(body) + body)
            time.sleep(0.1)
        except Exception as e:
            self.received.append(('error', type(e).__name__))
        finally:
            try:
                t.close()
            except Exception:
                pass


def _client(proxy_port, host, port, trust_pem):
    """CONNECT host:port through the proxy, verifying TLS handshake for that host against trust_pem, one GET"""
    obs = {}
    s = socket.create_connection(('127.0.0.1', proxy_port), timeout=45)
    try:
        target = '%s:%d' % (host, port)
        s.sendall(('CONNECT %s HTTP/1.1\r\nHost: %s\r\n\r\n' % (target, target)).encode())
        buf = b''
        while b'\r\n\r\n' not in buf:
            x = s.recv(4096)
            if not x:
                break
            buf += x
        obs['connect_reply'] = buf
        if not buf.startswith(b'HTTP/1.1 200'):
            return obs
        ctx = ssl.create_default_context(cafile=trust_pem)
        try:
            t = ctx.wrap_socket(s, server_hostname=strip_brackets(host))
        except ssl.SSLCertVerificationError as e:
            obs['handshake'] = 'verify-failed: %s' % e.verify_message
            return obs
        except (ssl.SSLError, OSError) as e:
            obs['handshake'] = 'failed: %s' % type(e).__name__
            return obs
        obs['handshake'] = 'ok'
        cert = t.getpeercert()
        obs['issuer'] = cert.get('issuer')
        obs['san'] = cert.get('subjectAltName')
        req = b'GET /hello?x=1 HTTP/1.1\r\nHost: %s\r\n\r\n' % target.encode()
        obs['request'] = req
        t.sendall(req)
        t.settimeout(45)
        resp = b''
        try:
            while True:
                x = t.recv(65536)
                if not x:
                    break
                resp += x
                if b'\r\n\r\n' in resp:
                    head, body = resp.split(b'\r\n\r\n', 1)
                    if b'Content-Length: ' in head and len(body) >= int(head.split(b'Content-Length: ')[1].split(b'\r\n')[0]):
                        break
        except (socket.timeout, OSError) as e:
            obs['read_error'] = type(e).__name__
        obs['response'] = resp
        return obs
    finally:
        try:
            s.close()
        except Exception:
            pass


def _opt_out_plugin():
    from proxy.http.proxy import HttpProxyBasePlugin

    class C11OptOutPlugin(HttpProxyBasePlugin):
        def do_intercept(self, request):
            return False
    return C11OptOutPlugin


def live_run():
    """real openssl, real proxy.py, real TLS on loopback; returns (failures, notes, count)"""
    import proxy
    failures, notes, count = [], [], 0
    d = tempfile.mkdtemp(prefix='verif-C11-live-')
    origins = {}
    saved_env = {k: os.environ.get(k) for k in ('SSL_CERT_FILE', 'SSL_CERT_DIR')}
    try:
        _make_pki(d)
        # the proxy process' platform trust store: must play no role, only --ca-file counts
        os.environ['SSL_CERT_FILE'] = os.path.join(d, 'platformca.pem')
        os.environ['SSL_CERT_DIR'] = os.path.join(d, 'empty-certs-dir')
        for cert in ('good', 'selfsigned', 'wrongname', 'expired', 'platform'):
            origins[cert] = _Origin(d, cert); origins[cert].start()
        try:
            origins['good6'] = _Origin(d, 'good', socket.AF_INET6); origins['good6'].start()
        except OSError:
            notes.append('live: no IPv6 loopback, [::1] not exercised')
        base = ['--hostname', '127.0.0.1', '--port', '0', '--num-acceptors', '1', '--num-workers', '1', '--threadless',
                '--ca-key-file', os.path.join(d, 'ca.key'), '--ca-cert-file', os.path.join(d, 'ca.pem'),
                '--ca-signing-key-file', os.path.join(d, 'sign.key'), '--ca-file', os.path.join(d, 'trust.pem'), '--log-level', 'c']
        for mode in ('secure', 'insecure', 'optout'):
            certdir = os.path.join(d, 'certs-' + mode)
            os.makedirs(certdir)
            args = base + ['--ca-cert-dir', certdir] + (['--insecure-tls-interception'] if mode == 'insecure' else [])
            kw = {'plugins': [_opt_out_plugin()]} if mode == 'optout' else {}
            with proxy.Proxy(args, **kw) as p:
                pp = p.flags.port
                for cert, o in origins.items():
                    hosts = ['[::1]'] if cert == 'good6' else ['localhost', '127.0.0.1']
                    if mode == 'optout' and cert not in ('good', 'good6'):
                        continue
                    for h in hosts:
                        for rep in ('cold', 'warm'):
                            n0 = len(o.received)
                            trust = os.path.join(d, 'trust.pem' if mode == 'optout' else 'ca.pem')
                            obs = _client(pp, h, o.port, trust)
                            # the origin thread records asynchronously: wait for its record of this exchange
                            for _ in range(60):
                                time.sleep(0.05)
                                if obs.get('response') and any(k == 'data' and x for k, x in o.received[n0:]):
                                    break
                                if not obs.get('response') and len(o.received) > n0 and _ >= 3:
                                    break
                            got = o.received[n0:]
                            count += 1
                            plaintext = b''.join(x for k, x in got if k == 'data')
                            what = None
                            good = cert in ('good', 'good6')
                            if mode == 'optout':
                                if obs.get('handshake') != 'ok' or dict((k[0][0], k[0][1]) for k in obs.get('issuer', ())).get('commonName') != 'C11 origin CA':
                                    what = 'opted-out CONNECT did not reach the origin\'s own TLS endpoint (client saw %r)' % (obs.get('issuer') or obs.get('handshake'),)
                                elif plaintext != obs['request'] or b'origin-saw:GET /hello?x=1 HTTP/1.1' not in obs.get('response', b''):
                                    what = 'opted-out tunnel did not carry the exchange byte for byte'
                                elif os.listdir(certdir):
                                    what = 'certificate generated for an opted-out connection'
                            elif mode == 'secure' and not good:
                                if plaintext or obs.get('response'):
                                    what = 'application data relayed although the origin certificate is %s' % (
                                        'issued by a CA that is only in the platform trust store, not in --ca-file' if cert == 'platform' else cert)
                                elif obs.get('handshake') == 'ok':
                                    what = 'client was presented a certificate for an origin whose certificate is %s' % cert
                            else:
                                if obs.get('handshake') != 'ok':
                                    what = 'a verifying client rejected the generated certificate for %s: %s' % (h, obs.get('handshake'))
                                else:
                                    issuer = dict((k[0][0], k[0][1]) for k in obs['issuer'])
                                    sans = obs.get('san') or ()
                                    want_kind = 'IP Address' if is_ip(strip_brackets(h)) else 'DNS'
                                    ok_san = any(k == want_kind and (v == h if want_kind == 'DNS' else ipaddress.ip_address(v) == ipaddress.ip_address(strip_brackets(h))) for k, v in sans)
                                    if issuer.get('commonName') != 'C11 proxy CA':
                                        what = 'generated certificate not issued by the configured CA: %r' % (issuer,)
                                    elif not ok_san:
                                        what = 'generated certificate does not name %s: %r' % (h, sans)
                                    elif plaintext.split(b'\r\n')[0] != b'GET /hello?x=1 HTTP/1.1' or b'host: ' + ('%s:%d' % (h, o.port)).encode() not in plaintext.lower():
                                        what = 'request sent inside TLS did not reach the origin with its meaning: %r' % plaintext[:120]
                                    elif not obs.get('response', b'').endswith(b'origin-saw:GET /hello?x=1 HTTP/1.1') or b'X-Origin: yes' not in obs['response']:
                                        what = 'origin response did not return intact: %r' % obs.get('response', b'')[:120]
                            if what:
                                failures.append(dict(case=dict(kind='live', mode=mode, origin_cert=cert, host=h, cache=rep),
                                                     out=C.jsonable(dict(obs=obs, origin=got)), what='live: ' + what))
                if mode != 'optout':
                    names = sorted(os.listdir(certdir))
                    notes.append('live %s: cache files %s' % (mode, names))
    finally:
        for k, v in saved_env.items():
            if v is None:
                os.environ.pop(k, None)
            else:
                os.environ[k] = v
        for o in origins.values():
            o.stop = True
            try:
                o.sock.close()
            except Exception:
                pass
        shutil.rmtree(d, ignore_errors=True)
    return failures, notes, count


EXHAUSTIVE_SCOPE = ('every outcome of every oracle call site of the decision procedure, enumerated stage by stage (a later stage is only '
                    'varied on the path that reaches it; the independence of a stage from which passing variant of the earlier stages was '
                    'taken is part of the proved model, not of the enumeration), crossed with the host list; in Coq the same table '
                    '(62 640 scenarios x 3 host kinds) is evaluated against the boolean renderings of the theorems (C11_outcome_table_sweep)')


def extra_checks(rng, tier):
    res = {'failures': [], 'notes': [], 'exhaustive': True, 'exhaustive_scope': EXHAUSTIVE_SCOPE, 'hosts': [h.decode() for h in HOSTS]}
    if tier != 'thorough':
        res['notes'].append('live openssl run only in the thorough tier')
        return res
    t0 = time.time()
    try:
        failures, notes, n = live_run()
    except Exception as e:
        import traceback
        res['notes'].append('live run could not be carried out: %r %s' % (e, traceback.format_exc()[-600:]))
        res['live_runs'] = 0
        return res
    res['failures'] = failures
    res['notes'] += notes
    res['live_runs'] = n
    res['live_wall_s'] = round(time.time() - t0, 1)
    return res
