"""C18 — event bus: correspondence of Event/Dispatcher.v with proxy/core/event/dispatcher.py and the
property's own statement evaluated on the implementation.

The REAL EventDispatcher (handle_event / run / _broadcast / _send / _close_and_delete) is driven over
generated histories of subscribe / unsubscribe / publish / channel-breakage operations; the event
dicts are produced by the REAL EventQueue.subscribe/unsubscribe/publish writing into a list-backed
queue.  Channels are scripted objects with the send()/close() behaviour of a
multiprocessing.connection.Connection (send raises the scripted exception once the peer is gone,
OSError('handle is closed') after close()); thorough tier and a small quick sample also use real
multiprocessing.Pipe() connections whose reading end is closed for breakage."""
import os, copy, queue, pickle, select, threading, itertools, multiprocessing
import common as C

ID = 'C18'
COQ_TARGETS = ['theories/Props/C18.vo', 'theories/Event/DispatcherCases.vo']
IMPORTS = 'From PM Require Import Lib.Bytes Event.Dispatcher Event.DispatcherCases.'
CASE_TYPE = 'case'
CHECK_FN = 'check_case'
ANCHOR_FILES = ['proxy/core/event/dispatcher.py', 'proxy/core/event/queue.py', 'proxy/core/event/names.py',
                'proxy/core/event/subscriber.py', 'proxy/core/event/manager.py']
RULE = ('cases = histories (<= 25 operations) of subscribe(id, channel) / unsubscribe(id) (incl. repeated and unknown ids) / '
        'publish / break(channel, exception kind) over 1..3 subscribers (own id and channel each: kind wf*), over arbitrary '
        'id/channel pairings with shared channels and re-bound ids (kind shared*), a break inserted at every position of template '
        'histories (kind breakpos*), histories with channels raising non-OSError exceptions (kind escape*, separate malformed '
        'stream), histories with slow but alive readers (kind slow*, and caps on 30 % of wf*: the channel buffer holds 0..8 '
        'unread messages; the scripted channel exposes a real descriptor through fileno() and refuses a send with '
        'BlockingIOError when it is full AND has been switched to non-blocking) and histories in which queue.get() itself '
        'fails (kind qerr-run, known finding); each is run through '
        'handle_event call by call (*-steps) or through the real run() loop with a scripted queue (*-run). Compared with the '
        'model: per-call outcome, subscriber table in dict order, and per channel object the messages received and the number of '
        'close() calls; for *-steps cases the Python reference used as oracle is additionally compared with the Coq reference '
        '`view` (CView). A case is non-trivial when at least one published event was delivered to a channel; distinct = distinct histories')
TRUSTED = ['scripted channel objects behave like multiprocessing.connection.Connection: send raises the scripted exception once '
           'broken and OSError("handle is closed") after close(); probed on every run with real multiprocessing.Pipe() histories '
           '(reader end closed => BrokenPipeError) in extra_checks',
           'FIFO delivery of the multiprocessing.Queue feeding run_once() (publication order = queue order) is not modelled; '
           'thorough tier runs a live EventManager with two EventSubscribers as supporting evidence',
           'the per-channel reference expected_view (oracle) is cross-validated on every run against the Coq function `view`, '
           'which Theorem C18_view proves equal to the model for every history']
ASSUMPTIONS = ['subscriber channels stay in blocking mode: a send to a slow but alive reader waits and then succeeds (the model '
               'treats it as delivered); a dispatcher that makes channels non-blocking and handles EAGAIN as breakage is caught by '
               'the slow-reader streams and the live real-Pipe slow-reader runs; a reader that never reads again wedges send() '
               '(liveness, outside this safety property)',
               'conn.send raises only OSError subclasses or EOFError when the peer is gone (premise no_other of the theorems); '
               'any other exception type escapes handle_event (Theorem C18_other_escapes)',
               'a published event never has event_name SUBSCRIBE or UNSUBSCRIBE',
               'every queue item can be received: queue.get() raises nothing but queue.Empty (otherwise known finding '
               'C18-dead-subscriber-unpickle, Theorem C18_queue_failure_refuted)',
               'model and theorems describe dispatcher.py with proposed_fixes/C18-oserror-stops-dispatcher.diff applied; '
               'the tree before it is refuted by Theorem C18_original_refuted']
SHARD = 200

KINDS = ('bp', 'eof', 'os', 'other')
COQ_KIND = {'bp': 'BrokenPipe', 'eof': 'EOFErr', 'os': 'OSErr', 'other': 'OtherErr'}
UNKNOWN_ID = 7


# ----------------------------------------------------------------- scripted channel
def make_exc(kind, variant=0):
    if kind == 'bp':
        return BrokenPipeError(32, 'Broken pipe')
    if kind == 'eof':
        return EOFError()
    if kind == 'os':
        return [ConnectionResetError(104, 'Connection reset by peer'), OSError('connection is read-only'),
                ConnectionAbortedError(103, 'Software caused connection abort'), TimeoutError('timed out'),
                OSError(9, 'Bad file descriptor')][variant % 5]
    return [ValueError('bad message length'), TypeError('cannot pickle'), pickle.PicklingError('cannot pickle'),
            RuntimeError('boom')][variant % 4]


class FakeChan:
    """send()/close()/fileno() of a multiprocessing Connection whose peer can go away at a scripted moment and
    whose reader can be slow.

    capacity = None: the reader keeps up.  capacity = k: the reader is alive but reads nothing until the history
    is over (then it reads everything), and the kernel buffer of the channel holds k messages.  On a BLOCKING
    channel (what the dispatcher is handed) a send into a full buffer simply waits for the reader, i.e. it
    succeeds - that is how the model treats it.  If somebody switched the descriptor to non-blocking
    (os.set_blocking, fcntl: fileno() is a real descriptor, its O_NONBLOCK flag is read back at every send) the
    same send raises BlockingIOError, as the kernel would."""
    def __init__(self, idx, close_raises=False, capacity=None):
        self.idx, self.rcvd, self.fault, self.closed, self.closes = idx, [], None, False, 0
        self.close_raises, self.capacity = close_raises, capacity
        self._fds = None
        self.eagain = 0

    def fileno(self):
        if self.closed:
            raise OSError('handle is closed')
        if self._fds is None:
            self._fds = os.pipe()      # only created when the code under test asks for the descriptor
        return self._fds[1]

    def nonblocking(self):
        try:
            return self._fds is not None and not os.get_blocking(self._fds[1])
        except OSError:
            return False

    def send(self, obj):
        if self.closed:
            raise OSError('handle is closed')
        if self.fault is not None:
            raise make_exc(*self.fault)
        if self.capacity is not None and len(self.rcvd) >= self.capacity and self.nonblocking():
            self.eagain += 1
            raise BlockingIOError(11, 'Resource temporarily unavailable')
        self.rcvd.append(copy.deepcopy(obj))     # a real connection pickles at send time

    def close(self):
        self.closes += 1
        self.closed = True
        if self.close_raises:
            raise OSError('close failed')

    def break_(self, kind, variant):
        self.fault = (kind, variant)

    def release(self):
        if self._fds is not None:
            for fd in self._fds:
                try: os.close(fd)
                except OSError: pass
            self._fds = None


def make_chans(case):
    caps = case.get('caps') or {}
    return [FakeChan(i, close_raises=(i in case.get('close_raises', [])),
                     capacity=caps.get(i, caps.get(str(i)))) for i in range(case['nchan'])]


class ListQueue:
    """stands for the multiprocessing queue: EventQueue puts, the dispatcher gets"""
    def __init__(self):
        self.items = []
    def put(self, x):
        self.items.append(x)


def sid(a):
    return 'sub-%d' % a


def exc_code(e):
    if isinstance(e, BrokenPipeError): return 1
    if isinstance(e, EOFError): return 2
    if isinstance(e, OSError): return 3
    if isinstance(e, KeyError): return 4
    return 5


class Driver:
    """turns history operations into real queue items (through the real EventQueue) and applies breakage"""
    def __init__(self, case, chans):
        from proxy.core.event.queue import EventQueue
        self.lq = ListQueue()
        self.eq = EventQueue(self.lq)
        self.chans = chans
        self.published = {}

    def item(self, op):
        """queue item of a non-break operation"""
        k = op[0]
        if k == 'sub':
            self.eq.subscribe(sid(op[1]), self.chans[op[2]])
        elif k == 'unsub':
            self.eq.unsubscribe(sid(op[1]))
        elif k == 'pub':
            self.eq.publish(request_id='req-%d' % op[1], event_name=op[2], event_payload={'n': op[1]},
                            publisher_id='C18')
        else:
            raise ValueError(op)
        it = self.lq.items.pop(0)
        if k == 'pub':
            self.published[op[1]] = copy.deepcopy(it)
        return it

    def canon_msg(self, m):
        from proxy.core.event.names import eventNames
        if m == {'event_name': eventNames.SUBSCRIBED}: return 'S'
        if m == {'event_name': eventNames.UNSUBSCRIBED}: return 'U'
        if m == {'event_name': eventNames.DISPATCHER_SHUTDOWN}: return 'D'
        for e, it in self.published.items():
            if m == it:
                return ['E', e]
        return ['X', repr(m)[:80]]


def observe(drv, disp, chans):
    subs = []
    for k, v in disp.subscribers.items():
        a = int(k.split('-')[1]) if isinstance(k, str) and k.startswith('sub-') else 999
        subs.append([a, getattr(v, 'idx', 998)])
    out = dict(subs=subs, chans=[dict(closes=ch.closes, rcvd=[drv.canon_msg(m) for m in ch.rcvd]) for ch in chans])
    eg = sum(getattr(ch, 'eagain', 0) for ch in chans)
    if eg:
        out['eagain'] = eg      # informational: sends refused because the channel had been made non-blocking
    return out


def quiet_logs():
    import logging
    logging.getLogger('proxy.core.event.dispatcher').disabled = True


def new_dispatcher(event_queue=None):
    from proxy.core.event.dispatcher import EventDispatcher
    quiet_logs()
    from proxy.core.event.queue import EventQueue
    return EventDispatcher(shutdown=threading.Event(), event_queue=event_queue or EventQueue(ListQueue()))


def run_steps(case, chans=None):
    chans = chans or make_chans(case)
    drv = Driver(case, chans)
    disp = new_dispatcher()
    outs = []
    try:
        for op in case['ops']:
            if op[0] == 'break':
                chans[op[1]].break_(op[2], op[3] if len(op) > 3 else 0)
                outs.append(0)
                continue
            it = drv.item(op)
            try:
                r = disp.handle_event(it)
                outs.append(0 if r is None else 6)
            except Exception as e:     # noqa
                outs.append(exc_code(e))
        out = observe(drv, disp, chans)
    finally:
        for ch in chans:
            if hasattr(ch, 'release'):
                ch.release()
    out['outs'] = outs
    return out


class ScriptedQueue:
    """event_queue.queue of the dispatcher in run mode: get() applies pending breakage, then hands out the
    next event; when the history is exhausted it sets the shutdown flag and reports Empty"""
    def __init__(self, case, drv, chans, shutdown):
        self.ops, self.drv, self.chans, self.shutdown = list(case['ops']), drv, chans, shutdown
        self.consumed = 0
    def get(self, timeout=None, block=True):
        while self.consumed < len(self.ops) and self.ops[self.consumed][0] == 'break':
            op = self.ops[self.consumed]
            self.chans[op[1]].break_(op[2], op[3] if len(op) > 3 else 0)
            self.consumed += 1
        if self.consumed >= len(self.ops):
            self.shutdown.set()
            raise queue.Empty()
        op = self.ops[self.consumed]
        self.consumed += 1
        if op[0] == 'qerr':
            # what queue.get() raises when a queued Connection cannot be rebuilt (its process is gone)
            raise ConnectionRefusedError(111, 'Connection refused')
        return self.drv.item(op)


def run_run(case):
    from proxy.core.event.dispatcher import EventDispatcher
    quiet_logs()
    chans = make_chans(case)
    drv = Driver(case, chans)
    shutdown = threading.Event()
    sq = ScriptedQueue(case, drv, chans, shutdown)
    class EQ:           # what EventDispatcher uses of its event_queue: .queue.get(timeout=1)
        queue = sq
    disp = EventDispatcher(shutdown=shutdown, event_queue=EQ())
    try:
        try:
            disp.run()
            raised = 0
        except Exception as e:   # noqa
            raised = exc_code(e)
        out = observe(drv, disp, chans)
    finally:
        for ch in chans:
            ch.release()
    out.update(raised=raised, consumed=sq.consumed)
    return out


def run_impl(case):
    if case.get('mode') == 'run':
        return run_run(case)
    return run_steps(case)


# ----------------------------------------------------------------- Coq terms
def coq_op(op):
    k = op[0]
    if k == 'sub': return 'Subscribe %d %d' % (op[1], op[2])
    if k == 'unsub': return 'Unsubscribe %d' % op[1]
    if k == 'pub': return 'Publish %d' % op[1]
    return 'Break %d %s' % (op[1], COQ_KIND[op[2]])


def coq_msg(m, k=[0]):
    if m == 'S': return 'MSubscribed'
    if m == 'U': return 'MUnsubscribed'
    if m == 'D': return 'MShutdown'
    if m[0] == 'E': return '(MEv %d)' % m[1]
    return '(MEv 4000000)'


def coq_obs(out):
    subs = C.coq_list('(%d, %d)' % (a, c) for a, c in out['subs'])
    chs = C.coq_list('(%d, (%d, %s))' % (i, ch['closes'], C.coq_list(coq_msg(m) for m in ch['rcvd']))
                     for i, ch in enumerate(out['chans']))
    return subs, chs


def has_qerr(ops):
    return any(o[0] == 'qerr' for o in ops)


def coq_term(case, out):
    h = C.coq_list(coq_op(o) for o in case['ops'] if o[0] != 'qerr')
    subs, chs = coq_obs(out)
    if case.get('mode') == 'run' and has_qerr(case['ops']):
        hq = C.coq_list('GetRaises' if o[0] == 'qerr' else 'Item (%s)' % coq_op(o) for o in case['ops'])
        return 'CRunQ %s %d %d %s %s' % (hq, out['raised'], out['consumed'], subs, chs)
    if case.get('mode') == 'run':
        return 'CRun %s %d %d %s %s' % (h, out['raised'], out['consumed'], subs, chs)
    t = 'CSteps %s %s %s %s' % (h, C.coq_list(str(x) for x in out['outs']), subs, chs)
    if has_other(case['ops']):
        return t
    # the Python reference (oracle) against the Coq reference `view`
    exp = []
    for c in range(case['nchan']):
        r, closes, _ = expected_view(case['ops'], c)
        exp.append('(%d, (%d, %s))' % (c, closes, C.coq_list(coq_msg(m) for m in r)))
    return [t, 'CView %s %s' % (h, C.coq_list(exp))]


def model_expr(case):
    h = C.coq_list(coq_op(o) for o in case['ops'])
    n = case['nchan']
    if case.get('mode') == 'run' and has_qerr(case['ops']):
        hq = C.coq_list('GetRaises' if o[0] == 'qerr' else 'Item (%s)' % coq_op(o) for o in case['ops'])
        return ('match run_q cfg_fixed init %s with (w, r, n) => (res_code r, n, subscribers w, map (fun c => (c_closes (chans w c), c_rcvd (chans w c))) %s) end'
                % (hq, C.coq_list(str(i) for i in range(n))))
    if case.get('mode') == 'run':
        return ('match run cfg_fixed init %s with (w, r, n) => (res_code r, n, subscribers w, map (fun c => (c_closes (chans w c), c_rcvd (chans w c))) %s) end'
                % (h, C.coq_list(str(i) for i in range(n))))
    return ('let w := steps cfg_fixed init %s in (map res_code (outcomes cfg_fixed init %s), subscribers w, map (fun c => (c_closes (chans w c), c_rcvd (chans w c))) %s)'
            % (h, h, C.coq_list(str(i) for i in range(n))))


# ----------------------------------------------------------------- the property, stated directly (oracle)
def has_other(ops):
    return any(o[0] == 'break' and o[2] == 'other' for o in ops)


def expected_view(ops, c, shutdown=False):
    """What channel c must have received and how often it must have been closed, told from the channel's
    own point of view: an acknowledgement for every subscription made with it, every event published
    while an id is subscribed with it (once per such id), the unsubscription acknowledgement, and nothing
    once its peer is gone or it has been closed.  Independent of dict order and of the dispatcher's
    bookkeeping (deferred deletion etc.)."""
    ids, dead, closes, out = set(), False, 0, []
    for op in ops:
        alive = not dead and closes == 0
        k = op[0]
        if k == 'break':
            if op[1] == c:
                dead = True
        elif k == 'sub':
            a, x = op[1], op[2]
            if x != c:
                ids.discard(a)          # the id now names another channel
            elif alive:
                out.append('S'); ids.add(a)
            else:
                ids.discard(a); closes += 1
        elif k == 'unsub':
            if op[1] in ids:
                if alive:
                    out.append('U')
                ids.discard(op[1]); closes += 1
        elif k == 'pub':
            if alive:
                out.extend([['E', op[1]]] * len(ids))
            else:
                closes += len(ids); ids.clear()
    if shutdown:
        alive = not dead and closes == 0
        if alive:
            out.extend(['D'] * len(ids))
        else:
            closes += len(ids); ids.clear()
    return out, closes, ids


def expected_table(ops, nchan, shutdown=False):
    tab = {}
    for c in range(nchan):
        for a in expected_view(ops, c, shutdown)[2]:
            tab[a] = c
    return tab


def safety_only(case, out):
    """for histories in which a channel raises a non-OSError exception: no duplicate, no reordering, nothing
    after the unsubscription acknowledgement of a privately owned channel"""
    pubs = [o[1] for o in case['ops'] if o[0] == 'pub']
    order = {e: i for i, e in enumerate(pubs)}
    for c, ch in enumerate(out['chans']):
        n_ids = len({o[1] for o in case['ops'] if o[0] == 'sub' and o[2] == c})
        if n_ids > 1:
            continue
        idx = [order.get(m[1], -1) for m in ch['rcvd'] if isinstance(m, list) and m[0] == 'E']
        if any(m[0] == 'X' for m in ch['rcvd'] if isinstance(m, list)):
            return 'channel %d received an object nobody published' % c
        if idx != sorted(set(idx)):
            return 'channel %d received events duplicated or out of publication order: %r' % (c, idx)
        if 'U' in ch['rcvd'] and ch['rcvd'][-1] != 'U' and ch['rcvd'][-1] != 'D':
            return 'channel %d received something after its unsubscription acknowledgement' % c
    return None


def is_private(case):
    """every id is used with one channel only and every channel with one id only"""
    a2c, c2a = {}, {}
    for o in case['ops']:
        if o[0] == 'sub':
            if a2c.setdefault(o[1], o[2]) != o[2] or c2a.setdefault(o[2], o[1]) != o[1]:
                return False
    return True


def oracle(case, out, isolation=True):
    ops = case['ops']
    runmode = case.get('mode') == 'run'
    if has_other(ops):
        return safety_only(case, out)
    # the dispatcher never stops
    if runmode:
        if out['consumed'] != len(ops):
            return 'the dispatcher loop stopped after %d of %d operations (an exception of a subscriber channel ended it)' % (
                out['consumed'], len(ops))
        if out['raised'] != 0:
            return 'run() raised (code %d) although every channel error was an OSError/EOFError' % out['raised']
    else:
        bad = [(i, x) for i, x in enumerate(out['outs']) if x != 0]
        if bad:
            i, x = bad[0]
            return 'handle_event raised (code %d) at operation %d %r: a broken subscriber channel stops the dispatcher' % (x, i, ops[i])
    # every channel holds exactly what it is owed, in order
    for c, ch in enumerate(out['chans']):
        exp, closes, _ = expected_view(ops, c, shutdown=runmode)
        if ch['rcvd'] != exp:
            return 'channel %d received %r, owed %r%s' % (c, ch['rcvd'], exp, slow_hint(case, out, c))
        if ch['closes'] != closes:
            return 'channel %d closed %d times, expected %d' % (c, ch['closes'], closes)
    tab = expected_table(ops, case['nchan'], shutdown=runmode)
    if dict((a, c) for a, c in out['subs']) != tab or len(out['subs']) != len(tab):
        return 'subscriber table %r, expected %r' % (out['subs'], tab)
    # isolation: erase one subscriber's operations, the others must receive the same
    if isolation and is_private(case) and not runmode:
        owners = sorted({(o[1], o[2]) for o in ops if o[0] == 'sub'})
        for a, c in owners:
            ops2 = [o for o in ops if not ((o[0] == 'sub' and o[1] == a) or (o[0] == 'unsub' and o[1] == a)
                                           or (o[0] == 'break' and o[1] == c))]
            if len(ops2) == len(ops):
                continue
            out2 = run_steps(dict(case, ops=ops2))
            for x, (c1, c2) in enumerate(zip(out['chans'], out2['chans'])):
                if x != c and c1 != c2:
                    return 'erasing subscriber %d (channel %d) changes what channel %d received: %r vs %r' % (
                        a, c, x, c1['rcvd'], c2['rcvd'])
            if [s for s in out['subs'] if s[0] != a] != out2['subs']:
                return 'erasing subscriber %d changes the rest of the table' % a
    return None


def slow_hint(case, out, c):
    if out.get('eagain') and (case.get('caps') or {}).get(c, (case.get('caps') or {}).get(str(c))) is not None:
        return (' — its reader is slow but alive (buffer of %s messages); the channel had been switched to non-blocking and a '
                'send was refused with BlockingIOError: a full channel was treated as a broken one' % (case['caps'].get(c, case['caps'].get(str(c))),))
    return ''


def nontrivial(case, out):
    return any(isinstance(m, list) and m[0] == 'E' for ch in out.get('chans', []) for m in ch['rcvd'])


FINDING_Q = 'C18-dead-subscriber-unpickle'


def classify(case, out, failure):
    """known finding C18-dead-subscriber-unpickle, recognised exactly: the run() loop ended at the queue item
    that could not be received (queue.get() raised an OSError), and apart from that nothing is wrong: the
    history up to that item passes the oracle and leaves the same channel contents and table"""
    if case.get('kind') == 'live-dead-subscriber':
        return FINDING_Q if str(failure).startswith('live: queue.get() raised') else None
    ops = case.get('ops', [])
    qi = [i for i, o in enumerate(ops) if o[0] == 'qerr']
    if not qi or case.get('mode') != 'run' or has_other(ops) or not isinstance(out, dict):
        return None
    i = qi[0]
    if out.get('consumed') != i + 1:
        return None
    pre = dict(case, ops=ops[:i])
    out_pre = run_run(pre)
    if oracle(pre, out_pre):
        return None
    if any(out.get(k) != out_pre.get(k) for k in ('subs', 'chans', 'raised')):
        return None
    return FINDING_Q


# ----------------------------------------------------------------- generation
EVENT_NAMES = [2, 4, 5, 6, 7, 8, 9, 10, 11, 99]     # everything but SUBSCRIBE(1) / UNSUBSCRIBE(3)


def rand_kind(rng, allow_other=False):
    r = rng.random()
    if allow_other and r < 0.5: return 'other'
    r = rng.random()
    return 'bp' if r < 0.55 else 'os' if r < 0.85 else 'eof'


def gen_history(rng, nsub, length, shared=False, allow_other=False, p_break=0.12):
    ops, e = [], 0
    ids = list(range(nsub)) + [UNKNOWN_ID]
    nchan = nsub if not shared else rng.choice([1, 2, 3])
    for _ in range(length):
        r = rng.random()
        if r < 0.24:
            a = rng.randrange(nsub) if not shared else rng.randrange(4)
            c = a if not shared else rng.randrange(nchan)
            ops.append(['sub', a, c])
        elif r < 0.40:
            ops.append(['unsub', rng.choice(ids) if not shared else rng.randrange(4)])
        elif r < 0.40 + p_break:
            ops.append(['break', rng.randrange(nchan), rand_kind(rng, allow_other), rng.randrange(5)])
        else:
            ops.append(['pub', e, rng.choice(EVENT_NAMES)]); e += 1
    return ops, nchan


def generate(rng, tier):
    quick = tier != 'thorough'
    cases = []
    def add(kind, ops, nchan, mode, **kw):
        cases.append(dict(kind=kind + '-' + mode, mode=mode, ops=ops, nchan=nchan, **kw))
    n_main = 260 if quick else 12000
    for i in range(n_main):
        nsub = 1 + i % 3
        ops, nchan = gen_history(rng, nsub, rng.randrange(3, 26))
        # start most histories with everybody subscribed so that publishes are delivered
        if rng.random() < 0.6:
            ops = [['sub', a, a] for a in range(nsub)] + ops
            ops = ops[:25]
        kw = {'close_raises': [rng.randrange(nchan)]} if rng.random() < 0.2 else {}
        if rng.random() < 0.3:      # some readers are slow: their kernel buffer holds only a few messages
            kw['caps'] = {c: rng.randrange(0, 5) for c in range(nchan) if rng.random() < 0.6}
        add('wf', ops, nchan, 'run' if i % 4 == 3 else 'steps', **kw)
    for i in range(110 if quick else 5000):
        ops, nchan = gen_history(rng, 3, rng.randrange(3, 26), shared=True, p_break=0.08)
        add('shared', ops, nchan, 'run' if i % 4 == 3 else 'steps')
    # a break at every position of template histories, every channel, every tolerated kind
    templates = [
        [['sub', 0, 0], ['sub', 1, 1], ['sub', 2, 2], ['pub', 0, 6], ['pub', 1, 7], ['unsub', 1], ['pub', 2, 8],
         ['sub', 1, 1], ['pub', 3, 9], ['unsub', 0], ['unsub', 0], ['pub', 4, 10], ['unsub', UNKNOWN_ID], ['pub', 5, 11]],
        [['sub', 0, 0], ['pub', 0, 6], ['sub', 1, 1], ['pub', 1, 2], ['sub', 0, 0], ['pub', 2, 4], ['unsub', 1], ['pub', 3, 5]],
    ]
    for t in templates:
        for pos in range(len(t) + 1):
            for c in range(3 if t is templates[0] else 2):
                kinds = ['bp'] if quick and (pos + c) % 3 else ['bp', 'os', 'eof']
                for k in kinds:
                    ops = t[:pos] + [['break', c, k, pos]] + t[pos:]
                    add('breakpos', ops, 3 if t is templates[0] else 2, 'run' if (pos + c) % 5 == 0 else 'steps')
    # separate malformed stream: channels raising exceptions that are not OSError/EOFError
    for i in range(50 if quick else 2000):
        nsub = 1 + i % 3
        ops, nchan = gen_history(rng, nsub, rng.randrange(3, 20), allow_other=True, p_break=0.2)
        ops = [['sub', a, a] for a in range(nsub)] + ops
        add('escape', ops, nchan, 'run' if i % 3 == 2 else 'steps')
    # boundary stream: slow but alive subscribers - the backlog of unread messages crosses the capacity of the channel
    for i in range(30 if quick else 1500):
        nsub = 2 + i % 2
        ops, nchan = gen_history(rng, nsub, rng.randrange(6, 22), p_break=0.05)
        ops = [['sub', a, a] for a in range(nsub)] + [o for o in ops if o[0] != 'unsub' or rng.random() < 0.4]
        cap = rng.choice([0, 1, 1, 2, 3, 5, 8])
        slow = rng.randrange(nsub)
        caps = {slow: cap}
        if rng.random() < 0.3:
            caps[(slow + 1) % nsub] = rng.choice([1, 2, 4])
        add('slow', ops[:25], nchan, 'run' if i % 4 == 3 else 'steps', caps=caps)
    # the run() loop when queue.get() itself fails (known finding C18-dead-subscriber-unpickle)
    for i in range(8 if quick else 200):
        nsub = 1 + i % 3
        ops, nchan = gen_history(rng, nsub, rng.randrange(2, 12))
        ops = [['sub', a, a] for a in range(nsub)] + ops
        pos = rng.randrange(nsub, len(ops) + 1)
        ops = ops[:pos] + [['qerr']] + ops[pos:]
        add('qerr', ops, nchan, 'run')
    return cases


def _category(msg):
    return ' '.join(str(msg).split()[:4]) if msg else None


def shrink(case, fails):
    """drop operations one at a time while the same kind of failure remains"""
    cur = dict(case)
    try:
        cat0 = _category(oracle(cur, run_impl(cur)))
    except Exception:   # noqa
        cat0 = None
    def still(t):
        if not fails(t):
            return False
        if cat0 is None:
            return True
        try:
            return _category(oracle(t, run_impl(t))) == cat0
        except Exception:   # noqa
            return False
    changed = True
    while changed:
        changed = False
        for i in range(len(cur['ops'])):
            t = dict(cur, ops=cur['ops'][:i] + cur['ops'][i + 1:])
            try:
                if still(t):
                    cur = t; changed = True
                    break
            except Exception:   # noqa
                pass
    return cur


# ----------------------------------------------------------------- extra exploration on the implementation
class PipeChan:
    """a real multiprocessing.Pipe(); the dispatcher gets the sending end"""
    def __init__(self, idx, duplex):
        self.idx = idx
        self.recv_end, self.send_end = multiprocessing.Pipe(duplex=duplex)
        self.got, self.closes = [], 0
    def drain(self):
        try:
            while self.recv_end.poll(0):
                self.got.append(self.recv_end.recv())
        except (EOFError, OSError):
            pass
    def break_(self):
        self.drain()
        try: self.recv_end.close()
        except OSError: pass


def run_real_pipes(case, duplex=True):
    """same driver, but the channels handed to the dispatcher are real Connection objects"""
    pcs = [PipeChan(i, duplex) for i in range(case['nchan'])]
    ends = [p.send_end for p in pcs]
    drv = Driver(case, ends)
    disp = new_dispatcher()
    outs = []
    try:
        for op in case['ops']:
            if op[0] == 'break':
                pcs[op[1]].break_(); outs.append(0); continue
            it = drv.item(op)
            try:
                disp.handle_event(it); outs.append(0)
            except Exception as e:   # noqa
                outs.append(exc_code(e))
            for p in pcs:
                if not p.recv_end.closed:
                    p.drain()
        subs = []
        for k, v in disp.subscribers.items():
            subs.append([int(k.split('-')[1]), ends.index(v)])
        return dict(outs=outs, subs=subs,
                    chans=[dict(closes=None, closed=p.send_end.closed, rcvd=[drv.canon_msg(m) for m in p.got]) for p in pcs])
    finally:
        for p in pcs:
            for e in (p.recv_end, p.send_end):
                try: e.close()
                except OSError: pass


def oracle_real(case, out):
    ops = case['ops']
    bad = [(i, x) for i, x in enumerate(out['outs']) if x != 0]
    if bad:
        return 'real Pipe: handle_event raised (code %d) at operation %d' % (bad[0][1], bad[0][0])
    for c, ch in enumerate(out['chans']):
        exp, closes, _ = expected_view(ops, c)
        if ch['rcvd'] != exp:
            return 'real Pipe: channel %d received %r, owed %r' % (c, ch['rcvd'], exp)
        if ch['closed'] != (closes > 0):
            return 'real Pipe: channel %d closed=%r, expected %r' % (c, ch['closed'], closes > 0)
    tab = expected_table(ops, case['nchan'])
    if dict((a, c) for a, c in out['subs']) != tab:
        return 'real Pipe: subscriber table %r, expected %r' % (out['subs'], tab)
    return None


def exhaustive(maxlen):
    """all histories up to maxlen over two subscribers (own id and channel), one unknown id, BrokenPipe breakage"""
    alphabet = [['sub', 0, 0], ['sub', 1, 1], ['unsub', 0], ['unsub', 1], ['unsub', UNKNOWN_ID], ['pub'],
                ['break', 0, 'bp', 0], ['break', 1, 'bp', 0]]
    n = 0
    for ln in range(0, maxlen + 1):
        for word in itertools.product(range(len(alphabet)), repeat=ln):
            ops, e = [], 0
            for s in word:
                o = alphabet[s]
                if o[0] == 'pub':
                    o = ['pub', e, 6]; e += 1
                ops.append(o)
            case = dict(kind='exhaustive', mode='steps', ops=ops, nchan=2, caps={0: 1, 1: 2})
            out = run_steps(case)
            n += 1
            f = oracle(case, out, isolation=False)
            if f:
                return n, dict(case=case, out=out, what='exhaustive enumeration: ' + f)
    return n, None


def extra_checks(rng, tier):
    quick = tier != 'thorough'
    failures, notes = [], []
    res = {}
    maxlen = 5 if quick else 7
    n, f = exhaustive(maxlen)
    res['exhaustive_histories'] = dict(max_ops=maxlen, subscribers=2, count=n, complete=f is None)
    if f:
        failures.append(f)
    # real multiprocessing.Pipe channels
    n_real = 40 if quick else 1500
    done = 0
    for i in range(n_real):
        nsub = 1 + i % 3
        ops, nchan = gen_history(rng, nsub, rng.randrange(3, 26), shared=(i % 5 == 4), p_break=0.12)
        ops = [o if o[0] != 'break' else ['break', o[1], 'bp', 0] for o in ops]
        if i % 5 != 4:
            ops = ([['sub', a, a] for a in range(nsub)] + ops)[:25]
        case = dict(kind='realpipe', mode='steps', ops=ops, nchan=nchan)
        try:
            out = run_real_pipes(case, duplex=(i % 2 == 0))
        except Exception as e:   # noqa
            failures.append(dict(case=case, out=None, what='real Pipe driver failed: %r' % e)); break
        done += 1
        f = oracle_real(case, out)
        if f:
            failures.append(dict(case=case, out=out, what=f)); break
    res['real_pipe_histories'] = done
    # which exception a real connection raises when its peer is gone (recorded, informational)
    try:
        r, w = multiprocessing.Pipe()
        r.close()
        try:
            w.send({'event_name': 6}); k = 'none'
        except Exception as e:   # noqa
            k = type(e).__name__
        w.close()
        try:
            w.send(1); k2 = 'none'
        except Exception as e:   # noqa
            k2 = '%s(%s)' % (type(e).__name__, e)
        notes.append('real Pipe(): send with reader closed raises %s; send after own close() raises %s' % (k, k2))
    except Exception as e:   # noqa
        notes.append('probe of real Pipe failed: %r' % e)
    # live: real Pipe() channels whose reader pauses until the kernel buffer is full, then resumes
    slow_runs = []
    for k in range(4 if quick else 24):
        try:
            r = live_slow_reader(duplex=(k % 2 == 0), slow_first=(k // 2 % 2 == 0), n_events=60 + 10 * (k % 3))
        except Exception as e:   # noqa
            notes.append('live slow-reader run could not run: %r' % e)
            break
        slow_runs.append(r['summary'])
        if r.get('failure'):
            failures.append(dict(case=dict(kind='live-slow-reader', mode='steps', nchan=2, caps={1: 25},
                                           ops=[['sub', 0, 0], ['sub', 1, 1]] + [['pub', e, 6] for e in range(40)]),
                                 out=r['summary'], what=r['failure']))
            break
    res['live_slow_reader'] = slow_runs
    # the known-finding classifier must attribute nothing but its exact class
    st = classify_selftest()
    res['classify_selftest'] = 'ok' if not st else st
    if st:
        failures.append(dict(case=dict(kind='classify-selftest', mode='steps', nchan=1, ops=[]), out=None,
                             what='classify() self-test: ' + st))
    # live: a subscriber process that dies before the dispatcher dequeues its SUBSCRIBE (real multiprocessing.Queue)
    try:
        lf = live_dead_subscriber()
        res['live_dead_subscriber'] = lf['summary']
        if lf.get('failure'):
            failures.append(dict(case=dict(kind='live-dead-subscriber', mode='run', nchan=2,
                                           ops=[['sub', 1, 1], ['qerr'], ['pub', 7, 6]]),
                                 out=lf['summary'], what=lf['failure']))
    except Exception as e:   # noqa
        notes.append('live dead-subscriber probe could not run: %r' % e)
    if not quick:
        try:
            f = live_manager_fifo()
            res['live_manager'] = f['summary']
            if f.get('failure'):
                failures.append(dict(case=dict(kind='live-manager', mode='run', nchan=2, ops=[]), out=f['summary'], what=f['failure']))
        except Exception as e:   # noqa
            notes.append('live EventManager run could not run: %r' % e)
    res['failures'] = failures
    res['notes'] = notes
    return res


def classify_selftest():
    """classify() must return the finding id for the exact class only.  Synthetic (case, output) pairs: the genuine
    witness; the same with a delivery lost / duplicated / a foreign table entry / another stop position / steps mode /
    a non-OSError fault in the history; and failures of histories without a queue failure."""
    base = dict(kind='selftest', mode='run', nchan=2,
                ops=[['sub', 0, 0], ['sub', 1, 1], ['pub', 1, 6], ['qerr'], ['pub', 2, 6]])
    out = run_run(base)
    f = oracle(base, out)
    if not f:
        return None if has_qerr_survivor(base, out) else 'the witness of the finding no longer fails and the finding is still registered'
    if classify(base, out, f) != FINDING_Q:
        return 'the genuine witness is not recognised'
    def tamper(fn):
        o = copy.deepcopy(out); fn(o); return o
    bad = {
        'lost delivery': tamper(lambda o: o['chans'][1]['rcvd'].pop(1)),
        'duplicated delivery': tamper(lambda o: o['chans'][0]['rcvd'].insert(1, ['E', 1])),
        'subscriber dropped': tamper(lambda o: o['subs'].pop()),
        'extra close': tamper(lambda o: o['chans'][0].__setitem__('closes', 1)),
        'stopped elsewhere': tamper(lambda o: o.__setitem__('consumed', 3)),
        'run raised': tamper(lambda o: o.__setitem__('raised', 3)),
    }
    for name, o in bad.items():
        if classify(base, o, 'x') is not None:
            return 'a run with the queue failure AND %s is attributed to the known finding' % name
    if classify(dict(base, mode='steps'), out, 'x') is not None:
        return 'a steps-mode case is attributed to the known finding'
    other = dict(base, ops=[['sub', 0, 0], ['break', 0, 'other', 0]] + base['ops'][1:])
    if classify(other, run_run(other), 'x') is not None:
        return 'a history with a non-OSError fault is attributed to the known finding'
    plain = dict(base, ops=[o for o in base['ops'] if o[0] != 'qerr'])
    if classify(plain, tamper(lambda o: o['chans'][1]['rcvd'].pop()), 'x') is not None:
        return 'a history without queue failure is attributed to the known finding'
    return None


def has_qerr_survivor(case, out):
    return out.get('consumed') == len(case['ops'])


def live_slow_reader(duplex=True, slow_first=True, n_events=40, blob=8192):
    """Real multiprocessing.Pipe() channels, real dispatcher.  Subscriber FAST reads continuously; subscriber SLOW is
    alive but reads nothing until the kernel buffer of its channel is full (or everything has been published),
    then reads everything.  Its channel never breaks, so it is owed the ack, every event once and in order and the
    unsubscription ack; FAST likewise.  (With a blocking channel the dispatcher's send just waits for SLOW.)"""
    import time
    from proxy.core.event.names import eventNames
    quiet_logs()
    names = ['slow', 'fast'] if slow_first else ['fast', 'slow']
    pipes = {n: multiprocessing.Pipe(duplex=duplex) for n in names}      # (recv_end, send_end)
    got = {n: [] for n in names}
    errs = {}
    all_published = threading.Event()
    t_end = time.time() + 20

    def reader(name, wait_for_full):
        r, w = pipes[name]
        try:
            if wait_for_full:
                t_wait = time.time() + 5
                while time.time() < t_wait and not all_published.is_set():
                    try:
                        if not select.select([], [w.fileno()], [], 0)[1]:
                            break               # the kernel buffer is full: the dispatcher is (or would be) waiting
                    except (OSError, ValueError):
                        break                   # the dispatcher closed its end
                    time.sleep(0.002)
            while time.time() < t_end:
                if not r.poll(0.05):
                    if all_published.is_set() and not r.poll(0.3):
                        return
                    continue
                m = r.recv()
                got[name].append(m)
                if m == {'event_name': eventNames.UNSUBSCRIBED}:
                    return
        except Exception as e:   # noqa   EOF, truncated pickle after a partial non-blocking write ...
            errs[name] = '%s: %s' % (type(e).__name__, e)

    threads = [threading.Thread(target=reader, args=(n, n == 'slow'), daemon=True) for n in names]
    drv = Driver({}, None)
    disp = new_dispatcher()
    outs = []
    def handle(it):
        try:
            disp.handle_event(it); outs.append(0)
        except Exception as e:   # noqa
            outs.append(exc_code(e))
    try:
        for n in names:
            drv.eq.subscribe(n, pipes[n][1]); handle(drv.lq.items.pop(0))
        for t in threads:
            t.start()
        for e in range(n_events):
            drv.eq.publish(request_id='req-%d' % e, event_name=eventNames.WORK_STARTED,
                           event_payload={'n': e, 'blob': 'x' * blob}, publisher_id='C18')
            handle(drv.lq.items.pop(0))
        table_before_unsub = sorted(disp.subscribers)
        for n in names:
            drv.eq.unsubscribe(n); handle(drv.lq.items.pop(0))
        all_published.set()
        for t in threads:
            t.join(25)
    finally:
        all_published.set()
        for r, w in pipes.values():
            for c in (r, w):
                try: c.close()
                except OSError: pass
    def canon(m):
        if m == {'event_name': eventNames.SUBSCRIBED}: return 'S'
        if m == {'event_name': eventNames.UNSUBSCRIBED}: return 'U'
        if isinstance(m, dict) and isinstance(m.get('event_payload'), dict) and m['event_payload'].get('blob') == 'x' * blob:
            return m['event_payload'].get('n')
        return 'X'
    want = ['S'] + list(range(n_events)) + ['U']
    seq = {n: [canon(m) for m in got[n]] for n in names}
    summary = dict(duplex=duplex, order=names, events=n_events, bytes_per_event=blob,
                   received={n: len(seq[n]) for n in names}, reader_errors=errs, outcomes_nonzero=[x for x in outs if x],
                   table_before_unsubscribe=table_before_unsub)
    res = dict(summary=summary)
    for n in names:
        if seq[n] != want:
            k = next((i for i, (a, b) in enumerate(zip(seq[n], want)) if a != b), min(len(seq[n]), len(want)))
            res['failure'] = ('live real Pipe(duplex=%s): subscriber %r (%s) received %d of %d messages, first difference at '
                              'position %d (got %r, owed %r)%s; its channel never broke'
                              % (duplex, n, 'alive, reads only once its buffer is full' if n == 'slow' else 'reads continuously',
                                 len(seq[n]), len(want), k, seq[n][k] if k < len(seq[n]) else None, want[k] if k < len(want) else None,
                                 '; reader error %s' % errs[n] if n in errs else ''))
            break
    if 'failure' not in res and any(outs):
        res['failure'] = 'live real Pipe: handle_event raised (codes %r)' % [x for x in outs if x]
    return res


def _dead_child(q):
    import os, time
    from proxy.core.event.queue import EventQueue
    r, w = multiprocessing.Pipe()
    EventQueue(q).subscribe('dead-sub', w)
    time.sleep(0.3)          # let the queue's feeder thread flush the item
    os._exit(0)


def live_dead_subscriber():
    """real multiprocessing.Queue; a process subscribes and dies; then a healthy subscriber and one event"""
    import time
    from proxy.core.event.queue import EventQueue
    from proxy.core.event.names import eventNames
    ctx = multiprocessing.get_context('fork')
    q = ctx.Queue()
    eq = EventQueue(q)
    p = ctx.Process(target=_dead_child, args=(q,))
    p.start(); p.join(20)
    r, w = multiprocessing.Pipe()
    eq.subscribe('alive', w)
    eq.publish(request_id='1', event_name=eventNames.WORK_STARTED, event_payload={}, publisher_id='C18')
    time.sleep(0.3)
    quiet_logs()
    from proxy.core.event.dispatcher import EventDispatcher
    d = EventDispatcher(shutdown=threading.Event(), event_queue=eq)
    raised = []
    for i in range(3):
        try:
            d.run_once(); raised.append(None)
        except queue.Empty:
            raised.append('Empty')
        except Exception as e:   # noqa
            raised.append(type(e).__name__)
    got = []
    while r.poll(0.2):
        got.append(r.recv().get('event_name'))
    for c in (r, w):
        c.close()
    q.close(); q.join_thread()
    summary = dict(run_once=raised, alive_received=got)
    out = dict(summary=summary)
    first = raised[0]
    if first not in (None, 'Empty'):
        out['failure'] = ('live: queue.get() raised %s inside run_once() for the SUBSCRIBE of a process that had died; run() '
                          'only survives queue.Empty, so the dispatcher loop ends for every subscriber' % first)
    return out


def live_manager_fifo(n=200):
    """real EventManager (multiprocessing.Queue + dispatcher thread) and two real EventSubscribers; the second one
    goes away abruptly half way"""
    import time
    from proxy.core.event import EventManager, EventSubscriber
    from proxy.core.event.names import eventNames
    quiet_logs()
    got1, got2 = [], []
    with EventManager() as em:
        s1 = EventSubscriber(em.queue, lambda ev: got1.append(ev['request_id']))
        s2 = EventSubscriber(em.queue, lambda ev: got2.append(ev['request_id']))
        s1.setup(); s2.setup()
        for i in range(n // 2):
            em.queue.publish(str(i), eventNames.WORK_STARTED, {'i': i}, 'C18-live')
        # subscriber 2 disappears without unsubscribing
        t0 = time.time()
        while len(got2) < n // 4 and time.time() - t0 < 10:
            time.sleep(0.02)
        s2.relay_shutdown.set(); s2.relay_thread.join(); s2.relay_recv.close(); s2.relay_send.close()
        for i in range(n // 2, n):
            em.queue.publish(str(i), eventNames.WORK_STARTED, {'i': i}, 'C18-live')
        t0 = time.time()
        while len(got1) < n and time.time() - t0 < 20:
            time.sleep(0.05)
        alive = em.dispatcher_thread.is_alive()
        left = len(em.dispatcher.subscribers)
        s1.shutdown()
    want = [str(i) for i in range(n)]
    summary = dict(published=n, subscriber1_received=len(got1), subscriber2_received=len(got2),
                   dispatcher_alive_after_breakage=alive, subscribers_left=left)
    out = dict(summary=summary)
    if got1 != want:
        out['failure'] = 'live EventManager: healthy subscriber received %d of %d events or out of order' % (len(got1), n)
    elif got2 != want[:len(got2)] or len(got2) > n // 2:
        out['failure'] = 'live EventManager: the vanished subscriber received a non-prefix of the events'
    elif not alive:
        out['failure'] = 'live EventManager: dispatcher thread ended after a subscriber vanished'
    return out
