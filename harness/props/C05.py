"""C05 — one connection cannot take down or stall the executor serving the others.

Correspondence (see notes/C05.md):
 (i)  the REAL Threadless._run_forever (LocalFdExecutor / RemoteFdExecutor) over scripted works and a
      scripted kernel (props/exec_common.py) vs. the generic Coq model Exec/Threadless.v instantiated
      with the same scripts (Exec/ThreadlessCases.v); observables: works keys, registered_events_by_work_ids,
      selector map, unfinished tasks at every select(), final status (alive / stopped / crashed), per-work
      call logs, descriptor operations.  A second stream validates Exec/ThreadlessOld.v against the saved
      as-found threadless.py (so that C05_refuted_old speaks about the real unrepaired code).
 (ii) REAL HttpProtocolHandler works under fake sockets in the real loop, one adversarial among canaries.
Oracles (the property itself on the implementation, independent of the model): the loop never stops with
an exception; a canary's view (call log / transcript) in the joint run equals its view when run alone."""
import copy, json
import common as C
from props import exec_common as X

ID = 'C05'
COQ_TARGETS = ['theories/Props/C05.vo', 'theories/Exec/ThreadlessCases.vo']
IMPORTS = ('From PM Require Import Lib.Bytes Lib.ZDict Exec.Threadless Exec.ThreadlessOld Exec.ThreadlessCases.\n'
           'From Coq Require Import ZArith.')
CASE_TYPE = 'xcase'
CHECK_FN = 'check_case'
ANCHOR_FILES = ['proxy/core/work/threadless.py', 'proxy/core/work/fd/fd.py', 'proxy/core/work/fd/local.py',
                'proxy/core/work/fd/remote.py', 'proxy/core/work/work.py', 'proxy/http/handler.py']
RULE = ('cases = executor schedules (<= 4 scripted works, <= 30 iterations; per iteration: epoll_ctl failures, ready set, '
        'arrival, which tasks complete, clock, shutdown flag; works return/raise per script at initialize/get_events/'
        'handle_events/shutdown/is_inactive; local and remote executor) in three streams: "sched" (descriptor collisions, '
        'suspended tasks, invalid masks, closed fds), "canary" (disciplined works, adversarial ones raising at every entry '
        'point, compared with each work run alone), "asfound" (old model vs saved as-found code), plus "http" (real '
        'HttpProtocolHandler works, 1 adversarial conversation among canaries). Non-trivial: at least two works alive '
        'at the same select() and at least one handle_events call (sched/canary/asfound), or every canary conversation '
        'received a non-empty reply (http); distinct = distinct case dicts')
TRUSTED = ['FakeEpoll (props/exec_common.py) stands for the kernel epoll object inside the REAL selectors.EpollSelector; '
           'its failure modes (EBADF on ADD, ENOENT on MOD) are those seen live',
           'asyncio task scheduling: a coroutine that does not yield completes within the asyncio.wait that follows its creation '
           '(observed, and probed by the suspended-task cases)',
           'kernel premises of the theorems: accept()/recv_handle return a descriptor number no live work is using and never 0; '
           'epoll reports the work-queue pipe at most once per call']
ASSUMPTIONS = ['flags.enable_conn_pool is False (default)',
               'C05_noninterference: every work only names descriptors it owns (documented assumption of _update_work_events) '
               'and tasks complete in the iteration that created them (true of all handlers shipped with proxy.py)',
               'constructing the work object (work_klass(...)) does not raise; BaseException (KeyboardInterrupt, CancelledError) is out of scope']
SHARD = 18
CASE_TIMEOUT = 30      # a case whose implementation run does not return (a loop inside the worker) is a failing input


# ----------------------------------------------------------------------------- generation
def generate(rng, tier):
    quick = tier != 'thorough'
    cases = []
    for _ in range(130 if quick else 3000):
        cases.append(X.gen_schedule(rng))
    for _ in range(90 if quick else 2000):
        n = rng.randrange(2, 5)
        c = X.gen_schedule(rng, n_works=n, suspend=False, collide=False, adversarial_frac=0.0,
                           tick_limit=rng.choice([2, 3, 5, 8, 39]))
        make_canary_case(rng, c)
        cases.append(c)
    for _ in range(30 if quick else 800):
        c = X.gen_schedule(rng)
        c['kind'] = 'asfound'; c['asfound'] = True
        cases.append(c)
    for _ in range(36 if quick else 1000):
        cases.append(gen_http(rng))
    cases += gen_framing(rng, None)           # the whole (role x payload) grid: ~200 cases, well under a second
    cases += recycled_number_cases()
    for ak in ROUND2_KINDS:
        for late in (8, 14, 20):
            for can_kind in ('get', 'web404', 'post_split'):
                convs = [adversarial_conv(rng, ak, 'adv', 0), canary_conv(rng, can_kind, 'c0', late)]
                if ak.startswith('reverse') and can_kind == 'reverse':
                    continue
                cases.append(dict(kind='http', convs=convs, adv=ak))
    return cases


def recycled_number_cases():
    """work 11 stops reporting descriptor 111 (it closed it) but lingers; the kernel hands the number 111 to the next
    accepted connection: Threadless never unregistered the stale key, register() raises KeyError (logged), work 111 is
    not polled until work 11 goes away.  This is the documented TODO of _update_work_events; no handler shipped with
    proxy.py closes a descriptor while it lingers, so it is latent on the original tree — the model reproduces it."""
    out = []
    for remote in (False, True):
        for linger in (2, 5):
            a = dict(id=11, get=[{'ev': [[11, 1], [111, 1]]}] + [{'ev': [[11, 1]]}] * (linger + 4), handle=[{'ret': False}] * linger + [{'ret': True}], inactive=[])
            b = dict(id=111, get=[{'ev': [[111, 1]]}] * 8, handle=[{'ret': False}, {'ret': True}], inactive=[])
            wq = [[X.WQ_FD, 1]] if remote else []
            evs = [dict(ready=list(wq), arrival=a, fin=[11, 111], clock=100),
                   dict(ready=[[11, 1]], fin=[11, 111], clock=103),
                   dict(ready=list(wq), arrival=b, fin=[11, 111], clock=106)]
            for k in range(linger + 4):
                evs.append(dict(ready=[[111, 1], [11, 1]], fin=[11, 111], clock=109 + 3 * k))
            evs.append(dict(ready=[], fin=[11, 111], clock=200))
            out.append(dict(kind='sched', remote=remote, tick_limit=39, events=evs, ids=[11, 111], adversarial=[11],
                            origin='gen: descriptor number recycled while a stale registration lingers'))
    return out


def make_canary_case(rng, c):
    """exactly one work misbehaves (raises at entry points, closes descriptors under the selector), the others are canaries"""
    c['kind'] = 'canary'
    ids = c['ids']
    bad = rng.choice(ids)
    c['adversarial'] = [bad]
    for ev in c['events']:
        a = ev.get('arrival')
        if isinstance(a, dict):
            if a['id'] == bad:
                new = X.gen_script(rng, bad, True, foreign=())
                # keep it disciplined: only its own (or invalid) descriptors
                for g in new['get']:
                    if 'ev' in g:
                        g['ev'] = [[f, m] for f, m in g['ev'] if f < 0 or f in X.own_fds(bad) or f == bad * 10 + 3]
                ev['arrival'] = new
            else:
                # canaries live long enough to be observed
                a['inactive'] = [x for x in a.get('inactive', []) if 'ret' in x and not x['ret']]
        ev.pop('running_set', None)
        if ev.get('arrival') == 'stop':
            ev['arrival'] = None
        # epoll_ctl failures only for the adversarial work's descriptors
        if 'kfail' in ev:
            ev['kfail'] = [f for f in ev['kfail'] if f in X.own_fds(bad)]
    return c


def restrict_case(case, wid):
    """the schedule seen by work `wid` alone"""
    c = copy.deepcopy(case)
    for ev in c['events']:
        a = ev.get('arrival')
        if isinstance(a, dict) and a['id'] != wid:
            ev['arrival'] = None
            ev['ready'] = [x for x in ev.get('ready', []) if x[0] != X.WQ_FD]
    return c


# ---- http conversations
ADVERSARIAL_KINDS = ['badutf8', 'garbage', 'truncated', 'client_reset', 'refused', 'gaierror', 'timeout', 'upstream_reset',
                     'upstream_garbage', 'client_pipe', 'client_oserror', 'eof_now', 'connect_refused', 'two_origins',
                     'reverse_second', 'connection_options', 'huge_header', 'bad_chunk', 'tunnel_abort', 'nul_host', 'upstream_send_err',
                     'pending_output_teardown', 'lingering_after_upstream_close', 'reverse_lingering_after_upstream_close', 'reverse_short_writes', 'reverse_upstream_never_reads',
                     'plugin_rejects_after_connect', 'plugin_raises_after_connect']
# multi-step scenarios that are always part of the run (several variants each): the canary arrives AFTER the adversarial
# connection reached its bad state, on the descriptor number the kernel would recycle
ROUND2_KINDS = ['pending_output_teardown', 'lingering_after_upstream_close', 'reverse_lingering_after_upstream_close', 'reverse_short_writes', 'reverse_upstream_never_reads']
CANARY_KINDS = ['get', 'post_split', 'chunked', 'tunnel', 'web404', 'reverse']


def canary_conv(rng, kind, name, arrive):
    h = '%s.canary.test' % name
    if kind == 'get':
        body = bytes(rng.randrange(97, 123) for _ in range(rng.randrange(1, 40)))
        return dict(name=name, arrive=arrive, hosts=[h], role=kind,
                    client=[b'GET http://%s/p?q=1 HTTP/1.1\r\nHost: %s\r\nUser-Agent: c\r\n\r\n' % (h.encode(), h.encode())],
                    upstreams=[dict(respond=[b'HTTP/1.1 200 OK\r\nContent-Length: %d\r\n\r\n' % len(body) + body, 'EOF'])])
    if kind == 'post_split':
        return dict(name=name, arrive=arrive, hosts=[h], role=kind,
                    client=[b'POST http://%s/u HTTP/1.1\r\nHost: %s\r\nContent-Length: 10\r\n\r\n01234' % (h.encode(), h.encode()), b'56789'],
                    upstreams=[dict(after=b'56789', respond=[b'HTTP/1.1 201 Created\r\nContent-Length: 0\r\n\r\n', 'EOF'])])
    if kind == 'chunked':
        return dict(name=name, arrive=arrive, hosts=[h], role=kind,
                    client=[b'GET http://%s/c HTTP/1.1\r\nHost: %s\r\n\r\n' % (h.encode(), h.encode())],
                    upstreams=[dict(respond=[b'HTTP/1.1 200 OK\r\nTransfer-Encoding: chunked\r\n\r\n3\r\nabc\r\n', b'2\r\nde\r\n0\r\n\r\n', 'EOF'])])
    if kind == 'tunnel':
        return dict(name=name, arrive=arrive, hosts=[h], role=kind,
                    client=[b'CONNECT %s:443 HTTP/1.1\r\nHost: %s:443\r\n\r\n' % (h.encode(), h.encode()), b'\x16\x03\x01hello-tls', 'EOF'],
                    upstreams=[dict(after=b'hello-tls', respond=[b'\x16\x03\x03world', 'EOF'])])
    if kind == 'web404':
        return dict(name=name, arrive=arrive, hosts=[], role=kind,
                    client=[b'GET /nothing-here HTTP/1.1\r\nHost: localhost\r\n\r\n'], upstreams=[])
    if kind == 'reverse':
        return dict(name=name, arrive=arrive, hosts=['rev.upstream.test'], role=kind, shared_host=True,
                    client=[b'GET /rev/x HTTP/1.1\r\nHost: localhost\r\n\r\n'],
                    upstreams=[dict(respond=[b'HTTP/1.1 200 OK\r\nContent-Length: 3\r\n\r\nrev', 'EOF'])])
    raise ValueError(kind)


def adversarial_conv(rng, kind, name, arrive):
    h = b'adv.test'
    base = dict(name=name, arrive=arrive, hosts=['adv.test', 'adv2.test'], role='adv:' + kind)
    ok_resp = [b'HTTP/1.1 200 OK\r\nContent-Length: 2\r\n\r\nok', 'EOF']
    req = b'GET http://adv.test/x HTTP/1.1\r\nHost: adv.test\r\n\r\n'
    if kind == 'badutf8':
        return dict(base, client=[b'GET http://adv.test/\xff\xfe HTTP/1.1\r\nHost: adv.test\r\nUser-Agent: \xff\r\n\r\n'], upstreams=[dict(respond=ok_resp)])
    if kind == 'garbage':
        return dict(base, client=[bytes(rng.randrange(256) for _ in range(rng.randrange(1, 120))), 'EOF'], upstreams=[dict(respond=ok_resp)])
    if kind == 'truncated':
        cut = rng.randrange(1, len(req))
        return dict(base, client=[req[:cut], rng.choice(['EOF', 'reset', 'timeout'])], upstreams=[dict(respond=ok_resp)])
    if kind == 'client_reset':
        return dict(base, client=[req, 'reset'], upstreams=[dict(respond=[b'HTTP/1.1 200 OK\r\nContent-Length: 100\r\n\r\npartial'])])
    if kind in ('refused', 'gaierror', 'timeout'):
        return dict(base, client=[req], upstreams=[dict(connect={'refused': 'refused', 'gaierror': 'gaierror', 'timeout': 'timeout'}[kind])])
    if kind == 'upstream_reset':
        return dict(base, client=[req], upstreams=[dict(respond=[b'HTTP/1.1 200 OK\r\nContent-Length: 100\r\n\r\npart', 'reset'])])
    if kind == 'upstream_garbage':
        return dict(base, client=[req], upstreams=[dict(respond=[bytes(rng.randrange(256) for _ in range(rng.randrange(1, 80))), 'EOF'])])
    if kind == 'client_pipe':
        return dict(base, client=[req], client_send=['pipe'], upstreams=[dict(respond=ok_resp)])
    if kind == 'client_oserror':
        return dict(base, client=[req], client_send=[1, 'oserror'], upstreams=[dict(respond=ok_resp)])
    if kind == 'eof_now':
        return dict(base, client=['EOF'], upstreams=[])
    if kind == 'connect_refused':
        return dict(base, client=[b'CONNECT adv.test:443 HTTP/1.1\r\nHost: adv.test:443\r\n\r\n', b'data'], upstreams=[dict(connect='refused')])
    if kind == 'two_origins':
        return dict(base, client=[req, b'GET http://adv2.test/y HTTP/1.1\r\nHost: adv2.test\r\n\r\n'],
                    upstreams=[dict(respond=[b'HTTP/1.1 200 OK\r\nContent-Length: 2\r\n\r\nok']), dict(respond=ok_resp)])
    if kind == 'reverse_second':
        r = b'GET /rev/a HTTP/1.1\r\nHost: localhost\r\n\r\n'
        return dict(base, hosts=['rev.upstream.test'], shared_host=True, client=[r, r, r],
                    upstreams=[dict(respond=[b'HTTP/1.1 200 OK\r\nContent-Length: 2\r\n\r\nok']), dict(respond=[b'HTTP/1.1 200 OK\r\nContent-Length: 2\r\n\r\nok'])])
    if kind == 'connection_options':
        # legal request whose Connection header nominates header fields (RFC 7230 6.1), some of which the canaries use
        opts = rng.choice([b'close, user-agent, host', b'keep-alive, Content-Length, X-Api-Key', b'authorization, user-agent',
                           b'close, transfer-encoding, host, content-length'])
        return dict(base, client=[b'GET http://adv.test/x HTTP/1.1\r\nHost: adv.test\r\nUser-Agent: a\r\nX-Api-Key: k\r\nConnection: '
                                  + opts + b'\r\n\r\n'], upstreams=[dict(respond=ok_resp)])
    if kind == 'huge_header':
        return dict(base, client=[b'GET http://adv.test/x HTTP/1.1\r\nHost: adv.test\r\nX: ' + b'a' * 70000 + b'\r\n\r\n'], upstreams=[dict(respond=ok_resp)])
    if kind == 'bad_chunk':
        return dict(base, client=[req], upstreams=[dict(respond=[b'HTTP/1.1 200 OK\r\nTransfer-Encoding: chunked\r\n\r\nzz\r\nabc\r\n0\r\n\r\n', 'EOF'])])
    if kind == 'tunnel_abort':
        return dict(base, client=[b'CONNECT adv.test:443 HTTP/1.1\r\nHost: adv.test:443\r\n\r\n', b'abc', 'reset'], upstreams=[dict(after=b'abc', respond=[b'xyz', 'reset'])])
    if kind == 'nul_host':
        return dict(base, client=[b'GET http://\x00\xff/ HTTP/1.1\r\nHost: \x00\r\n\r\n'], upstreams=[dict(respond=ok_resp)])
    if kind == 'upstream_send_err':
        return dict(base, client=[req], upstreams=[dict(send=[rng.choice(['pipe', 'oserror', 'reset'])], respond=ok_resp)])
    if kind in ('plugin_rejects_after_connect', 'plugin_raises_after_connect'):
        path = b'/reject-after-connect' if kind == 'plugin_rejects_after_connect' else b'/boom-after-connect'
        return dict(base, client=[b'GET http://adv.test' + path + b' HTTP/1.1\r\nHost: adv.test\r\n\r\n'] + rng.choice([[], ['EOF'], [b'more']]),
                    upstreams=[dict(respond=ok_resp)])
    big = b'HTTP/1.1 200 OK\r\nContent-Length: 60000\r\n\r\n' + b'z' * 20000
    if kind == 'pending_output_teardown':
        # output is queued for a client that never reads, then the connection is torn down irregularly
        trigger = rng.choice([b'GET http://adv.test/y HTTP/1.1\r\nHost: adv.test\r\nContent-Length: zz\r\n\r\n',
                              b'POST http://adv.test/y HTTP/1.1\r\nHost: adv.test\r\nTransfer-Encoding: chunked\r\n\r\nzz\r\n',
                              b'\xff\xfe garbage after the first request \r\n\r\n'])
        return dict(base, client=[req, ['at', 7, trigger]], client_send=[rng.choice([1, 100, 4000])], client_never_reads=True,
                    upstreams=[dict(respond=[big, b'z' * 20000, b'z' * 20000])])
    if kind == 'lingering_after_upstream_close':
        # the upstream is done (EOF / reset) while output is still queued for a slow client: the work lingers
        return dict(base, client=[req], client_send=[rng.choice([1, 100, 4000])], client_never_reads=True,
                    upstreams=[dict(respond=[big, b'z' * 40000, rng.choice(['EOF', 'reset'])])])
    if kind == 'reverse_lingering_after_upstream_close':
        # reverse proxy: the backend is done (EOF / reset) while output is still queued for a client that does not read: the
        # work lingers with a finished upstream; the canary arrives afterwards on the descriptor number the kernel recycles
        r = b'GET /rev/a HTTP/1.1\r\nHost: localhost\r\n\r\n'
        return dict(base, hosts=['rev.upstream.test'], shared_host=True, client=[r], client_send=[rng.choice([1, 100, 4000])],
                    client_never_reads=True, upstreams=[dict(respond=[big, b'z' * 40000, rng.choice(['EOF', 'EOF', 'reset'])])])
    if kind == 'reverse_short_writes':
        body = b'b' * 5000
        r = b'POST /rev/a HTTP/1.1\r\nHost: localhost\r\nContent-Length: %d\r\n\r\n' % len(body) + body
        return dict(base, hosts=['rev.upstream.test'], shared_host=True, client=[r],
                    upstreams=[dict(send=[rng.choice([1, 10, 1000])] * rng.randrange(1, 4), after=body[-8:], respond=ok_resp)])
    if kind == 'reverse_upstream_never_reads':
        body = b'b' * 5000
        r = b'POST /rev/a HTTP/1.1\r\nHost: localhost\r\nContent-Length: %d\r\n\r\n' % len(body) + body
        return dict(base, hosts=['rev.upstream.test'], shared_host=True, client=[r],
                    upstreams=[dict(send=[100], never_reads=True, respond=[])])
    raise ValueError(kind)


# adversarial BYTE streams aimed at the loops of the parsers, which run synchronously inside the worker's loop:
# malformed chunk-size lines, Content-Length oddities, header lines without a colon, non-UTF-8 — in every role
CHUNK_SIZES = [b'-5', b'+5', b'0x5', b'5_0', b' 5', b'5 ', b'-0', b'', b';ext=1', b'FFFFFFFFFFFFFFFFFFFF', b'\xff', b'5;x', b'00000000000000000005', b'-FFFFFFFF']
CL_HEADERS = [b'Content-Length: 5\r\nContent-Length: 0', b'Content-Length: 0\r\nContent-Length: 5', b'Content-Length: -1', b'Content-Length: +5',
              b'Content-Length: 99999999999999999999', b'Content-Length: five', b'Content-Length: 5, 5', b'Content-Length: 0x5', b'Content-Length: 5_0',
              b'Content-Length:', b'Content-Length: 5\r\nTransfer-Encoding: chunked']
ODD_HEADERS = [b'NoColonHere', b'X: a\r\n folded', b'\xff\xfe: v', b'X\x00Y: v', b': empty-name', b'Host', b'X: ' + b'\xff' * 10, b'Transfer-Encoding: gzip, chunked',
               b'Transfer-Encoding: chunked, chunked', b'Connection: keep-alive\r\nConnection: close']
FRAMING_ROLES = ['forward', 'web', 'reverse', 'upstream_response']


def framing_payloads(rng):
    """(what, headers, body) triples"""
    out = []
    for sz in CHUNK_SIZES:
        out.append(('chunk-size %r' % sz, b'Transfer-Encoding: chunked', sz + b'\r\nhello\r\n0\r\n\r\n'))
        out.append(('chunk-size %r then EOF' % sz, b'Transfer-Encoding: chunked', sz + b'\r\nhello'))
    for cl in CL_HEADERS:
        out.append(('content-length %r' % cl, cl, b'hello'))
    for h in ODD_HEADERS:
        out.append(('header %r' % h[:20], h, b''))
    return out


def framing_conv(rng, role, payload, name, arrive):
    what, hdr, body = payload
    ok_resp = [b'HTTP/1.1 200 OK\r\nContent-Length: 2\r\n\r\nok', 'EOF']
    base = dict(name=name, arrive=arrive, role='framing:%s:%s' % (role, what))
    if role == 'forward':
        req = b'POST http://adv.test/f HTTP/1.1\r\nHost: adv.test\r\n' + hdr + b'\r\n\r\n' + body
        return dict(base, hosts=['adv.test'], client=split_random(rng, req), upstreams=[dict(respond=ok_resp)])
    if role == 'web':
        req = b'POST /nothing HTTP/1.1\r\nHost: localhost\r\n' + hdr + b'\r\n\r\n' + body
        return dict(base, hosts=[], client=split_random(rng, req), upstreams=[])
    if role == 'reverse':
        req = b'POST /rev/a HTTP/1.1\r\nHost: localhost\r\n' + hdr + b'\r\n\r\n' + body
        return dict(base, hosts=['rev.upstream.test'], shared_host=True, client=split_random(rng, req), upstreams=[dict(respond=ok_resp)])
    # the malformed framing comes back from the upstream
    req = b'GET http://adv.test/r HTTP/1.1\r\nHost: adv.test\r\n\r\n'
    resp = b'HTTP/1.1 200 OK\r\n' + hdr + b'\r\n\r\n' + body
    return dict(base, hosts=['adv.test'], client=[req], upstreams=[dict(respond=split_random(rng, resp) + ['EOF'])])


def split_random(rng, data):
    if len(data) < 4 or rng.random() < 0.5:
        return [data]
    k = rng.randrange(1, len(data))
    return [data[:k], data[k:]]


def gen_framing(rng, n=None):
    """one adversarial framing conversation + one canary each; all (role x payload) in the thorough tier"""
    grid = [(role, pl) for role in FRAMING_ROLES for pl in framing_payloads(rng)]
    if n is not None:
        grid = rng.sample(grid, min(n, len(grid)))
    cases = []
    for role, pl in grid:
        can_kind = rng.choice(['get', 'post_split', 'chunked', 'web404'])
        convs = [canary_conv(rng, can_kind, 'c0', rng.choice([0, 1])), framing_conv(rng, role, pl, 'adv', rng.choice([0, 1]))]
        cases.append(dict(kind='http', convs=convs, adv='framing:%s:%s' % (role, pl[0])))
    return cases


def gen_http(rng, adv_kind=None):
    n_can = rng.randrange(1, 4)
    convs = []
    slots = list(range(0, 8))
    rng.shuffle(slots)
    used_rev = False
    for k in range(n_can):
        kind = rng.choice(CANARY_KINDS)
        if kind == 'reverse':
            if used_rev:
                kind = 'get'
            used_rev = True
        convs.append(canary_conv(rng, kind, 'c%d' % k, slots[k]))
    ak = adv_kind or rng.choice(ADVERSARIAL_KINDS)
    if ak.startswith('reverse') and used_rev:
        ak = 'garbage'          # the fake upstream host of the reverse route is shared: one reverse conversation per case
    convs.append(adversarial_conv(rng, ak, 'adv', slots[n_can]))
    return dict(kind='http', convs=convs, adv=ak)


HTTP_OPTS = dict(args=['--enable-web-server', '--enable-reverse-proxy'])


def http_opts():
    return dict(HTTP_OPTS, plugins=[rev_plugin(), reject_plugin()])


_REJ = None
def reject_plugin():
    """a proxy plugin that refuses a request AFTER the upstream connection was established (handle_client_request runs
    after connect_upstream), like proxy.plugin.FilterByURLRegexPlugin does: HttpRequestRejected for paths containing
    /reject-after-connect, a non-protocol exception for /boom-after-connect; everything else passes untouched"""
    global _REJ
    if _REJ is None:
        from proxy.http.proxy import HttpProxyBasePlugin
        from proxy.http.exception import HttpRequestRejected
        class C05RejectAfterConnectPlugin(HttpProxyBasePlugin):
            def handle_client_request(self, request):
                path = request.path or b''
                if b'/reject-after-connect' in path:
                    raise HttpRequestRejected(status_code=403, reason=b'Forbidden by plugin')
                if b'/boom-after-connect' in path:
                    raise RuntimeError('plugin failed after the upstream was connected')
                return request
        _REJ = C05RejectAfterConnectPlugin
    return _REJ


_REV = None
def rev_plugin():
    global _REV
    if _REV is None:
        from proxy.http.server import ReverseProxyBasePlugin
        class C05ReversePlugin(ReverseProxyBasePlugin):
            def routes(self):
                return [(r'/rev/(.*)$', [b'http://rev.upstream.test/got/'])]
        _REV = C05ReversePlugin
    return _REV


def run_http(convs):
    return X.HttpWorld(convs, opts=http_opts()).run()


def conv_view(o):
    return {k: o[k] for k in ('arrived', 'client_out', 'client_closed', 'upstream_out', 'upstream_closed', 'connect_failures', 'events')}


# ----------------------------------------------------------------------------- implementation
def run_impl(case):
    k = case['kind']
    if k in ('sched', 'asfound'):
        return X.run_schedule(case)
    if k == 'canary':
        out = X.run_schedule(case)
        out['alone'] = {}
        for wid in case['ids']:
            if wid in case['adversarial']:
                continue
            out['alone'][str(wid)] = X.run_schedule(restrict_case(case, wid))
        return out
    if k == 'http':
        joint = run_http(case['convs'])
        alone = {}
        for c in case['convs']:
            if c['name'] != 'adv':
                alone[c['name']] = run_http([c])
        return dict(joint=joint, alone=alone)
    raise ValueError(k)


def coq_term(case, out):
    k = case['kind']
    if k in ('sched', 'canary'):
        return X.coq_xcase(case, out, old=False)
    if k == 'asfound':
        return X.coq_xcase(case, out, old=True)
    return None


def work_view(out, wid):
    """what one work sees of a run: its call log (arguments included) and its registrations at every select()"""
    logs = [l for w, l in out['live'] if w == wid] + [l for w, l in out['gone'] if w == wid]
    regs = []
    for s in out['snaps'] + [out['final']]:
        regs.append([[d for w, d in s['registered'] if w == wid], [x for x in s['sel'] if x[2] == wid]])
    return dict(logs=logs, regs=regs, alive=wid in out['final']['works'])


def oracle(case, out):
    k = case['kind']
    if k == 'asfound':
        return None
    if k in ('sched', 'canary'):
        if out['status'][0] == 'crashed':
            return 'the executor loop stopped with %s' % out['status'][2]
        # C05_bookkeeping_invariant on the implementation: at every select() and at the end the selector map and
        # registered_events_by_work_ids describe each other (same descriptors, same masks, right owner)
        for n, sn in enumerate(out['snaps'] + [out['final']]):
            reg = {(wid, fd): m for wid, d in sn['registered'] for fd, m in d}
            sel = {(data, fd): m for fd, m, data in sn['sel'] if not (case.get('remote') and fd == X.WQ_FD)}
            if reg != sel:
                diff = sorted(set(reg.items()) ^ set(sel.items()))[:4]
                return ('registered_events_by_work_ids and the selector map disagree at select() #%d: %r '
                        '((work, fd), mask) entries present on one side only' % (n, diff))
        if k == 'canary':
            for wid in case['ids']:
                if wid in case['adversarial']:
                    continue
                a = out['alone'][str(wid)]
                if a['status'][0] == 'crashed':
                    return 'the executor loop stopped (work %d alone) with %s' % (wid, a['status'][2])
                if a['status'] != out['status']:
                    return 'loop status differs between the joint run and work %d alone: %r vs %r' % (wid, out['status'], a['status'])
                if work_view(out, wid) != work_view(a, wid):
                    return 'work %d is treated differently when it shares the executor with the others' % wid
        return None
    if k == 'http':
        j = out['joint']
        if j['status'][0] == 'crashed':
            return 'the executor loop stopped with %s (adversarial conversation: %s)' % (j['status'][2], case['adv'])
        if j.get('stalled'):
            return 'the worker is stalled: %s (adversarial conversation: %s)' % (j['stalled'], case['adv'])
        if j.get('blocked'):
            return ('a socket in blocking/timeout mode was asked to send without a fresh write-readiness report (%s): the call '
                    'blocks the executor loop for the socket timeout (adversarial conversation: %s)' % (j['blocked'][:3], case['adv']))
        if j.get('flags_changed'):
            return ('serving these connections changed the configuration shared by every connection of the worker (flags.%s): '
                    'later and concurrent connections are no longer served as they would be alone (adversarial conversation: %s)'
                    % (', flags.'.join(j['flags_changed']), case['adv']))
        for name, a in out['alone'].items():
            if a['status'][0] == 'crashed':
                return 'the executor loop stopped serving canary %s alone: %s' % (name, a['status'][2])
            if conv_view(j['convs'][name]) != conv_view(a['convs'][name]):
                return 'canary %s completes differently next to the adversarial conversation (%s)' % (name, case['adv'])
        return None
    return None


def nontrivial(case, out):
    k = case['kind']
    if k in ('sched', 'canary', 'asfound'):
        two = any(len(s['works']) >= 2 for s in out['snaps'])
        handled = any(c[0] == 'handle' for _, l in out['live'] + out['gone'] for c in l)
        return two and handled
    if k == 'http':
        return all(len(a['convs'][n]['client_out']) > 0 for n, a in out['alone'].items()) and len(out['alone']) > 0
    return False


def classify(case, out, failure):
    return None


def shrink(case, fails):
    """drop events / works / script entries while the oracle keeps failing"""
    if case['kind'] == 'http':
        cur = copy.deepcopy(case)
        for name in [c['name'] for c in cur['convs'] if c['name'] != 'adv']:
            if len([c for c in cur['convs'] if c['name'] != 'adv']) <= 1:
                break
            t = dict(cur, convs=[c for c in cur['convs'] if c['name'] != name])
            if fails(t):
                cur = t
        return cur
    if case['kind'] not in ('sched', 'canary'):
        return case
    cur = copy.deepcopy(case)
    changed = True
    while changed:
        changed = False
        for i in range(len(cur['events']) - 2, -1, -1):
            ev = cur['events'][i]
            if isinstance(ev.get('arrival'), dict):
                continue
            t = copy.deepcopy(cur); del t['events'][i]
            if fails(t):
                cur = t; changed = True
        for ev in cur['events']:
            for key in ('kfail', 'ready'):
                if ev.get(key):
                    for j in range(len(ev[key]) - 1, -1, -1):
                        t = copy.deepcopy(cur)
                        idx = cur['events'].index(ev)
                        del t['events'][idx][key][j]
                        if fails(t):
                            cur = t; changed = True
                            break
    return cur


def model_expr(case):
    if case['kind'] not in ('sched', 'canary', 'asfound'):
        return 'tt'
    evs = C.coq_list(X.coq_event(e) for e in case['events'])
    wq = '(Some %d%%Z)' % X.WQ_FD if case.get('remote') else 'None'
    fn = 'old_run' if case['kind'] == 'asfound' else 'new_run'
    return ('match split_last %s with Some (evs, epi) => let \'(mids, fin, s) := %s %s %d evs epi in '
            'Some (map snap_of mids, snap_of fin, status_code s, map (fun p => (fst p, s_log (snd p))) (works fin), '
            'map (fun p => (fst p, s_log (snd p))) (gone fin), oslog fin) | None => None end') % (evs, fn, wq, case['tick_limit'])


def search(rng, tier, mismatching_cases):
    """hunt for a schedule / conversation that stops the loop or disturbs a canary"""
    n = 300 if tier != 'thorough' else 3000
    for _ in range(n):
        c = X.gen_schedule(rng, adversarial_frac=0.7)
        o = X.run_schedule(c)
        f = oracle(c, o)
        if f:
            return c, f
    for ak in ADVERSARIAL_KINDS:
        c = gen_http(rng, ak)
        o = run_impl(c)
        f = oracle(c, o)
        if f:
            return c, f
    return None


# ----------------------------------------------------------------------------- extra checks (thorough tier)
def extra_checks(rng, tier):
    notes, failures = [], []
    cov = {}
    # every (entry point x raise/return) for 1 adversarial + 1 canary work: exhaustive on the implementation
    n = 0
    entry = ['init', 'get1', 'get2', 'handle', 'shutdown', 'inactive', 'modify', 'register', 'closed_fd', 'bad_mask']
    codes = [1, 5, 200] if tier != 'thorough' else [1, 3, 4, 5, 7, 200, 201, 202, 98]
    for remote in (False, True):
        for ep in entry:
            for code in codes:
                for teardown_first in (False, True):
                    c = entry_point_case(ep, code, remote, teardown_first)
                    o = run_impl(c)
                    n += 1
                    f = oracle(c, o)
                    if f:
                        failures.append(dict(case=c, out=o, what='entry point %s raising %d: %s' % (ep, code, f)))
    cov['entry_point_sweep'] = n
    if tier == 'thorough':
        try:
            live = live_worker_check(rng)
            cov['live_worker'] = live
            if live.get('failure'):
                failures.append(dict(case=dict(kind='live', what=live['failure']), out=live, what=live['failure']))
        except Exception as e:   # the live run is supporting evidence only
            notes.append('live worker run failed to start: %r' % (e,))
    # keep at most a few failures (the verdict needs one)
    return dict(failures=failures[:3], notes=notes, **cov)


def entry_point_case(ep, code, remote, teardown_first):
    bad = dict(id=21, get=[{'ev': [[21, 1], [211, 1]]}, {'ev': [[21, 1], [211, 1]]}, {'ev': [[21, 1], [211, 1]]}], handle=[{'ret': False}], inactive=[{'ret': False}])
    kf2 = []
    if ep == 'init': bad['init'] = code
    elif ep == 'get1': bad['get'][0] = {'raise': code}
    elif ep == 'get2': bad['get'][1] = {'raise': code}
    elif ep == 'handle': bad['handle'] = [{'raise': code}]
    elif ep == 'shutdown': bad['shutdown'] = code; bad['handle'] = [{'ret': True}]
    elif ep == 'inactive': bad['inactive'] = [{'raise': code}]
    elif ep == 'modify': bad['get'][1] = {'ev': [[21, 1], [211, 3]]}; kf2 = [211]
    elif ep == 'register': bad['get'][1] = {'ev': [[21, 1], [211, 1], [212, 2]]}; kf2 = [212]
    elif ep == 'closed_fd': bad['get'][1] = {'ev': [[21, 1], [-1, 1]]}
    elif ep == 'bad_mask': bad['get'][1] = {'ev': [[21, 1], [212, 0]]}
    if teardown_first and ep not in ('shutdown',):
        bad['shutdown'] = code
    can = dict(id=22, get=[{'ev': [[22, 1]]}] * 6, handle=[{'ret': False}, {'ret': False}, {'ret': True}], inactive=[{'ret': False}] * 3)
    wqr = [[X.WQ_FD, 1]] if remote else []
    events = [
        dict(ready=list(wqr), arrival=bad, fin=[21, 22], clock=100),
        dict(ready=list(wqr), arrival=can, fin=[21, 22], clock=103),
        dict(ready=[[21, 1], [22, 1]], kfail=kf2, fin=[21, 22], clock=106),
        dict(ready=[[22, 1], [211, 1]], fin=[21, 22], clock=109),
        dict(ready=[[22, 1]], fin=[21, 22], clock=112),
        dict(ready=[], fin=[21, 22], clock=115),
        dict(ready=[], fin=[21, 22], clock=118),
    ]
    return dict(kind='canary', remote=remote, tick_limit=3, events=events, ids=[21, 22], adversarial=[21])


def live_worker_check(rng):
    """supporting evidence: a live proxy.py (real sockets, real epoll, one acceptor with its local executor) serves
    canary requests while adversarial clients misbehave; the canaries must all be answered"""
    from props import exec_live as L
    return L.c05_live(rng)
