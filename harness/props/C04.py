"""C04 — each request on a persistent connection is answered in order by the right origin.

Correspondence of Net/Conversation.v with the REAL HttpProtocolHandler + HttpProxyPlugin /
HttpWebServerPlugin / ReverseProxy driven through harness/sim.py on generated CONVERSATIONS
(1-5 requests, packed into segments in every way, interleaved with upstream responses), and the
property's own statement evaluated on the implementation with h11 as the independent reference:
h11 in the client role splits what the client received into responses, h11 in the server role
splits what every upstream peer received into requests (that is also how the simulated origins
decide what to answer)."""
import re, json, itertools, logging
from unittest import mock
from urllib.parse import urlsplit
import common as C

ID = 'C04'
COQ_TARGETS = ['theories/Props/C04.vo', 'theories/Net/ConversationCases.vo']
CASE_TYPE = 'case'
CHECK_FN = 'check_case'
ANCHOR_FILES = ['proxy/http/handler.py', 'proxy/http/proxy/server.py', 'proxy/http/server/web.py',
                'proxy/http/server/reverse.py', 'proxy/http/parser/parser.py', 'proxy/core/base/tcp_upstream.py',
                'proxy/core/base/tcp_server.py']
RULE = ('cases = conversations: 1-5 requests (GET/POST/PUT/DELETE, bodies none / Content-Length / chunked, keep-alive or not, '
        'absolute-form targets naming 1-3 origins for the forward proxy, origin-form targets naming routes of 1-3 web-server plugins '
        '(tagged local plugins and/or the reverse proxy with 1-3 static routes)), PACKED into segments (one request per segment, all in '
        'one, several per segment, random cuts, cuts within +-2 of every CRLF / request boundary, inside bodies and chunk headers, '
        'single bytes), INTERLEAVED with what the simulated origins emit (every origin answers each complete request it has received, '
        'h11-parsed, with a response tagged X-Origin/X-Host/X-Req; emitted in bursts of random size at random points, all at the end, '
        'or one byte at a time), under eager or lazy flushing and short writes; plus a malformed stream (garbage between requests, '
        'invalid follow-up request lines, non-keep-alive follow-ups, CONNECT with payload in the same segment, early close by client '
        'or origin) and the corpus witnesses.  Non-trivial: at least two requests were answered on the connection, or one of the '
        'recorded defects was reproduced; distinct = distinct (configuration, script).  Connection header on any request: absent or '
        'keep-alive / Keep-Alive / KEEP-ALIVE under Connection / connection / CONNECTION; conversations ended by close / Close / CLOSE or '
        'HTTP/1.0 on the first, a middle or the last request (the oracle then requires the responses up to and including that request). '
        'extra_checks: the oracle on ALL packings into <= 3 segments of short conversations, and 6 LIVE keep-alive conversations '
        '(sequential, pipelined, mixed, two client connections, forward proxy and web server) through a real proxy.Proxy with one '
        'threadless worker on loopback against a threaded origin: one response per request, in order, connection still open')
TRUSTED = ['write side abstracted: a connection is the ordered list of pieces queued on it; delivery of exactly these bytes under every '
           'short-write pattern is C01 (flush_conservation), before teardown C07; the harness flushes everything and compares concatenations',
           'the bookkeeping response parser of HttpProxyPlugin.read_from_descriptors is absent from the model: relies on proposed_fixes/C01-guard-response-parse.diff',
           'Python re enters as cfg.re_match; the harness only uses metacharacter-free regexes, for which re.match = startswith (lit_match)',
           'h11 0.16 as the reference HTTP/1.1 framer for the oracle and for the simulated origins',
           'HttpParser / Url / builders: the shared models Http/{Parser,Url,Builders}.v (C03, C14, C15)']
ASSUMPTIONS = ['no user HttpProxyBasePlugin, --enable-conn-pool off, no TLS interception, --enable-proxy-protocol off',
               'web-server plugins are local plugins with inherited default hooks or the built-in ReverseProxy with static http routes',
               'upstream connect() succeeds (failures: C06/C12); one readable descriptor per handle_events call']
SHARD = 60


def _imports():
    """cfg constants of the tree under test, shared by all cases of a shard"""
    try:
        from proxy.common.constants import PROXY_AGENT_HEADER_VALUE
        from proxy.http.responses import (PROXY_TUNNEL_ESTABLISHED_RESPONSE_PKT, BAD_REQUEST_RESPONSE_PKT,
                                          NOT_FOUND_RESPONSE_PKT)
        via = b'1.1 ' + PROXY_AGENT_HEADER_VALUE
        ack, bad, nf = bytes(PROXY_TUNNEL_ESTABLISHED_RESPONSE_PKT), bytes(BAD_REQUEST_RESPONSE_PKT), bytes(NOT_FOUND_RESPONSE_PKT)
    except Exception:      # pragma: no cover
        via = ack = bad = nf = b''
    return ('From PM Require Import Lib.Bytes Lib.PyStr Http.Url Http.Parser Net.Conversation Net.ConversationCases.\n'
            'From Coq Require Import ZArith.\n'
            'Definition k_via : bytes := %s.\nDefinition k_ack : bytes := %s.\nDefinition k_bad : bytes := %s.\nDefinition k_nf : bytes := %s.\n'
            % (C.coq_bytes(via), C.coq_bytes(ack), C.coq_bytes(bad), C.coq_bytes(nf)))

IMPORTS = _imports()

# ----------------------------------------------------------------- requests
def wire(req):
    out = req['method'] + b' ' + req['target'] + b' ' + req['version'] + b'\r\n'
    for k, v in req['headers']:
        out += k + b': ' + v + b'\r\n'
    out += b'\r\n'
    if req.get('framing') == 'chunked':
        b = req['body']
        pos = 0
        for n in req.get('chunks') or [len(b)]:
            if n > 0 and pos < len(b):
                out += b'%x\r\n' % len(b[pos:pos + n]) + b[pos:pos + n] + b'\r\n'
                pos += n
        if pos < len(b):
            out += b'%x\r\n' % (len(b) - pos) + b[pos:] + b'\r\n'
        out += b'0\r\n\r\n'
    else:
        out += req['body']
    return out


KEEPALIVE_SPELLINGS = [b'keep-alive', b'Keep-Alive', b'KEEP-ALIVE', b'keep-Alive']
CLOSE_SPELLINGS = [b'close', b'Close', b'CLOSE']
CONNECTION_NAMES = [b'Connection', b'Connection', b'connection', b'CONNECTION']


def mk_request(rng, target, host, *, method=None, keepalive=True, body_kind=None, version=b'HTTP/1.1'):
    method = method or rng.choice([b'GET', b'GET', b'GET', b'POST', b'PUT', b'DELETE'])
    hdrs = [[rng.choice([b'Host', b'host', b'HOST']), host]]
    extra = [[b'User-Agent', b'curl/8.0'], [b'Accept', b'*/*'], [b'X-Trace', b'a:b c'], [b'Proxy-Connection', b'keep-alive'],
             [b'Cookie', b'k=v; x=y'], [b'X-Empty', b''], [b'Via', b'1.0 fred'], [b'via', b'1.1 a, 1.1 b']]
    for h in rng.sample(extra, rng.randrange(0, 3)):
        hdrs.append(list(h))
    # the Connection header: absent, or any spelling of keep-alive / close
    if not keepalive:
        hdrs.insert(rng.randrange(0, len(hdrs) + 1), [rng.choice(CONNECTION_NAMES), rng.choice(CLOSE_SPELLINGS)])
    elif rng.random() < 0.45:
        hdrs.insert(rng.randrange(0, len(hdrs) + 1), [rng.choice(CONNECTION_NAMES), rng.choice(KEEPALIVE_SPELLINGS)])
    body, framing, chunks = b'', 'none', None
    if body_kind is None:
        body_kind = rng.choice(['cl', 'chunked', 'cl0']) if method in (b'POST', b'PUT') else 'none'
    if body_kind == 'cl':
        n = rng.choice([1, 2, 5, 17, 40])
        body = bytes(rng.choice(b'abcxyz019 \r\n{}:G') for _ in range(n))
        hdrs.insert(rng.randrange(0, len(hdrs) + 1), [rng.choice([b'Content-Length', b'content-length']), b'%d' % n])
        framing = 'cl'
    elif body_kind == 'cl0':
        hdrs.append([b'Content-Length', b'0'])
        framing = 'cl'
    elif body_kind == 'chunked':
        n = rng.choice([0, 1, 3, 12, 30])
        body = bytes(rng.choice(b'abcxyz019 \r\n0') for _ in range(n))
        hdrs.append([rng.choice([b'Transfer-Encoding', b'transfer-encoding']), b'chunked'])
        framing = 'chunked'
        chunks = [rng.choice([1, 2, 5, 16]) for _ in range(4)]
    rng.shuffle(hdrs) if rng.random() < 0.2 else None
    return dict(method=method, target=target, version=version, headers=hdrs, body=body, framing=framing, chunks=chunks, hosthdr=host)


def named_origin(req):
    """(host, port, target as forwarded) of an absolute-form request — independent reference: urllib"""
    u = urlsplit(req['target'].decode('latin-1'))
    if not u.scheme or not u.hostname:
        return None
    path = u.path or '/'
    if u.query:
        path += '?' + u.query
    return (u.hostname, u.port or 80, path.encode('latin-1'))


def is_keepalive(req):
    if req['version'] != b'HTTP/1.1':
        return False
    for k, v in req['headers']:
        if k.lower() == b'connection' and v.lower() != b'keep-alive':
            return False
    return True


# ----------------------------------------------------------------- packings
def cut_at(data, cuts):
    cuts = sorted(set(c for c in cuts if 0 < c < len(data)))
    return [data[i:j] for i, j in zip([0] + cuts, cuts + [len(data)])]


def interesting_cuts(reqs_wire):
    """positions within +-2 of every CRLF and of every request boundary"""
    data = b''.join(reqs_wire)
    pos = set()
    off = 0
    for w in reqs_wire:
        off += len(w)
        pos.update(range(off - 2, off + 3))
    for m in re.finditer(b'\r\n', data):
        pos.update(range(m.start() - 1, m.start() + 4))
    return sorted(p for p in pos if 0 < p < len(data))


def rand_packing(rng, reqs_wire):
    data = b''.join(reqs_wire)
    bounds = list(itertools.accumulate(len(w) for w in reqs_wire))[:-1]
    r = rng.random()
    if r < 0.12:
        return 'one-per-segment', cut_at(data, bounds)
    if r < 0.24:
        return 'all-in-one', [data]
    if r < 0.36 and len(reqs_wire) > 1:        # 1.5 requests, then the rest
        b = bounds[0] + max(1, (len(reqs_wire[1])) // 2)
        return 'one-and-a-half', cut_at(data, [b])
    if r < 0.5:
        k = rng.randrange(1, 4)
        return 'boundary-cuts', cut_at(data, rng.sample(interesting_cuts(reqs_wire), min(k, len(interesting_cuts(reqs_wire)))))
    if r < 0.6 and len(bounds) > 1:
        return 'several-per-segment', cut_at(data, rng.sample(bounds, rng.randrange(1, len(bounds))))
    if r < 0.66 and len(data) < 260:
        return 'bytewise', [data[i:i + 1] for i in range(len(data))]
    k = rng.choice([1, 2, 3, 5, 8])
    return 'random-cuts', cut_at(data, [rng.randrange(1, len(data)) for _ in range(k)])


def interleave(rng, segs, n_up, style=None):
    """script: client segments interleaved with origin bursts"""
    style = style or rng.choice(['end', 'end', 'bursts', 'bursts', 'bursts', 'trickle', 'after-each'])
    script = []
    for seg in segs:
        script.append(['c', seg])
        if style == 'after-each':
            for k in range(n_up):
                script.append(['u', k, 100000])
        elif style == 'bursts':
            for _ in range(rng.randrange(0, 3)):
                script.append(['u', rng.randrange(n_up), rng.choice([1, 7, 30, 60, 100000])])
        elif style == 'trickle':
            for _ in range(rng.randrange(0, 4)):
                script.append(['u', rng.randrange(n_up), rng.choice([1, 2, 3])])
    if style == 'bursts':       # two bursts at the end, then the drain
        for k in range(n_up):
            script.append(['u', k, rng.choice([10, 50, 90])])
    return style, script


# ----------------------------------------------------------------- configurations
LOCAL_NAMES = [b'PlugA', b'PlugB', b'PlugC']


def web_plugins_cfg(rng, with_reverse, n_local):
    plugins = []
    for i in range(n_local):
        plugins.append(dict(type='local', name=LOCAL_NAMES[i], routes=['/%s' % 'abc'[i], '/%s%s/' % ('abc'[i], 'abc'[i])][:rng.choice([1, 2])]))
    if with_reverse:
        n = rng.choice([1, 2, 3])
        routes = []
        for j in range(n):
            host = ['up-x.example', 'up-y.example', '10.0.0.9'][j]
            port = [None, 8001, 80][rng.randrange(3)]
            path = rng.choice(['', '/base', '/', '/v1/q?x=1'])
            urls = ['http://%s%s%s' % (host, '' if port is None else ':%d' % port, path)]
            if rng.random() < 0.25:
                urls.append('http://alt-%d.example:9%03d%s' % (j, j, path))
            routes.append(['/%s' % 'xyz'[j], urls])
        rplugins = [routes] if rng.random() < 0.7 or n < 2 else [routes[:1], routes[1:]]
        plugins.append(dict(type='reverse', rplugins=rplugins))
    return plugins


def conversation(rng, mode, n, *, same=True, weird=None):
    """returns (plugins, requests)"""
    plugins, reqs = [], []
    if mode == 'forward':
        origins = [(b'a.com', None), (b'b.org', 8080), (b'10.1.2.3', 81)]
        first = rng.randrange(3)
        for i in range(n):
            o = origins[first] if (same or i == 0) else origins[rng.randrange(3)]
            hostport = o[0] + (b':%d' % o[1] if o[1] else b'')
            path = rng.choice([b'/%d' % i, b'/p/%d?q=%d' % (i, i), b'/', b''])
            reqs.append(mk_request(rng, b'http://' + hostport + path, hostport))
    else:
        with_rev = mode == 'reverse'
        n_local = rng.choice([1, 2, 3]) if mode == 'web' else rng.choice([0, 0, 1])
        plugins = web_plugins_cfg(rng, with_rev, n_local)
        names = []
        for p in plugins:
            if p['type'] == 'local':
                names += [r for r in p['routes']]
            else:
                names += [r[0] for rp in p['rplugins'] for r in rp]
        if mode == 'reverse':
            first_choices = [r[0] for p in plugins if p['type'] == 'reverse' for rp in p['rplugins'] for r in rp]
        else:
            first_choices = [r for p in plugins if p['type'] == 'local' for r in p['routes']]
        first = rng.choice(first_choices)
        for i in range(n):
            base = first if (same or i == 0) else rng.choice(names + ['/nowhere'])
            reqs.append(mk_request(rng, (base + str(i)).encode(), b'me.example'))
    return plugins, reqs


def generate(rng, tier):
    quick = tier != 'thorough'
    cases = []
    def add(kind, mode, plugins, reqs, **kw):
        ws = [wire(r) for r in reqs]
        pk, segs = kw.pop('packing', None) or rand_packing(rng, ws)
        n_up = kw.pop('n_up', 1 if mode == 'forward' else len(reqs))
        st, script = interleave(rng, segs, max(1, n_up), kw.pop('style', None))
        c = dict(kind=kind, mode=mode, plugins=plugins, requests=reqs, script=script, packing=pk, style=st,
                 flush=kw.pop('flush', rng.choice(['eager', 'eager', 'eager', 'lazy'])),
                 short=kw.pop('short', rng.choice([None, None, None, 7, 50])),
                 rewrite=kw.pop('rewrite', rng.random() < 0.3), draws=[rng.randrange(0, 5) for _ in range(6)])
        c.update(kw)
        cases.append(c)
    N = 60 if quick else 1200
    # structured stream, inside the proved class: same origin / same route
    for _ in range(N):
        n = rng.choice([1, 2, 2, 3, 3, 4, 5])
        pl, rq = conversation(rng, 'forward', n)
        add('forward/same-origin', 'forward', pl, rq)
    for _ in range(N * 2 // 3):
        n = rng.choice([1, 2, 3, 3, 4, 5])
        pl, rq = conversation(rng, 'web', n)
        add('web/same-route', 'web', pl, rq)
    for _ in range(N // 4):
        pl, rq = conversation(rng, 'reverse', 1)
        add('reverse/single', 'reverse', pl, rq)
    # a request that ends the conversation: Connection: close (any spelling) or HTTP/1.0, first / middle / last
    for mode in ('forward', 'web', 'web'):
        for _ in range(N // 5):
            n = rng.choice([1, 2, 3, 3, 4])
            pl, rq = conversation(rng, mode, n)
            i = rng.choice([0, n // 2, n - 1, n - 1])
            if rng.random() < 0.7:
                rq[i] = mk_request(rng, rq[i]['target'], rq[i]['hosthdr'], keepalive=False)
            else:
                rq[i] = mk_request(rng, rq[i]['target'], rq[i]['hosthdr'], version=b'HTTP/1.0', keepalive=rng.random() < 0.7)
            add(mode + '/ends-with-close', mode, pl, rq)
    # outside the proved class: the recorded findings
    for _ in range(N // 3):
        pl, rq = conversation(rng, 'forward', rng.choice([2, 3, 4]), same=False)
        add('forward/other-origin', 'forward', pl, rq)
    for _ in range(N // 3):
        pl, rq = conversation(rng, 'web', rng.choice([2, 3, 4]), same=False)
        add('web/other-route', 'web', pl, rq)
    for _ in range(N // 3):
        pl, rq = conversation(rng, 'reverse', rng.choice([2, 3, 4]), same=rng.random() < 0.5)
        add('reverse/follow-up', 'reverse', pl, rq)
    # boundary stream: every interesting single cut of a 3-request conversation with a chunked body in the middle
    for mode in ('forward', 'web'):
        pl, rq = conversation(rng, mode, 3)
        rq[1] = mk_request(rng, rq[1]['target'], rq[1]['hosthdr'], method=b'POST', body_kind='chunked')
        ws = [wire(r) for r in rq]
        cuts = interesting_cuts(ws)
        if quick:
            cuts = rng.sample(cuts, min(len(cuts), 25))
        for cpos in cuts:
            add(mode + '/boundary-cut', mode, pl, rq, packing=('cut@%d' % cpos, cut_at(b''.join(ws), [cpos])), flush='eager', short=None)
    # malformed stream
    for _ in range(N // 2):
        mode = rng.choice(['forward', 'forward', 'web', 'reverse'])
        pl, rq = conversation(rng, mode, rng.choice([2, 3]))
        ws = [wire(r) for r in rq]
        r = rng.randrange(8)
        extra = {}
        if r == 0:      # garbage between requests
            ws.insert(1, rng.choice([b'\r\n', b'garbage\r\n', b'\x00\xff', b'GET\r\n', b' \r\n\r\n']))
        elif r == 1:    # invalid follow-up request line
            ws[1] = b'BROKEN\r\n' + ws[1]
        elif r == 2:    # follow-up not keep-alive
            rq[1] = mk_request(rng, rq[1]['target'], rq[1]['hosthdr'], keepalive=False, method=b'GET'); ws[1] = wire(rq[1])
        elif r == 3:    # first request not keep-alive / HTTP/1.0
            rq[0] = mk_request(rng, rq[0]['target'], rq[0]['hosthdr'], keepalive=rng.random() < 0.5, method=b'GET',
                               version=rng.choice([b'HTTP/1.0', b'HTTP/1.1'])); ws[0] = wire(rq[0])
        elif r == 4:    # bad content-length in a follow-up
            ws[1] = ws[1].replace(b'\r\n\r\n', b'\r\nContent-Length: x1\r\n\r\n', 1)
        elif r == 5 and mode == 'forward':   # CONNECT with payload in the same segment
            ws = [b'CONNECT a.com:443 HTTP/1.1\r\nHost: a.com:443\r\n\r\n', b'\x16\x03\x01hello', b'more']
        elif r == 6:    # upgrade follow-up, then raw bytes
            ws[1] = ws[1].replace(b'\r\n\r\n', b'\r\nConnection: Upgrade\r\nUpgrade: h2c\r\n\r\n', 1) if b'Connection' not in ws[1] else ws[1]
            ws.append(b'raw-after-upgrade')
        else:           # early close by a peer
            extra['close'] = rng.choice(['client', 'origin'])
        if rng.random() < 0.25:     # a first request the handler rejects or that names nothing, followed by more requests
            first = rng.choice([b'GET / HTTP/2.0\r\n\r\n', b'GET /nowhere HTTP/1.1\r\nHost: x\r\n\r\n', b'GET http://a.com:0/ HTTP/1.1\r\n\r\n',
                                b'GET http://a.com:70000/ HTTP/1.1\r\n\r\n', b'GET http://caf\xe9.com/ HTTP/1.1\r\n\r\n', b'BROKEN\r\n\r\n',
                                b'GET http://a.com/ HTTP/1.0\r\n\r\n', b'POST /a9 HTTP/1.1\r\nContent-Length: 3\r\n\r\nabc',
                                b'GET /a9 HTTP/1.1\r\nConnection: Upgrade\r\nUpgrade: h2c\r\n\r\n'])
            ws = [first] + ws
        pk, segs = rand_packing(rng, ws)
        st, script = interleave(rng, segs, 1 if mode == 'forward' else len(rq))
        if extra.get('close'):
            script.insert(rng.randrange(1, len(script) + 1), ['ceof'] if extra['close'] == 'client' else ['ueof', 0])
        cases.append(dict(kind='malformed', mode=mode, plugins=pl, requests=[], script=script, packing=pk, style=st,
                          flush=rng.choice(['eager', 'lazy']), short=None, rewrite=False, draws=[0, 1, 2]))
    return cases


# ----------------------------------------------------------------- implementation
def mk_local_class(name, routes_):
    from proxy.http.server import HttpWebServerBasePlugin, httpProtocolTypes

    def routes(self):
        return [(httpProtocolTypes.HTTP, r) for r in routes_]

    def handle_request(self, request):
        body = request.body or b''
        self.client.queue(memoryview(
            b'HTTP/1.1 200 OK\r\nX-Route: ' + name + b'\r\nX-Req: ' + (request.path or b'-') +
            b'\r\nX-Method: ' + (request.method or b'-') + b'\r\nX-Body: ' + str(len(body)).encode() +
            b'\r\nContent-Length: 2\r\n\r\nok'))
    return type('C04Local_' + name.decode(), (HttpWebServerBasePlugin,),
                dict(routes=routes, handle_request=handle_request, _c04=('local', name, list(routes_))))


def mk_rev_class(idx, rts):
    from proxy.http.server import ReverseProxyBasePlugin
    table = [(r[0], [u.encode() for u in r[1]]) for r in rts]

    def routes(self):
        return list(table)
    return type('C04Rev_%d' % idx, (ReverseProxyBasePlugin,), dict(routes=routes, _c04=('rev', table)))


def build_flags(case):
    import sim
    classes, has_local, has_rev = [], False, False
    for p in case.get('plugins', []):
        if p['type'] == 'local':
            classes.append(mk_local_class(bytes(p['name']), p['routes'])); has_local = True
        else:
            for j, rp in enumerate(p['rplugins']):
                classes.append(mk_rev_class(j, rp))
            has_rev = True
    args = ['--log-level', 'c']
    if has_local and not has_rev:
        args.append('--enable-web-server')
    if has_rev:
        args.append('--enable-reverse-proxy')
    if case.get('rewrite'):
        args.append('--rewrite-host-header')
    return sim.make_flags(args=args, plugins=classes) if classes else sim.make_flags(args=args)


def snapshot_cfg(fl):
    """the configuration as the loaded flags present it (plugin order = loading order)"""
    hp = [k.__name__ for k in fl.plugins.get(b'HttpProtocolHandlerPlugin', [])]
    plugins, routes, table = [], [], []
    for idx, klass in enumerate(fl.plugins.get(b'HttpWebServerBasePlugin', [])):
        if klass.__name__ == 'ReverseProxy':
            rps = []
            for rk in fl.plugins.get(b'ReverseProxyBasePlugin', []):
                rps.append([[r, list(us)] for r, us in rk._c04[1]])
                for r, us in rk._c04[1]:
                    routes.append([r, idx]); table.append(('reverse', None, r, list(us)))
            plugins.append(dict(type='reverse', rplugins=rps))
        elif hasattr(klass, '_c04'):
            plugins.append(dict(type='local', name=klass._c04[1]))
            for r in klass._c04[2]:
                routes.append([r, idx]); table.append(('local', klass._c04[1], r, None))
        else:
            raise RuntimeError('unexpected web plugin %s' % klass.__name__)
    return dict(has_proxy='HttpProxyPlugin' in hp, has_web='HttpWebServerPlugin' in hp,
                static=bool(getattr(fl, 'enable_static_server', False)), rewrite=bool(getattr(fl, 'rewrite_host_header', False)),
                disable_headers=[bytes(x) for x in (fl.disable_headers or [])], plugins=plugins, routes=routes), table


class Origin:
    """a simulated origin server on one upstream socket: h11 (server role) frames what it has
    received; every complete request is answered with a tagged response"""
    def __init__(self, k, addr):
        import h11
        self.h11 = h11
        self.k, self.addr = k, addr
        self.conn = h11.Connection(our_role=h11.SERVER, max_incomplete_event_size=1 << 20)
        self.fed = 0
        self.answers = b''
        self.emitted = 0
        self.requests = []         # (method, target, body length)
        self.broken = None
        self.finished = False
        self.cur = None

    def feed(self, out):
        h11 = self.h11
        if self.broken or self.finished or len(out) == self.fed:
            return
        self.conn.receive_data(out[self.fed:])
        self.fed = len(out)
        while True:
            try:
                ev = self.conn.next_event()
            except h11.RemoteProtocolError as e:
                self.broken = str(e); return
            if ev is h11.NEED_DATA or ev is h11.PAUSED:
                return
            if isinstance(ev, h11.Request):
                self.cur = [bytes(ev.method), bytes(ev.target), 0]
            elif isinstance(ev, h11.Data):
                self.cur[2] += len(ev.data)
            elif isinstance(ev, h11.EndOfMessage):
                m, t, n = self.cur
                self.requests.append((m, t, n))
                self.answers += self.response(m, t, n)
                try:       # tell h11 the exchange is over so that it frames the next request
                    self.conn.send(h11.Response(status_code=200, headers=[('content-length', '0')]))
                    self.conn.send(h11.EndOfMessage())
                    if self.conn.our_state is h11.MUST_CLOSE:
                        # Connection: close / HTTP/1.0 without keep-alive: the origin answers this request and
                        # nothing after it (it would close; we just stop, a close is a separate script op)
                        self.finished = True; return
                    self.conn.start_next_cycle()
                except h11.LocalProtocolError as e:
                    self.broken = 'cycle: %s' % e; return
            elif isinstance(ev, h11.ConnectionClosed):
                return

    def response(self, method, target, nbody):
        head = (b'HTTP/1.1 200 OK\r\nX-Origin: up%d\r\nX-Host: %s:%d\r\nX-Req: %s\r\nX-Method: %s\r\nX-Body: %d\r\n'
                % (self.k, self.addr[0].encode(), self.addr[1], target, method, nbody))
        if len(target) % 3 == 0:
            return head + b'Transfer-Encoding: chunked\r\n\r\n2\r\nok\r\n3\r\nay!\r\n0\r\n\r\n'
        return head + b'Content-Length:2\r\n\r\nok'

    def take(self, n):
        raw = self.answers[self.emitted:self.emitted + n]
        self.emitted += len(raw)
        return raw


def run_impl(case):
    if case.get('live'):
        return dict(live_problem=run_live([case['live']])[case['live']], events=[])
    import sim
    logging.disable(logging.CRITICAL)
    fl = build_flags(case)
    cfg, table = snapshot_cfg(fl)
    out = dict(cfg=cfg, events=[], table=[[a, b, c_, d] for a, b, c_, d in table])
    draws = list(case.get('draws') or [])
    used = []

    def choice(seq):
        d = draws.pop(0) if draws else 0
        used.append(d)
        if not len(seq):
            raise IndexError('Cannot choose from an empty sequence')
        return seq[d % len(seq)]

    with mock.patch('random.choice', choice), sim.Sim(flags=fl) as s:
        short = case.get('short')
        if short:
            s.client.script_send(*([short] * 4000))
            s.on_connect = lambda sock: sock.script_send(*([short] * 4000))
        origins = []
        raised = []

        def note(r):
            if isinstance(r, tuple) and r[0] == 'raised':
                raised.append(r[1])

        def flush():
            if not s.torn:
                out['events'].append(['f'])
            for _ in range(20000):
                if s.torn:
                    return
                names, _ev = s.interest()
                w = [n for n, m in names.items() if 'w' in m]
                if not w:
                    return
                note(s.step(r=[], w=w))
            raise RuntimeError('flush did not terminate')

        def sync():
            for k, u in enumerate(s.upstreams):
                if k >= len(origins):
                    origins.append(Origin(k, s.connect_log[k]))
                origins[k].feed(u.out)

        lazy = case.get('flush') == 'lazy'
        for op in case['script']:
            if s.torn:
                break
            if op[0] == 'c':
                seg = bytes(op[1])
                if not seg:
                    continue
                s.client.feed(seg)
                out['events'].append(['c', seg])
                note(s.step(r=['client'], w=[]))
            elif op[0] == 'ceof':
                s.client.feed(sim.EOF)
                out['events'].append(['ceof'])
                note(s.step(r=['client'], w=[]))
            elif op[0] == 'f':
                flush(); sync()
                continue
            elif op[0] in ('u', 'ueof'):
                k = op[1]
                sync()
                if k >= len(s.upstreams):
                    continue
                if op[0] == 'u':
                    raw = origins[k].take(op[2])
                    if not raw:
                        continue
                    s.upstreams[k].feed(raw)
                    out['events'].append(['u', k, raw])
                else:
                    s.upstreams[k].feed(sim.EOF)
                    out['events'].append(['ueof', k])
                note(s.step(r=['up%d' % k], w=[]))
            if not lazy:
                flush(); sync()
        # drain: everything is flushed, every origin emits all its answers, until nothing moves
        for _ in range(50):
            if s.torn:
                break
            flush(); sync()
            moved = False
            for k, o in enumerate(origins):
                raw = o.take(1 << 30)
                if raw and not s.torn:
                    s.upstreams[k].feed(raw)
                    out['events'].append(['u', k, raw])
                    note(s.step(r=['up%d' % k], w=[]))
                    moved = True
            if not moved:
                break
        if not s.torn:
            flush()
        sync()
        out['connect_log'] = [[h, p] for h, p in s.connect_log]
        out['up'] = [u.out for u in s.upstreams]
        out['client'] = s.client.out
        out['status'] = (1000 + C.exn_code(raised[0])) if raised and type(raised[0]).__name__ != 'HttpProtocolException' else (1 if s.torn else 0)
        out['raised'] = [repr(e)[:200] for e in raised]
        h = s.h
        if h.plugin is None:
            pend = (not h.request.is_complete) and h.request.total_size > 0
        else:
            pr = getattr(h.plugin, 'pipeline_request', None)
            pend = pr is not None and not pr.is_complete
        out['pending'] = bool(pend)
        out['draws_used'] = used
        out['origin_requests'] = [[list(map(lambda x: x, r)) for r in o.requests] for o in origins]
        out['origin_broken'] = [o.broken for o in origins]
        out['origin_unread'] = [len(u.inq) for u in s.upstreams]
        out['upstream_closed'] = [bool(u.closed) for u in s.upstreams]
    return out


# ----------------------------------------------------------------- live runs through the REAL executor
# The simulated I/O layer drives HttpProtocolHandler directly: every descriptor the handler is interested in is
# served.  Whether the Threadless executor (selector registration bookkeeping, acceptor hand-over) keeps serving
# the descriptors of a connection AFTER its first exchange is outside that layer; these few keep-alive
# conversations through a real proxy.Proxy on loopback (1 acceptor, 1 threadless worker) against a small threaded
# origin close that gap: one response per request, in order, from the named origin, connection still open.
LIVE_TIMEOUT = 4.0
LIVE_SCENARIOS = ['forward-sequential', 'forward-pipelined', 'forward-one-then-two', 'forward-two-connections',
                  'web-sequential', 'web-pipelined']


class LiveOrigin:
    """keep-alive origin on loopback: answers every request with a body naming its own port, the method, the
    path and the request body"""
    def __init__(self):
        import socket, threading
        self.sock = socket.socket(socket.AF_INET, socket.SOCK_STREAM)
        self.sock.setsockopt(socket.SOL_SOCKET, socket.SO_REUSEADDR, 1)
        self.sock.bind(('127.0.0.1', 0))
        self.sock.listen(8)
        self.sock.settimeout(0.2)
        self.port = self.sock.getsockname()[1]
        self.stop = threading.Event()
        self.seen = []
        self.thread = threading.Thread(target=self.accept_loop, daemon=True)
        self.thread.start()

    def accept_loop(self):
        import socket, threading
        while not self.stop.is_set():
            try:
                conn, _ = self.sock.accept()
            except socket.timeout:
                continue
            except OSError:
                return
            threading.Thread(target=self.serve, args=(conn,), daemon=True).start()

    def serve(self, conn):
        import socket
        conn.settimeout(0.2)
        buf = b''
        try:
            while not self.stop.is_set():
                try:
                    data = conn.recv(65536)
                except socket.timeout:
                    continue
                if not data:
                    return
                buf += data
                while b'\r\n\r\n' in buf:
                    head, rest = buf.split(b'\r\n\r\n', 1)
                    lines = head.split(b'\r\n')
                    clen = 0
                    for line in lines[1:]:
                        k, _, v = line.partition(b':')
                        if k.strip().lower() == b'content-length':
                            clen = int(v.strip())
                    if len(rest) < clen:
                        break
                    body, buf = rest[:clen], rest[clen:]
                    method, path, _ = lines[0].split(b' ', 2)
                    self.seen.append(lines[0])
                    payload = b'%d %s %s %s' % (self.port, method, path, body)
                    conn.sendall(b'HTTP/1.1 200 OK\r\nContent-Length: %d\r\n\r\n%s' % (len(payload), payload))
        except OSError:
            pass
        finally:
            conn.close()

    def close(self):
        self.stop.set()
        self.sock.close()


def live_read_response(sock, buf):
    """one Content-Length framed response: (body | None, leftover)"""
    import time, socket
    deadline = time.time() + LIVE_TIMEOUT
    while time.time() < deadline:
        if b'\r\n\r\n' in buf:
            head, rest = buf.split(b'\r\n\r\n', 1)
            clen = 0
            for line in head.split(b'\r\n')[1:]:
                k, _, v = line.partition(b':')
                if k.strip().lower() == b'content-length':
                    clen = int(v.strip())
            if len(rest) >= clen:
                return rest[:clen], rest[clen:]
        try:
            data = sock.recv(65536)
        except socket.timeout:
            continue
        except OSError:
            return None, buf
        if not data:
            return None, buf
        buf += data
    return None, buf


def live_conversation(port, sends, expected):
    """sends: list of byte strings (one sendall each; after each one all responses it completes are awaited);
    expected: per send the list of expected bodies.  Returns a problem description or None."""
    import socket
    c = socket.create_connection(('127.0.0.1', port), timeout=LIVE_TIMEOUT)
    c.settimeout(0.3)
    buf = b''
    n = 0
    try:
        for raw, bodies in zip(sends, expected):
            c.sendall(raw)
            for want in bodies:
                n += 1
                body, buf = live_read_response(c, buf)
                if body is None:
                    return 'request %d on the connection got no response within %.0f s' % (n, LIVE_TIMEOUT)
                if want is not None and body != want:
                    return 'request %d answered with %r, expected %r' % (n, body[:80], want[:80])
        if buf:
            return 'unexpected extra bytes %r' % buf[:80]
        # still usable: the connection must not have been closed by the proxy
        c.settimeout(0.2)
        try:
            if c.recv(1) == b'':
                return 'the proxy closed the keep-alive connection after the conversation'
        except socket.timeout:
            pass
        except OSError as e:
            return 'connection error after the conversation: %r' % e
    finally:
        c.close()
    return None


def live_scenario(name, port, o1, o2):
    def rq(o, method, path, body=b'', extra=b''):
        hp = b'127.0.0.1:%d' % o.port
        h = b'%s http://%s%s HTTP/1.1\r\nHost: %s\r\n%s' % (method, hp, path, hp, extra)
        if body:
            h += b'Content-Length: %d\r\n' % len(body)
        return h + b'\r\n' + body, b'%d %s %s %s' % (o.port, method, path, body)
    W = b'GET /http-route-example HTTP/1.1\r\nHost: localhost\r\n%s\r\n'
    if name == 'forward-sequential':
        r = [rq(o1, b'GET', b'/one'), rq(o1, b'POST', b'/two', b'hello'), rq(o1, b'GET', b'/three', extra=b'Connection: Keep-Alive\r\n')]
        return live_conversation(port, [x[0] for x in r], [[x[1]] for x in r])
    if name == 'forward-pipelined':
        r = [rq(o1, b'GET', b'/p1'), rq(o1, b'PUT', b'/p2', b'abc'), rq(o1, b'GET', b'/p3')]
        return live_conversation(port, [b''.join(x[0] for x in r)], [[x[1] for x in r]])
    if name == 'forward-one-then-two':
        r = [rq(o1, b'GET', b'/a'), rq(o1, b'POST', b'/b', b'xy'), rq(o1, b'DELETE', b'/c')]
        return live_conversation(port, [r[0][0], r[1][0] + r[2][0]], [[r[0][1]], [r[1][1], r[2][1]]])
    if name == 'forward-two-connections':      # two client connections served by the same worker, each to its own origin
        for o in (o1, o2):
            r = [rq(o, b'GET', b'/x'), rq(o, b'GET', b'/y')]
            p = live_conversation(port, [x[0] for x in r], [[x[1]] for x in r])
            if p:
                return 'origin %d: %s' % (o.port, p)
        return None
    if name == 'web-sequential':
        return live_conversation(port, [W % b'Connection: Keep-Alive\r\n', W % b'', W % b'connection: keep-alive\r\n'],
                                 [[b'HTTP route response']] * 3)
    if name == 'web-pipelined':
        return live_conversation(port, [(W % b'') * 3], [[b'HTTP route response'] * 3])
    raise ValueError(name)


def run_live(names):
    """{scenario: problem | None} through one real proxy instance"""
    import proxy, socket, time
    logging.disable(logging.NOTSET)
    res = {}
    o1, o2 = LiveOrigin(), LiveOrigin()
    try:
        with proxy.Proxy(['--hostname', '127.0.0.1', '--port', '0', '--num-acceptors', '1', '--num-workers', '1',
                          '--log-level', 'CRITICAL', '--enable-web-server'], plugins=[b'proxy.plugin.WebServerPlugin']) as p:
            port = p.flags.port
            ok = False
            for _ in range(25):      # the first connection can be accepted by the kernel before the workers are up
                try:
                    s = socket.create_connection(('127.0.0.1', port), timeout=1.0)
                    s.settimeout(1.0)
                    s.sendall(b'GET /warm-up HTTP/1.1\r\nHost: localhost\r\n\r\n')
                    ok = bool(s.recv(65536))
                    s.close()
                except OSError:
                    ok = False
                if ok:
                    break
                time.sleep(0.2)
            if not ok:
                return {n: 'live proxy did not come up' for n in names}
            for n in names:
                try:
                    res[n] = live_scenario(n, port, o1, o2)
                except Exception as e:
                    res[n] = 'live driver: %r' % e
    finally:
        o1.close(); o2.close()
        logging.disable(logging.CRITICAL)
    return res


# ----------------------------------------------------------------- Coq terms
def coq_event(ev):
    if ev[0] == 'c':
        return '(EClient %s)' % C.coq_bytes(ev[1])
    if ev[0] == 'ceof':
        return 'EClientEof'
    if ev[0] == 'f':
        return 'EFlush'
    if ev[0] == 'u':
        return '(EUp %d %s)' % (ev[1], C.coq_bytes(ev[2]))
    return '(EUpEof %d)' % ev[1]


def coq_cfg(cfg):
    pls = []
    for p in cfg['plugins']:
        if p['type'] == 'local':
            pls.append('(CLocal %s)' % C.coq_bytes(p['name']))
        else:
            pls.append('(CReverse %s)' % C.coq_list(
                C.coq_list(C.coq_pair(C.coq_bytes(r.encode()), C.coq_list(C.coq_bytes(u) for u in us)) for r, us in rp)
                for rp in p['rplugins']))
    routes = C.coq_list(C.coq_pair(C.coq_bytes(r.encode()), '%d%%nat' % i) for r, i in cfg['routes'])
    return '(mkCC k_via %s k_ack k_bad k_nf %s %s %s %s %s %s)' % (
        C.coq_list(C.coq_bytes(x) for x in cfg['disable_headers']), C.coq_bool(cfg['has_proxy']), C.coq_bool(cfg['has_web']),
        C.coq_bool(cfg['static']), C.coq_bool(cfg['rewrite']), routes, C.coq_list(pls))


def coq_term(case, out):
    if case.get('live'):
        return None
    x = '(mkX %s %s %s %d %s)' % (
        C.coq_list(C.coq_pair(C.coq_bytes(h.encode()), '(%d)%%Z' % p) for h, p in out['connect_log']),
        C.coq_list(C.coq_bytes(u) for u in out['up']), C.coq_bytes(out['client']), out['status'], C.coq_bool(out['pending']))
    return '(Case %s %s %s %s)' % (coq_cfg(out['cfg']), C.coq_list('%d%%nat' % d for d in (case.get('draws') or [])),
                                   C.coq_list(coq_event(e) for e in out['events']), x)


def model_expr(case):
    out = run_impl(case)
    return 'model_obs %s %s %s' % (coq_cfg(out['cfg']), C.coq_list('%d%%nat' % d for d in (case.get('draws') or [])),
                                   C.coq_list(coq_event(e) for e in out['events']))


# ----------------------------------------------------------------- the property on the implementation
def parse_responses(reqs, data):
    """h11 in the client role: split the client's stream into responses; returns (responses, leftover/err)"""
    import h11
    conn = h11.Connection(our_role=h11.CLIENT, max_incomplete_event_size=1 << 20)
    conn.receive_data(data)
    res = []
    for rq in reqs:
        try:
            conn.send(h11.Request(method=rq['method'], target=rq['target'] or b'/', headers=[(b'host', b'x')]))
            conn.send(h11.EndOfMessage())
        except h11.LocalProtocolError as e:
            return res, 'client-side h11: %s' % e
        cur = None
        while True:
            try:
                ev = conn.next_event()
            except h11.RemoteProtocolError as e:
                return res, 'not a response stream: %s' % e
            if ev is h11.NEED_DATA:
                return res, None if cur is None else 'truncated response'
            if isinstance(ev, h11.Response):
                cur = dict(status=ev.status_code, headers={bytes(k): bytes(v) for k, v in ev.headers}, body=b'')
            elif isinstance(ev, h11.Data):
                cur['body'] += bytes(ev.data)
            elif isinstance(ev, h11.EndOfMessage):
                res.append(cur)
                break
            elif isinstance(ev, h11.ConnectionClosed):
                return res, None
        try:
            conn.start_next_cycle()
        except h11.LocalProtocolError as e:
            return res, 'cycle: %s' % e
    try:
        ev = conn.next_event()
        if ev is not h11.NEED_DATA and ev is not h11.PAUSED:
            return res, 'extra data after the last response'
    except h11.RemoteProtocolError as e:
        return res, 'extra bytes: %s' % e
    if conn.trailing_data[0]:
        return res, 'extra bytes after the last response'
    return res, None


def expected_tags(case, out):
    """per request: dict of header -> expected value, from what the request NAMES (urllib / re)"""
    exp = []
    table = [tuple(t) for t in out['table']]
    for rq in case['requests']:
        if case['mode'] == 'forward':
            o = named_origin(rq)
            exp.append({b'x-host': ('%s:%d' % (o[0], o[1])).encode(), b'x-req': o[2], b'x-method': rq['method'],
                        b'x-body': b'%d' % len(rq['body'])})
        else:
            hit = None
            for kind, name, regex, urls in table:
                if re.compile(regex).match(rq['target'].decode('latin-1')):
                    hit = (kind, name, urls); break
            if hit is None:
                exp.append(None)            # names no route: 404
            elif hit[0] == 'local':
                exp.append({b'x-route': bytes(hit[1]), b'x-req': rq['target'], b'x-method': rq['method'], b'x-body': b'%d' % len(rq['body'])})
            else:
                alts = []
                for u in hit[2]:
                    us = urlsplit(bytes(u).decode('latin-1'))
                    p = us.path + ('?' + us.query if us.query else '')
                    alts.append({b'x-host': ('%s:%d' % (us.hostname, us.port or 80)).encode(), b'x-req': (p or '/').encode(),
                                 b'x-method': rq['method'], b'x-body': b'%d' % len(rq['body'])})
                exp.append(alts)
    return exp


def oracle(case, out):
    if case.get('live'):
        return out.get('live_problem')
    reqs = case.get('requests') or []
    if case.get('expect_up') is not None:       # tunnels: what the upstream peers must have received
        if [bytes(u) for u in out['up']] != [bytes(u) for u in case['expect_up']]:
            return 'upstream peers received %r, expected %r' % ([bytes(u)[:80] for u in out['up']], [bytes(u)[:80] for u in case['expect_up']])
    if not reqs or case.get('kind') == 'malformed':
        return None
    exp = expected_tags(case, out)
    # a request that is not keep-alive (Connection: close in any spelling, HTTP/1.0) legitimately ends the
    # conversation after its response: requests up to and including it MUST be answered, later ones need not be
    k = next((i for i, r in enumerate(reqs) if not is_keepalive(r)), None)
    must = len(reqs) if k is None else k + 1
    complete = all(e is not None for e in exp[:must])
    res, err = parse_responses(reqs, out['client'])
    if err:
        return 'client stream: ' + err
    if len(res) > len(reqs):
        return 'more responses than requests'
    for i, (r, e) in enumerate(zip(res, exp)):
        if e is None:
            if r['status'] != 404:
                return 'request %d names no route but was answered %d by %r' % (i + 1, r['status'], r['headers'].get(b'x-route') or r['headers'].get(b'x-host'))
            continue
        alts = e if isinstance(e, list) else [e]
        if not any(all(r['headers'].get(k_) == v for k_, v in a.items()) for a in alts):
            got = {k_.decode(): r['headers'].get(k_) for k_ in alts[0]}
            return 'response %d is not the answer of what request %d names: expected %r, got %r' % (i + 1, i + 1, alts[0], got)
    if complete:
        if len(res) < must:
            return '%d requests must be answered (%d sent%s), %d responses' % (
                must, len(reqs), '' if k is None else ', request %d ends the conversation' % (k + 1), len(res))
        if k is None:
            if out['status'] != 0:
                return 'connection not usable after the conversation (status %d %s)' % (out['status'], out.get('raised'))
            if out['pending']:
                return 'a request is still waiting in the parser although every request was sent completely'
    # every origin got well-formed requests, each exactly once
    for kk, b in enumerate(out.get('origin_broken') or []):
        if b:
            return 'upstream %d received something that is not a request stream: %s' % (kk, b)
    if complete and k is None and case['mode'] == 'forward':
        got = sorted((bytes(m), bytes(t)) for o in out['origin_requests'] for m, t, n in o)
        want = sorted((r['method'], named_origin(r)[2]) for r in reqs)
        if got != want:
            return 'requests received by the origins %r differ from the requests sent %r' % (got, want)
    return None


def nontrivial(case, out):
    if case.get('live'):
        return out.get('live_problem') is None
    res, err = parse_responses(case.get('requests') or [], out['client']) if case.get('requests') else ([], None)
    return len(res) >= 2 or (case.get('kind') == 'malformed' and len(out.get('events', [])) >= 2)


def classify(case, out, failure):
    """a failure is attributed to a recorded finding only when the case is in the finding's class AND the
    implementation did exactly what the finding says (so another defect in such a case is not masked)"""
    reqs = case.get('requests') or []
    if len(reqs) < 2 or failure == 'model-mismatch' or case.get('kind') == 'malformed':
        return None
    if not all(is_keepalive(r) for r in reqs):
        return None
    res, err = parse_responses(reqs, out['client'])
    if case['mode'] == 'forward':
        first = named_origin(reqs[0])
        if all(named_origin(r)[:2] == first[:2] for r in reqs[1:]):
            return None
        # the finding: ONE connection, to the first origin, received every request, in order, and answered them all
        got = [(bytes(m), bytes(t)) for m, t, n in (out['origin_requests'][0] if out['origin_requests'] else [])]
        want = [(r['method'], named_origin(r)[2]) for r in reqs]
        if out['connect_log'] == [[first[0], first[1]]] and got == want and len(res) == len(reqs) and not err and \
                all(r['headers'].get(b'x-origin') == b'up0' for r in res):
            return 'C04-other-origin'
        return None
    exp = expected_tags(case, out)
    def key(e):
        return None if e is None else ('rev' if isinstance(e, list) else e.get(b'x-route'))
    if key(exp[0]) == 'rev':
        # the finding: every request matching a reverse-proxy route opened its OWN connection, which was sent at most that one request
        n_rev = sum(1 for e in exp if key(e) == 'rev')
        if len(out['connect_log']) == n_rev and all(len(o) <= 1 for o in out['origin_requests']):
            return 'C04-reverse-followup'
        return None
    if key(exp[0]) is not None and any(key(e) != key(exp[0]) for e in exp[1:]):
        # the finding: the plugin of the first request answered every request
        if not err and len(res) == len(reqs) and all(r['headers'].get(b'x-route') == key(exp[0]) for r in res) and \
                [r['headers'].get(b'x-req') for r in res] == [r['target'] for r in reqs]:
            return 'C04-web-followup-route'
    return None


def shrink(case, fails):
    """drop requests from the end, then merge segments"""
    best = case
    reqs = case.get('requests') or []
    for n in range(2, len(reqs)):
        c = dict(case); c['requests'] = reqs[:n]
        ws = [wire(r) for r in c['requests']]
        c['script'] = [['c', w] for w in ws]
        if fails(c):
            return c
    return best


def extra_checks(rng, tier):
    """the property on the implementation for ALL packings into <= 3 segments of short conversations (<= 3 requests)"""
    fails, n = [], 0
    convs = []
    for mode in ('forward', 'web'):
        for k in (2, 3):
            pl, rq = conversation(rng, mode, k)
            for r in rq:       # keep them short
                r['headers'] = [h for h in r['headers'] if h[0].lower() in (b'host', b'content-length', b'transfer-encoding')]
            if k == 3:
                rq[1] = mk_request(rng, rq[1]['target'], rq[1]['hosthdr'], method=b'POST', body_kind='chunked')
                rq[1]['headers'] = [h for h in rq[1]['headers'] if h[0].lower() in (b'host', b'transfer-encoding')]
            convs.append((mode, pl, rq))
    for mode, pl, rq in convs:
        ws = [wire(r) for r in rq]
        data = b''.join(ws)
        L = len(data)
        cutsets = [[a] for a in range(1, L)]
        if tier == 'thorough':
            cutsets += [[a, b] for a in range(1, L) for b in range(a + 1, L)]
        else:
            cutsets += [sorted(rng.sample(range(1, L), 2)) for _ in range(60)]
        for cs in cutsets:
            case = dict(kind=mode + '/all-packings', mode=mode, plugins=pl, requests=rq,
                        script=[['c', s] for s in cut_at(data, cs)], flush='eager', short=None, rewrite=False, draws=[])
            out = run_impl(case)
            n += 1
            f = oracle(case, out)
            if f and len(fails) < 3:
                fails.append(dict(case=case, out=out, what=f))
    notes = ['all-packings sweep on the implementation: %d packings of %d conversations' % (n, len(convs))]
    live = run_live(LIVE_SCENARIOS)
    for name, problem in live.items():
        if problem:
            case = dict(kind='live/' + name, live=name, mode='live', requests=[], script=[])
            fails.append(dict(case=case, out=dict(live_problem=problem, events=[]), what='live run through the real executor, %s: %s' % (name, problem)))
    notes.append('live keep-alive conversations through a real proxy.Proxy (1 acceptor, 1 threadless worker) on loopback: %d scenarios, %d failed'
                 % (len(live), sum(1 for v in live.values() if v)))
    return dict(failures=fails, notes=notes, packings_swept=n, live_scenarios=len(live))
