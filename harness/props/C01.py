"""C01 — relayed byte streams arrive exactly once, in order, unmodified.
Correspondence of Net/Conn.v (TcpConnection) and Net/Handler.v (HttpProtocolHandler + HttpProxyPlugin relay)
with the real classes driven through harness/sim.py, plus the property's own statement on the implementation."""
import common as C
from props import net_common as NC

ID = 'C01'
COQ_TARGETS = ['theories/Props/C01.vo', 'theories/Net/ConnCases.vo']
IMPORTS = 'From PM Require Import Lib.Bytes Net.Conn Net.ConnCases.'
CASE_TYPE = 'conn_case'
CHECK_FN = 'check_conn_case'
ANCHOR_FILES = ['proxy/core/connection/connection.py', 'proxy/core/base/tcp_server.py', 'proxy/http/handler.py',
                'proxy/http/proxy/server.py', 'proxy/core/base/tcp_tunnel.py']
RULE = 'conn cases = op lists over queue/flush(max, send outcome)/close on a real TcpClientConnection around a fake socket'
TRUSTED = []
ASSUMPTIONS = []
SHARD = 200


def generate(rng, tier):
    cases = []
    n = 150 if tier != 'thorough' else 3000
    for _ in range(n):
        cases.append(dict(kind='conn', ops=NC.gen_conn_ops(rng, rng.choice([3, 8, 15, 30]))))
    return cases


def run_impl(case):
    if case['kind'] == 'conn':
        return NC.run_conn_ops(case['ops'])
    raise ValueError(case['kind'])


def coq_term(case, out):
    if case['kind'] == 'conn':
        return NC.coq_conn_case(case['ops'], out)


def oracle(case, out):
    if case['kind'] == 'conn':
        return NC.conn_oracle(case['ops'], out)


def nontrivial(case, out):
    if case['kind'] == 'conn':
        return len(out['out']) > 0
    return False
