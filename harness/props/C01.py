"""C01 — relayed byte streams arrive exactly once, in order, unmodified.
Correspondence of Net/Conn.v (TcpConnection), Net/Handler.v (HttpProtocolHandler + HttpProxyPlugin relay) and
Net/Tunnel.v (BaseTcpTunnelHandler) with the real classes driven through harness/sim.py, plus the property's own
statement evaluated on the implementation (independent of the model)."""
import os, socket, time
import common as C
from props import net_common as NC

ID = 'C01'
COQ_TARGETS = ['theories/Props/C01.vo', 'theories/Net/RelayCases.vo']
IMPORTS = NC.net_imports()
CASE_TYPE = 'net_case'
CHECK_FN = 'check_net_case'
ANCHOR_FILES = ['proxy/core/connection/connection.py', 'proxy/core/base/tcp_server.py', 'proxy/http/handler.py',
                'proxy/http/proxy/server.py', 'proxy/core/base/tcp_tunnel.py']
RULE = ('conn cases = op lists over queue / flush(max_send, scripted send outcome) / close on a real TcpClientConnection around a '
        'fake socket; relay cases = event lists (ready descriptors + outcome of every recv/send: data piece, EOF, reset, timeout, '
        'Accept k, would-block, broken pipe) driving the real HttpProtocolHandler+HttpProxyPlugin (or the BaseTcpTunnelHandler '
        'subclass of examples/) one handle_events() call per event with max_sendbuf_size 1..9: CONNECT tunnels with random binary '
        'data both ways, HTTP exchanges with well-formed responses in every framing (CL, chunked +extensions +trailers, '
        'close-delimited, 1xx, pipelined) under random segmentation, a separate malformed-upstream stream, web/404/bad-request/'
        'connect-failure first requests; a case is non-trivial when an exchange was established, upstream bytes were relayed and '
        'at least one send was short or blocked; distinct = distinct inputs')
TRUSTED = ['the first-request parser / plugin dispatch and the pipelined-request parser are ABSTRACT in Net/Handler.v: their outcome per '
           'handle_data call (incomplete / rejected with these pieces / proxied, tunnel?, rebuilt bytes / served locally) is read off '
           'the real objects at the handle_data boundary and given to the model as the oracle of that event',
           'FakeSock (harness/sim.py) stands for a non-blocking kernel socket: send accepts min(k, offered) bytes or raises; recv returns the scripted piece']
ASSUMPTIONS = ['no user plugins (hook chains are the identity), --enable-conn-pool off, no TLS interception',
               'model describes /repo after fix commits ba95ac6 (C01-guard-response-parse) and ae6ca23 (C07-write-side-teardown)']
SHARD = 40


def generate(rng, tier):
    quick = tier != 'thorough'
    cases = []
    for _ in range(60 if quick else 1000):
        cases.append(dict(kind='conn', ops=NC.gen_conn_ops(rng, rng.choice([3, 8, 15, 30]))))
    # boundary stream for TcpConnection: piece lengths around max_send, accepts around the offered length
    for m in range(1, 10):
        for ln in (m - 1, m, m + 1, 2 * m, 2 * m + 1):
            if ln <= 0:
                continue
            for k in (ln - 1, ln, ln + 1, m - 1, m, m + 1):
                if k < 0 or (quick and (m + ln + k) % 3):
                    continue
                data = NC.rand_bytes(rng, ln)
                cases.append(dict(kind='conn', ops=[['q', data], ['q', b'xy'], ['f', m, k], ['f', m, 'block'], ['f', m, 100000],
                                                    ['f', m, 100000], ['f', m, 100000]]))
    n = 170 if quick else 3000
    for i in range(n):
        c = NC.gen_relay(rng, profile='relay', n_events=rng.choice([10, 16, 24, 32]) if quick else rng.choice([20, 40, 60, 80]))
        cases.append(c)
    return cases


def run_impl(case):
    if case['kind'] == 'conn':
        return NC.run_conn_ops(case['ops'])
    return NC.run_relay(case)


def coq_term(case, out):
    if case['kind'] == 'conn':
        return 'NConn (%s)' % NC.coq_conn_case(case['ops'], out)
    return 'NRelay (%s)' % NC.coq_relay_case(case, out)


def model_expr(case):
    out = run_impl(case)
    if case['kind'] == 'conn':
        return 'conn_run new_conn %s' % C.coq_list(NC.coq_conn_op(op) for op in case['ops'])
    return 'model_output (%s)' % NC.coq_relay_case(case, out)


def first_request(case, out):
    data = b''
    for ev in out['events']:
        if isinstance(ev.get('c_recv'), (bytes, bytearray)):
            data += bytes(ev['c_recv'])
            if b'\r\n\r\n' in data:
                break
    return data


def oracle(case, out):
    if case['kind'] == 'conn':
        return NC.conn_oracle(case['ops'], out)
    steps, fin = out['steps'], out['fin']
    for i, s in enumerate(steps):
        if s.get('blocked'):
            return ('step %d: recv() was called on the blocking/timeout-mode socket %s with nothing to read: the call blocks the '
                    'whole event loop and ends in an uncaught socket.timeout' % (i, s['blocked']))
    if not any(s['established'] for s in steps):
        return None                      # no proxied exchange was established: nothing to relay
    is_tunnel = first_request(case, out).startswith(b'CONNECT ')
    A = NC.ack_packet() if is_tunnel else b''
    # every byte the upstream sent (= every byte recv() handed to the proxy) reaches the client once, in order,
    # unmodified, preceded only by the acknowledgement: received by the client ++ still buffered == ack ++ upstream bytes
    want = A + fin['uprcvd']
    have = fin['cout'] + fin['cpend']
    if have != want:
        return ('client stream broken: client received %d + %d buffered bytes, expected ack(%d) + %d upstream bytes; first difference at %d; '
                'handler result %s %s' % (len(fin['cout']), len(fin['cpend']), len(A), len(fin['uprcvd']),
                                          next((i for i, (a, b) in enumerate(zip(have, want)) if a != b), min(len(have), len(want))),
                                          fin['res'], fin['trace']))
    # the proxy itself never ends an established exchange while the upstream still has bytes to send: a teardown needs a
    # cause (a peer closing / resetting / timing out, a failed send, a protocol error of a later client request, the idle
    # reaper).  Independent of the model (which says the same through the per-step results).
    if fin['res'] and fin.get('up_left_first') == 'data' and not is_tunnel:
        def bad(x):
            return isinstance(x, str) and x != 'block'
        cause = any(bad(e.get('c_recv')) or bad(e.get('u_recv')) or bad(e.get('c_send')) or bad(e.get('u_send')) for e in out['events'])
        # a descriptor reported readable with nothing to read (spurious wake-up): recv() raises, which the handler treats like
        # any other failed recv (C01_teardown_has_cause: ClientRecvEnded / UpstreamRecvEnded) - a cause, not a spontaneous teardown
        # (judged on the SCRIPTED events: only the generator's explicit spurious wake-ups count)
        cause = cause or any(('client' in e0.get('r', ()) and 'c_recv' not in e0) or ('up0' in e0.get('r', ()) and 'u_recv' not in e0)
                             for e0 in case['events'][:len(out['events'])])
        cause = cause or any(o['cdata'] == 'raise' or (isinstance(o['cdata'], (list, tuple)) and o['cdata'][0] == 'proto') or o['req'] == 'raise'
                             or (isinstance(o['req'], (list, tuple)) and o['req'][0] == 'error') for o in out['oracles'])
        cause = cause or case.get('exchange') == 'malformed-upstream'       # (the idle probe is no cause: nothing reaps in this driver)
        if not cause:
            return ('the proxy tore the established exchange down on its own: no peer closed or failed, nothing was rejected, the '
                    'connection was not idle - yet %d bytes the upstream was still going to send were never read (trace %s)'
                    % (fin['up_left'], fin['trace']))
    prev = 0
    for i, s in enumerate(steps):
        if s['csent'] < prev:
            return 'bytes at the client peer shrank at step %d' % i
        if s['established'] and s['csent'] + s['cpend'] != len(A) + s['uprcvd_len']:
            return 'step %d: delivered %d + pending %d != ack %d + upstream received %d' % (i, s['csent'], s['cpend'], len(A), s['uprcvd_len'])
        ev = out['events'][i]
        k = ev.get('c_send')
        if i and 'client' in ev.get('w', ()) and (s['int'] & 2) and isinstance(k, int) and k > 0 and steps[i - 1]['cpend'] > 0 \
                and s['csent'] == prev:
            return 'step %d: no progress although the client socket accepted k=%d > 0 with %d bytes pending' % (i, k, steps[i - 1]['cpend'])
        prev = s['csent']
    # the remainder the parser reports behind the first request must be the tail of the segment that completed it
    for ev, orc in zip(out['events'], out['oracles']):
        if isinstance(orc['req'], list) and orc['req'][0] in ('proxy', 'serve') and orc['req'][-1]:
            if not (isinstance(ev.get('c_recv'), (bytes, bytearray)) and bytes(ev['c_recv']).endswith(orc['req'][-1])):
                return 'bytes handed to the plugin behind the first request are not the tail of the segment'
    if is_tunnel:
        # everything the client sent behind the CONNECT request (also in the same segment) reaches the upstream once, in order
        stream = b''.join(bytes(ev['c_recv']) for ev, st in zip(out['events'], steps)
                          if st['c_taken'] and isinstance(ev.get('c_recv'), (bytes, bytearray)))
        cut_at = stream.find(b'\r\n\r\n')
        sent_by_client = stream[cut_at + 4:] if cut_at >= 0 else b''
        if fin['uout'] + fin['upend'] != sent_by_client:
            return ('tunnel client->upstream stream broken: upstream received %d + %d buffered, client sent %d bytes behind the CONNECT '
                    '(first difference at %d)' % (len(fin['uout']), len(fin['upend']), len(sent_by_client),
                                                  next((i for i, (a, b) in enumerate(zip(fin['uout'] + fin['upend'], sent_by_client)) if a != b),
                                                       min(len(fin['uout'] + fin['upend']), len(sent_by_client)))))
        if fin['uout'] + fin['upend'] != fin['clrcvd']:
            return 'tunnel client->upstream stream broken: upstream received %d + %d buffered, plugin was handed %d' % (
                len(fin['uout']), len(fin['upend']), len(fin['clrcvd']))
        for i, s in enumerate(steps):
            if s['established'] and s['usent'] + s['upend'] != s['clrcvd_len']:
                return 'step %d: upstream delivered %d + pending %d != client bytes %d' % (i, s['usent'], s['upend'], s['clrcvd_len'])
    return None


def nontrivial(case, out):
    if case['kind'] == 'conn':
        return len(out['out']) > 0 and any(op[0] == 'f' and (op[2] == 'block' or (isinstance(op[2], int) and op[2] < 9)) for op in case['ops'])
    fin = out['fin']
    short = any(l[0] == 'send' and l[2] < l[1] for l in fin['client_log']) or any(l[0] == 'send_err' for l in fin['client_log'])
    return any(s['established'] for s in out['steps']) and len(fin['uprcvd']) > 0 and short


def shrink(case, fails):
    if case['kind'] == 'conn':
        ops = list(case['ops'])
        changed = True
        while changed:
            changed = False
            for i in range(len(ops)):
                c2 = dict(case, ops=ops[:i] + ops[i + 1:])
                if fails(c2):
                    ops = c2['ops']; changed = True
                    break
        return dict(case, ops=ops)
    evs = list(case['events'])
    changed = True
    while changed and len(evs) > 1:
        changed = False
        for i in range(len(evs) - 1, -1, -1):
            c2 = dict(case, events=evs[:i] + evs[i + 1:])
            try:
                bad = fails(c2)
            except Exception:
                bad = False
            if bad:
                evs = c2['events']; changed = True
                break
    return dict(case, events=evs)


def extra_checks(rng, tier):
    """thorough: exhaustive accept patterns for <= 3 queued pieces x <= 6 bytes on the real TcpConnection, and
    multi-megabyte transfers through real socketpairs with a slow reader (oracle only)."""
    failures, notes = [], []
    if tier != 'thorough':
        return {}
    import itertools
    n = 0
    for pieces in ([b'abcdef'], [b'ab', b'cdef'], [b'a', b'', b'bcde'], [b'abc', b'de', b'f']):
        total = sum(map(len, pieces))
        for m in (1, 2, 3, 6, 7):
            for pat in itertools.product([0, 1, 2, 3, 7, 'block'], repeat=4):
                ops = [['q', p] for p in pieces] + [['f', m, k] for k in pat] + [['f', m, 100000]] * (total + len(pieces))
                out = NC.run_conn_ops(ops)
                n += 1
                f = NC.conn_oracle(ops, out)
                if not f and out['out'] != b''.join(pieces):
                    f = 'buffer not drained by enough full accepts'
                if f:
                    failures.append(dict(case=dict(kind='conn', ops=ops), out=out, what=f))
    notes.append('exhaustive accept patterns on TcpConnection: %d op lists' % n)
    # real socketpairs
    from proxy.core.connection import TcpClientConnection
    for size in (1 << 20, 3 << 20, 8 << 20):
        a, b = socket.socketpair()
        a.setblocking(False)
        b.setblocking(False)
        conn = TcpClientConnection(a, ('pair', 0))
        data = bytes(rng.randrange(256) for _ in range(4096)) * (size // 4096)
        step = 1 << 16
        for i in range(0, len(data), 3 * step + 7):
            conn.queue(memoryview(data[i:i + 3 * step + 7]))
        got = bytearray()
        t0 = time.time()
        while (conn.has_buffer() or len(got) < len(data)) and time.time() - t0 < 60:
            if conn.has_buffer():
                conn.flush(rng.choice([1 << 12, 1 << 16, None]))
            if rng.random() < 0.7:
                try:
                    got += b.recv(rng.choice([1 << 10, 1 << 14, 1 << 18]))
                except BlockingIOError:
                    pass
        a.close(); b.close()
        if bytes(got) != data:
            failures.append(dict(case=dict(kind='socketpair', size=size), out=dict(got=len(got)),
                                 what='real socketpair transfer of %d bytes arrived damaged or incomplete (%d bytes)' % (size, len(got))))
    notes.append('real socketpair transfers 1, 3, 8 MiB with a slow reader: compared byte for byte')
    return dict(failures=failures, notes=notes, exhaustive_conn_patterns=n)
