"""C20 — idle connections are reaped after the timeout and active ones never are.
Virtual clock (exact binary fractions, 1/1024 s): timed event lists against the real HttpProtocolHandler
(last_activity, is_inactive), the real Threadless._run_forever / _cleanup_inactive / _cleanup around one simulated
work, and the real threaded HttpProtocolHandler.run() with a scripted selector; correspondence with Net/Handler.v
and Net/Reaper.v, and the property's own statement on the implementation."""
import common as C
from props import net_common as NC

ID = 'C20'
COQ_TARGETS = ['theories/Props/C20.vo', 'theories/Net/ReaperCases.vo']
IMPORTS = NC.c20_imports()
CASE_TYPE = 'c20_case'
CHECK_FN = 'check_c20_case'
ANCHOR_FILES = ['proxy/http/handler.py', 'proxy/core/work/threadless.py', 'proxy/core/base/tcp_server.py']
RULE = ('timed traces: (a) event lists with clock gaps around the timeout and is_inactive() probed at timeout + {-1, 0, +1} ticks '
        '(1 tick = 1/1024 s) after each call; (b) threadless: 40..130 iterations of the real _run_forever with the repository\'s '
        'constants (sweep every ceil(1 s / 26 ms) = 39 iterations), events for the work at some iterations, sweep times placed at '
        'last client I/O + timeout + {-1, 0, +1}; (c) threaded: the real run() loop, is_inactive() before every iteration; '
        'non-trivial = the reaper closed the connection, or a sweep / check found it not inactive while its last client I/O was '
        'within one second of the threshold; distinct = distinct inputs')
TRUSTED = ['the virtual clock replaces time.time() in proxy.http.handler only; times are multiples of 1/1024 s so float arithmetic is exact',
           'threadless loops: the real _run_forever, _run_once (task creation, asyncio.wait, teardown), _cleanup_inactive, _cleanup run on a real asyncio loop; '
           'only _selected_events (selector) is scripted; a second work with a gated (suspended) handle_events coroutine keeps tasks unfinished across sweeps',
           'DEFAULT_SELECTOR_SELECT_TIMEOUT + DEFAULT_WAIT_FOR_TASKS_TIMEOUT and DEFAULT_INACTIVE_CONN_CLEANUP_TIMEOUT are read from /repo and '
           'passed to the model in whole microseconds (float tick arithmetic is assumed to agree with the exact one away from ties)']
ASSUMPTIONS = ['delta, the longest duration of one loop iteration, is an assumption of the liveness bound (C20_live)',
               'one time.time() value per handle_events call (the virtual clock does not advance inside a call)']
SHARD = 40


def gen_reaper(rng, threaded, quick):
    timeout = rng.choice([1, 1, 2])
    TICK, T0 = NC.TICK, NC.T0
    D = timeout * TICK
    tt = None
    if rng.random() < 0.25:
        tt = rng.choice([0, 0, 1, 3, 512])      # boundary values of the timeout: 0, one tick, fractions of a second
        D = tt
    c = NC.gen_relay(rng, profile='timed', handler='http', n_events=rng.choice([3, 5, 8]))
    evs = [e for e in c['events'] if e['now'] - T0 < 10 ** 9]
    n_it = rng.choice([45, 85, 125]) if not threaded else rng.choice([12, 25, 40])
    case = dict(kind='reaper-threaded' if threaded else 'reaper-threadless', handler='http', max_send=c['max_send'],
                timeout=timeout, t0=T0, web=c['web'], connect=c['connect'], sel=[], exchange=c['exchange'],
                client_plan=c['client_plan'], up_plan=c['up_plan'], iters=[], tls=c.get('tls', False))
    if tt is not None:
        case['timeout_ticks'] = tt
    if threaded:
        case['sel'] = [rng.choice([1, 2, 100000]) for _ in range(60)]
    # iterations: ~26 ticks apart (the loop period), occasionally a long stall; events early on
    t = T0
    ev_at = sorted(rng.sample(range(0, min(n_it, 30)), min(len(evs), min(n_it, 30))))
    sweep_iters = [i for i in range(n_it) if i and i % 39 == 0] if not threaded else list(range(n_it))
    last_ev_t = T0
    for i in range(n_it):
        gap = rng.choice([1, 20, 26, 26, 26, 27, 40, 200]) if rng.random() < 0.93 else rng.choice([max(D // 2, 1), max(D, 1), D + 1])
        t += gap
        it = dict(t=t, ev=None)
        if i in ev_at and evs:
            ev = dict(evs.pop(0))
            ev['now'] = t
            ev['probe'] = t
            it['ev'] = ev
            last_ev_t = t
            t += rng.choice([0, 0, 1])
            it['t'] = t
        case['iters'].append(it)
    # boundary: move a sweep (threadless) / a late check (threaded) to last event + timeout + {-1, 0, +1}
    cand = [i for i in sweep_iters if case['iters'][i]['t'] > last_ev_t and all(x['ev'] is None for x in case['iters'][i:])]
    if cand and rng.random() < 0.8:
        i = cand[0]
        target = last_ev_t + D + rng.choice([-1, 0, 0, 1, 1, 2])
        if target > case['iters'][i - 1]['t']:
            shift = target - case['iters'][i]['t']
            for x in case['iters'][i:]:
                x['t'] += shift
    # a second work B in the same executor whose handle_events task stays unfinished (slow plugin future) across many
    # iterations, typically across one or two sweeps: the tick counter and the sweep must not care
    if not threaded and rng.random() < 0.7:
        b0 = rng.randrange(0, 12)
        b1 = rng.choice([b0 + 3, 45, 70, n_it + 5])
        case['b_busy'] = [[b0, b1]]
        if b1 < n_it - 10 and rng.random() < 0.5:
            case['b_busy'].append([b1 + 2, n_it + 5])
    # the work's OWN last handle_events really suspends (slow plugin hook): its task is still unfinished while the connection
    # goes idle; the sweep must reap it all the same (C20_reaping_ignores_unfinished_tasks)
    if not threaded and rng.random() < 0.35:
        evs = [x for x in case['iters'] if x['ev'] is not None]
        if evs:
            evs[-1]['ev']['slow'] = True
            case['own_task_suspended'] = True
    # keep times monotone
    prev = T0
    for x in case['iters']:
        if x['t'] < prev:
            x['t'] = prev
        if x['ev'] is not None and x['ev']['now'] > x['t']:
            x['ev']['now'] = x['t']; x['ev']['probe'] = x['t']
        prev = x['t']
    return case


def generate(rng, tier):
    quick = tier != 'thorough'
    cases = []
    for _ in range(120 if quick else 2000):
        cases.append(NC.gen_relay(rng, profile='timed', handler='http', n_events=rng.choice([6, 10, 16]) if quick else rng.choice([10, 30, 60])))
    for _ in range(110 if quick else 1500):
        cases.append(gen_reaper(rng, False, quick))
    for _ in range(110 if quick else 1500):
        cases.append(gen_reaper(rng, True, quick))
    return cases


def run_impl(case):
    if case['kind'] == 'relay':
        return NC.run_relay(case)
    if case['kind'] == 'reaper-threadless':
        return NC.run_reaper_threadless(case)
    return NC.run_reaper_threaded(case)


def coq_term(case, out):
    if case['kind'] == 'relay':
        return 'ZRelay (%s)' % NC.coq_relay_case(case, out)
    return 'ZReaper (%s)' % NC.coq_reaper_case(case, out)


def model_expr(case):
    out = run_impl(case)
    if case['kind'] == 'relay':
        return 'model_output (%s)' % NC.coq_relay_case(case, out)
    return 'reaper_model_output (%s)' % NC.coq_reaper_case(case, out)


def last_cio_timeline(case, out):
    """(time, last client I/O time, pending bytes) after each executed handle_events call, from the harness' own
    counters of send()/recv() calls on the client fake socket"""
    last = case.get('t0', NC.T0)
    tl = []
    for s in out['steps']:
        if s['cio']:
            last = s['now']
        tl.append((s['now'], last, s['cpend']))
    return tl


def oracle(case, out):
    TICK = NC.TICK
    D = NC.timeout_ticks(case)
    t0 = case.get('t0', NC.T0)
    tl = last_cio_timeline(case, out)
    # last_activity is the time of the last client recv()/send() call, after every call
    for s, (now, last, pend) in zip(out['steps'], tl):
        if s['la'] != last:
            return 'last_activity = %d but the last client I/O call was at %d (call at %d)' % (s['la'] - t0, last - t0, now - t0)
        if s['inactive'] is not None:
            want = (pend == 0) and (s['probe'] - last > D)
            if s['inactive'] != want:
                return 'is_inactive() at %d = %s with %d bytes pending and last client I/O at %d (timeout %d ticks)' % (
                    s['probe'] - t0, s['inactive'], pend, last - t0, D)
    if case['kind'] == 'relay':
        return None

    def state_at(k_events):
        """(last client I/O, pending) after k executed events"""
        if k_events == 0:
            return t0, 0
        return tl[k_events - 1][1], tl[k_events - 1][2]

    if case['kind'] == 'reaper-threadless':
        k = 0
        closed = False
        for it, cur in zip(case['iters'], out['log']):
            if cur['ev_index'] is not None:
                k = cur['ev_index'] + 1
            if closed:
                continue
            last, pend = state_at(k)
            torn_now = cur['fate'] == 1
            if cur['swept'] and not torn_now:
                want = pend == 0 and it['t'] - last > D
                got = cur['fate'] == 2
                if got and not want:
                    return 'reaped at %d with %d bytes pending, last client I/O at %d, timeout %d ticks' % (it['t'] - t0, pend, last - t0, D)
                if want and not got:
                    return 'sweep at %d left an idle connection alive (nothing pending, last client I/O at %d, timeout %d ticks)' % (it['t'] - t0, last - t0, D)
            if cur['fate']:
                closed = True
        # liveness bound (C20_live), whatever other works do: once A has nothing pending and gets no more events it is
        # reaped by max(first idle iteration, last client I/O + timeout + delta) + ceil(cleanup/period) * delta,
        # delta = the largest gap between consecutive iterations of this trace
        pu0, cu0 = NC.reaper_constants()
        n00 = -(-cu0 // pu0)
        ts = [it['t'] for it in case['iters']][:len(out['log'])]
        ev_idx = [i for i, cur in enumerate(out['log']) if cur['ev_index'] is not None]
        first_idle = (ev_idx[-1] + 1) if ev_idx else 0
        handler_closed = any(cur['fate'] == 1 for cur in out['log'])
        if not handler_closed and first_idle < len(ts):
            last, pend = state_at(len(out['steps']))
            if pend == 0:
                delta = max([b - a for a, b in zip(ts, ts[1:])] + [0])
                bound = max(ts[first_idle], last + D + delta) + n00 * delta
                reaped_at = next((ts[i] for i, cur in enumerate(out['log']) if cur['fate'] == 2), None)
                busy_iters = sum(1 for cur in out['log'] if cur['unfinished'])
                if reaped_at is None and ts[-1] > bound:
                    return ('idle work not reaped: nothing pending, last client I/O at %d, timeout %d ticks, iterations at most %d ticks apart: '
                            'bound %d passed at %d and the connection is still open (another work had an unfinished task in %d iterations)'
                            % (last - t0, D, delta, bound - t0, ts[-1] - t0, busy_iters))
                if reaped_at is not None and reaped_at > bound:
                    return 'idle work reaped at %d, later than the bound %d (another work had an unfinished task in %d iterations)' % (
                        reaped_at - t0, bound - t0, busy_iters)
        # the sweep itself: every 39 iterations with the repository's constants (a count, not a clock)
        pu, cu = NC.reaper_constants()
        n0 = -(-cu // pu)
        tick = 0
        for i, cur in enumerate(out['log']):
            due = tick >= n0
            if cur['swept'] != due:
                return 'iteration %d: sweep ran = %s, expected %s (tick %d, period %d)' % (i, cur['swept'], due, tick, n0)
            tick = 1 if due else tick + 1
        return None
    # threaded: is_inactive() before every iteration; the loop must end exactly at the first iteration at which the
    # connection is idle (nothing pending, last client I/O more than timeout ago), unless handle_events ended it before
    k = 0
    n_main, hev = out['n_main'], out['hev']
    for i, it in enumerate(case['iters']):
        if i > 0 and i - 1 < len(hev) and hev[i - 1]:
            break                                   # ended by the handler in the previous iteration
        last, pend = state_at(k)
        want = pend == 0 and it['t'] - last > D
        executed = i < n_main                       # select() was reached in iteration i
        if want and executed:
            return 'threaded loop iteration %d at %d went on although the connection is idle (last client I/O %d, timeout %d ticks)' % (
                i, it['t'] - t0, last - t0, D)
        if not want and not executed:
            return 'threaded loop ended at iteration %d (time %d) although the connection is not idle (pending %d, last client I/O %d)' % (
                i, it['t'] - t0, pend, last - t0)
        if want:
            if not out['fin']['cclosed']:
                return 'inactive connection not closed'
            break
        k += 1
    return None


def nontrivial(case, out):
    if case['kind'] == 'relay':
        return any(s['inactive'] for s in out['steps']) and any(s['cio'] for s in out['steps'])
    if case['kind'] == 'reaper-threadless':
        return any(c['fate'] == 2 for c in out['log']) or sum(1 for c in out['log'] if c['swept']) >= 2
    return any(out['inact']) or len(out['inact']) > 10


def extra_checks(rng, tier):
    """thorough: event times on the grid timeout +/- {0, 1/1024} x <= 5 events (implementation only)"""
    if tier != 'thorough':
        return {}
    import itertools
    failures, n = [], 0
    TICK, T0 = NC.TICK, NC.T0
    req = b'CONNECT h.example:443 HTTP/1.1\r\nHost: h.example:443\r\n\r\n'
    for timeout in (1, 3):
        D = timeout * TICK
        for gaps in itertools.product([1, D - 1, D, D + 1], repeat=4):
            for kind in range(3):
                t = T0
                evs = []
                for j, g in enumerate(gaps):
                    t += g
                    if j == 0:
                        ev = dict(now=t, r=['client'], w=[], c_recv=req)
                    elif kind == 0:
                        ev = dict(now=t, r=['up0'], w=[], u_recv=b'x')                 # upstream-only activity
                    elif kind == 1:
                        ev = dict(now=t, r=[], w=['client'], c_send=1)                  # client write
                    else:
                        ev = dict(now=t, r=['client'], w=['client'], c_recv=b'y', c_send='block')
                    ev['probe'] = t + rng.choice([D - 1, D, D + 1])
                    evs.append(ev)
                case = dict(kind='relay', profile='grid', handler='http', max_send=2, timeout=timeout, t0=T0, threaded=False,
                            web=False, connect=[], sel=[], events=evs, exchange='connect')
                out = run_impl(case)
                n += 1
                f = oracle(case, out)
                if f:
                    failures.append(dict(case=case, out=out, what=f))
    return dict(failures=failures[:5], notes=['grid of event times timeout +/- 1 tick: %d traces' % n], grid_traces=n)
