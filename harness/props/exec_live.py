"""Live loopback runs (thorough tier, SUPPORTING evidence only) for C05 / C10 / C17: a real proxy.py
(`proxy.Proxy([...])`, real acceptor / executor processes, real sockets, real epoll) between real
clients and a real origin server on 127.0.0.1.  Everything is torn down in `finally` blocks."""
import os, re, sys, time, socket, struct, threading, contextlib, logging, select as _select

HOST = '127.0.0.1'


# ----------------------------------------------------------------------------- origin server
class Origin:
    """threaded origin on loopback.  Request paths select the behaviour:
         /canary/<n>        200, body 'canary-<n>', Content-Length, then close
         /big/<n>           200, n KiB body
         /chunked           200, chunked body in three pieces
         /reset             partial response, then RST
         /slowclose         200 and keep the connection open until the peer closes
       Records per connection: bytes received and the order of data / close events."""

    def __init__(self):
        self.sock = socket.socket(socket.AF_INET, socket.SOCK_STREAM)
        self.sock.setsockopt(socket.SOL_SOCKET, socket.SO_REUSEADDR, 1)
        self.sock.bind((HOST, 0))
        self.sock.listen(256)
        self.port = self.sock.getsockname()[1]
        self.records = []          # one dict per accepted connection
        self.lock = threading.Lock()
        self.stop = False
        self.threads = []
        self.t = threading.Thread(target=self._accept, daemon=True)
        self.t.start()

    def _accept(self):
        self.sock.settimeout(0.2)
        while not self.stop:
            try:
                c, _ = self.sock.accept()
            except socket.timeout:
                continue
            except OSError:
                return
            rec = dict(received=b'', events=[], tag=None)
            with self.lock:
                self.records.append(rec)
            th = threading.Thread(target=self._serve, args=(c, rec), daemon=True)
            th.start()
            self.threads.append(th)

    def _serve(self, c, rec):
        c.settimeout(5)
        try:
            while True:
                buf = b''
                while b'\r\n\r\n' not in buf:
                    try:
                        d = c.recv(65536)
                    except (socket.timeout, OSError):
                        rec['events'].append('error')
                        return
                    if not d:
                        rec['events'].append('close')
                        return
                    rec['received'] += d
                    rec['events'].append('data')
                    buf += d
                head, _, rest = buf.partition(b'\r\n\r\n')
                line = head.split(b'\r\n')[0]
                m = re.search(br'content-length:\s*(\d+)', head, re.I)
                need = int(m.group(1)) if m else 0
                while len(rest) < need:
                    d = c.recv(65536)
                    if not d:
                        rec['events'].append('close')
                        return
                    rec['received'] += d
                    rec['events'].append('data')
                    rest += d
                path = line.split(b' ')[1] if len(line.split(b' ')) > 1 else b'/'
                mt = re.search(br'x-tag:\s*(\S+)', head, re.I)
                if mt:
                    rec['tag'] = mt.group(1).decode()
                if path.startswith(b'/reset'):
                    c.sendall(b'HTTP/1.1 200 OK\r\nContent-Length: 1000\r\n\r\npartial')
                    c.setsockopt(socket.SOL_SOCKET, socket.SO_LINGER, struct.pack('ii', 1, 0))
                    rec['events'].append('rst')
                    return
                if path.startswith(b'/big/'):
                    n = int(path.split(b'/')[2]) * 1024
                    body = (b'0123456789abcdef' * (n // 16 + 1))[:n]
                    c.sendall(b'HTTP/1.1 200 OK\r\nContent-Length: %d\r\n\r\n' % n + body)
                elif path.startswith(b'/chunked'):
                    c.sendall(b'HTTP/1.1 200 OK\r\nTransfer-Encoding: chunked\r\n\r\n5\r\nhello\r\n')
                    time.sleep(0.02)
                    c.sendall(b'6\r\n world\r\n')
                    time.sleep(0.02)
                    c.sendall(b'0\r\n\r\n')
                elif path.startswith(b'/keep/'):
                    body = b'keep-' + path.split(b'/')[2]
                    c.sendall(b'HTTP/1.1 200 OK\r\nContent-Length: %d\r\n\r\n' % len(body) + body)
                    continue
                elif path.startswith(b'/post'):
                    body = b'got-%d' % need
                    c.sendall(b'HTTP/1.1 200 OK\r\nContent-Length: %d\r\n\r\n' % len(body) + body)
                else:
                    body = b'canary-' + (path.split(b'/')[2] if path.count(b'/') >= 2 else b'x')
                    c.sendall(b'HTTP/1.1 200 OK\r\nContent-Length: %d\r\n\r\n' % len(body) + body)
                if path.startswith(b'/slowclose'):
                    continue
                try:
                    c.shutdown(socket.SHUT_WR)
                except OSError:
                    pass
                # drain until the proxy closes
                try:
                    while True:
                        d = c.recv(65536)
                        if not d:
                            rec['events'].append('close')
                            break
                        rec['received'] += d
                        rec['events'].append('data')
                except (socket.timeout, OSError):
                    rec['events'].append('error')
                return
        except OSError:
            rec['events'].append('error')
        finally:
            with contextlib.suppress(OSError):
                c.close()

    def close(self):
        self.stop = True
        with contextlib.suppress(OSError):
            self.sock.close()
        self.t.join(timeout=2)


def closed_port():
    s = socket.socket()
    s.bind((HOST, 0))
    p = s.getsockname()[1]
    s.close()
    return p


# ----------------------------------------------------------------------------- proxy under test
@contextlib.contextmanager
def running_proxy(mode, workers=1, extra=(), acceptors=None, **opts):
    """mode: 'threaded' | 'local' | 'remote'"""
    import proxy
    if acceptors is None:
        acceptors = workers if mode != 'remote' else 1
    args = ['--hostname', HOST, '--port', '0', '--num-acceptors', str(acceptors),
            '--log-level', 'CRITICAL', '--timeout', '5']
    if mode == 'threaded':
        args += ['--threaded']
    elif mode == 'local':
        args += ['--threadless', '--local-executor', '1']
    else:
        args += ['--threadless', '--local-executor', '0', '--num-workers', str(workers)]
    args += list(extra)
    lvl = logging.root.manager.disable
    logging.disable(logging.CRITICAL)
    p = proxy.Proxy(args, **opts)
    try:
        p.setup()
        try:
            yield p
        finally:
            with contextlib.suppress(Exception):
                p.shutdown()
    finally:
        logging.disable(lvl)


def worker_pids(p, mode):
    if mode == 'remote':
        return list(p.executors.work_pids)
    return [a.pid for a in p.acceptors.acceptors]


def fd_count(pid):
    try:
        return len(os.listdir('/proc/%d/fd' % pid))
    except OSError:
        return -1


# ----------------------------------------------------------------------------- clients
def client_exchange(port, payloads, read_timeout=5.0, half_close=False, rst=False, pause=0.01):
    """send the payload pieces, read until the proxy closes (or timeout); returns (bytes received, ending)"""
    s = socket.create_connection((HOST, port), timeout=read_timeout)
    got = b''
    ending = 'close'
    try:
        for i, pl in enumerate(payloads):
            if isinstance(pl, tuple) and pl[0] == 'expect':
                # wait for the proxy's reply (e.g. the 200 of a CONNECT) before going on
                s.settimeout(read_timeout)
                while pl[1] not in got:
                    try:
                        d = s.recv(65536)
                    except (socket.timeout, ConnectionResetError):
                        d = b''
                    if not d:
                        break
                    got += d
                continue
            s.sendall(pl)
            if i + 1 < len(payloads):
                time.sleep(pause)
        if rst:
            s.setsockopt(socket.SOL_SOCKET, socket.SO_LINGER, struct.pack('ii', 1, 0))
            s.close()
            return got, 'rst'
        if half_close:
            s.shutdown(socket.SHUT_WR)
        s.settimeout(read_timeout)
        while True:
            try:
                d = s.recv(65536)
            except socket.timeout:
                ending = 'timeout'
                break
            except ConnectionResetError:
                ending = 'reset'
                break
            if not d:
                break
            got += d
    finally:
        with contextlib.suppress(OSError):
            s.close()
    return got, ending


def canary_request(pport, oport, n, timeout=5.0):
    req = b'GET http://%s:%d/canary/%d HTTP/1.1\r\nHost: %s:%d\r\nX-Tag: c%d\r\n\r\n' % (HOST.encode(), oport, n, HOST.encode(), oport, n)
    t0 = time.time()
    got, ending = client_exchange(pport, [req], read_timeout=timeout)
    ok = got.startswith(b'HTTP/1.1 200') and got.endswith(b'canary-%d' % n)
    return ok, ending, time.time() - t0, got[:80]


def adversarial_actions(oport):
    """(name, callable(proxy_port) -> open sockets to keep until the end of the round)"""
    H = HOST.encode()
    dead = closed_port()

    def raw(payload, keep=False, rst=False, half=False):
        def f(pport):
            s = socket.create_connection((HOST, pport), timeout=3)
            if payload:
                s.sendall(payload)
            if rst:
                s.setsockopt(socket.SOL_SOCKET, socket.SO_LINGER, struct.pack('ii', 1, 0))
                s.close()
                return []
            if half:
                s.shutdown(socket.SHUT_WR)
            if keep:
                return [s]
            s.close()
            return []
        return f
    acts = [
        ('garbage_close', raw(os.urandom(97))),
        ('garbage_keep', raw(b'\x00\xff\x16\x03\x01 garbage that never ends', keep=True)),
        ('badutf8_path', raw(b'GET http://%s:%d/\xff\xfe HTTP/1.1\r\nHost: x\r\nUser-Agent: \xff\r\n\r\n' % (H, oport), keep=True)),
        ('truncated_rst', raw(b'GET http://%s:%d/canary/1 HTTP/1.1\r\nHo' % (H, oport), rst=True)),
        ('truncated_keep', raw(b'GET http://%s:%d/canary/1 HTT' % (H, oport), keep=True)),
        ('request_then_rst', raw(b'GET http://%s:%d/big/512 HTTP/1.1\r\nHost: x\r\n\r\n' % (H, oport), rst=True)),
        ('refused_upstream', raw(b'GET http://%s:%d/ HTTP/1.1\r\nHost: x\r\n\r\n' % (H, dead), keep=True)),
        ('connect_refused', raw(b'CONNECT %s:%d HTTP/1.1\r\nHost: x\r\n\r\n' % (H, dead), keep=True)),
        ('upstream_reset', raw(b'GET http://%s:%d/reset HTTP/1.1\r\nHost: x\r\n\r\n' % (H, oport), keep=True)),
        ('eof_now', raw(b'', half=True, keep=True)),
        ('huge_header', raw(b'GET http://%s:%d/canary/2 HTTP/1.1\r\nHost: x\r\nX: ' % (H, oport) + b'a' * 200000 + b'\r\n\r\n', keep=True)),
        ('two_origins', raw(b'GET http://%s:%d/keep/1 HTTP/1.1\r\nHost: x\r\n\r\nGET http://%s:%d/ HTTP/1.1\r\nHost: y\r\n\r\n' % (H, oport, H, dead), keep=True)),
        ('bad_port', raw(b'GET http://%s:99999/ HTTP/1.1\r\nHost: x\r\n\r\n' % H, keep=True)),
        ('tunnel_abort', raw(b'CONNECT %s:%d HTTP/1.1\r\nHost: x\r\n\r\nabc' % (H, oport), rst=True)),
        ('nul_host', raw(b'GET http://\x00\xff/ HTTP/1.1\r\nHost: \x00\r\n\r\n', keep=True)),
        ('post_short_body_rst', raw(b'POST http://%s:%d/post HTTP/1.1\r\nHost: x\r\nContent-Length: 100\r\n\r\nabc' % (H, oport), rst=True)),
    ]
    return acts


def c05_live(rng, rounds=2):
    origin = Origin()
    res = dict(canaries=0, answered=0, actions=0, slowest_s=0.0, failure=None, per_action={})
    try:
        for mode in ('local', 'remote'):
            with running_proxy(mode, workers=1) as p:
                pport = p.flags.port
                time.sleep(0.3)
                n = 0
                ok, ending, dt, got = canary_request(pport, origin.port, n)
                if not ok:
                    res['failure'] = 'live %s: the very first canary was not answered (%r, %s)' % (mode, got, ending)
                    return res
                for _ in range(rounds):
                    acts = adversarial_actions(origin.port)
                    rng.shuffle(acts)
                    held = []
                    try:
                        for name, act in acts:
                            res['actions'] += 1
                            try:
                                held += act(pport)
                            except OSError as e:
                                res['per_action'][name] = 'client error %r' % (e,)
                            for _k in range(2):
                                n += 1
                                res['canaries'] += 1
                                ok, ending, dt, got = canary_request(pport, origin.port, n)
                                res['slowest_s'] = max(res['slowest_s'], round(dt, 3))
                                if ok:
                                    res['answered'] += 1
                                else:
                                    res['failure'] = ('live %s executor: canary #%d after adversarial action %r was not answered '
                                                      '(got %r, ending %s) — the worker is dead or stalled' % (mode, n, name, got, ending))
                                    return res
                    finally:
                        for s in held:
                            with contextlib.suppress(OSError):
                                s.close()
                pids = worker_pids(p, mode)
                res['worker_alive_' + mode] = all(fd_count(pid) > 0 for pid in pids)
                if not res['worker_alive_' + mode]:
                    res['failure'] = 'live %s: a worker process disappeared' % mode
                    return res
    finally:
        origin.close()
    return res


# ----------------------------------------------------------------------------- C10: descriptor counts
def history_kinds(oport):
    H = HOST.encode()
    dead = closed_port()
    return [
        ('normal', lambda pp: client_exchange(pp, [b'GET http://%s:%d/canary/7 HTTP/1.1\r\nHost: x\r\n\r\n' % (H, oport)])),
        ('chunked', lambda pp: client_exchange(pp, [b'GET http://%s:%d/chunked HTTP/1.1\r\nHost: x\r\n\r\n' % (H, oport)])),
        ('client_rst_midway', lambda pp: client_exchange(pp, [b'GET http://%s:%d/big/256 HTTP/1.1\r\nHost: x\r\n\r\n' % (H, oport)], rst=True)),
        ('client_close_partial', lambda pp: client_exchange(pp, [b'GET http://%s:%d/can' % (H, oport)], half_close=True, read_timeout=2)),
        ('upstream_reset', lambda pp: client_exchange(pp, [b'GET http://%s:%d/reset HTTP/1.1\r\nHost: x\r\n\r\n' % (H, oport)], read_timeout=2)),
        ('connect_refused', lambda pp: client_exchange(pp, [b'GET http://%s:%d/ HTTP/1.1\r\nHost: x\r\n\r\n' % (H, dead)], read_timeout=2)),
        ('protocol_error', lambda pp: client_exchange(pp, [b'NONSENSE\r\n\r\n'], read_timeout=2)),
        ('tunnel', lambda pp: client_exchange(pp, [b'CONNECT %s:%d HTTP/1.1\r\nHost: x\r\n\r\n' % (H, oport), ('expect', b'\r\n\r\n'), b'GET /canary/3 HTTP/1.1\r\nHost: x\r\n\r\n'], read_timeout=2, pause=0.05)),
        ('tunnel_refused', lambda pp: client_exchange(pp, [b'CONNECT %s:%d HTTP/1.1\r\nHost: x\r\n\r\n' % (H, dead)], read_timeout=2)),
        ('post', lambda pp: client_exchange(pp, [b'POST http://%s:%d/post HTTP/1.1\r\nHost: x\r\nContent-Length: 5\r\n\r\nab', b'cde'])),
    ]


def c10_live(rng, repeats=200, modes=('local', 'remote')):
    origin = Origin()
    res = dict(histories=0, failure=None, counts={})
    try:
        for mode in modes:
            with running_proxy(mode, workers=1) as p:
                pport = p.flags.port
                time.sleep(0.3)
                pids = worker_pids(p, mode)
                kinds = history_kinds(origin.port)
                # warm-up: lazily created descriptors (loggers, resolvers, event loops) appear once
                for name, h in kinds:
                    with contextlib.suppress(OSError):
                        h(pport)
                time.sleep(0.5)
                base = [fd_count(pid) for pid in pids]
                per_kind = {}
                for name, h in kinds:
                    reps = max(1, repeats // len(kinds))
                    for _ in range(reps):
                        with contextlib.suppress(OSError):
                            h(pport)
                        res['histories'] += 1
                    deadline = time.time() + 8
                    while time.time() < deadline:
                        cur = [fd_count(pid) for pid in pids]
                        if cur == base:
                            break
                        time.sleep(0.25)
                    per_kind[name] = [c - b for c, b in zip(cur, base)]
                    if cur != base:
                        res['failure'] = ('live %s executor: after %d repetitions of history %r the worker holds %s more descriptors than before '
                                          '(%s -> %s)' % (mode, reps, name, [c - b for c, b in zip(cur, base)], base, cur))
                        res['counts'][mode] = dict(base=base, per_kind=per_kind)
                        return res
                res['counts'][mode] = dict(base=base, per_kind=per_kind)
    finally:
        origin.close()
    return res


# ----------------------------------------------------------------------------- C17: the same conversations under every mode
def conversation_corpus(oport):
    H = HOST.encode()
    dead = closed_port()
    return [
        ('forward_get', [b'GET http://%s:%d/canary/1 HTTP/1.1\r\nHost: %s:%d\r\nX-Tag: forward_get\r\n\r\n' % (H, oport, H, oport)], {}),
        ('forward_post_split', [b'POST http://%s:%d/post HTTP/1.1\r\nHost: x\r\nX-Tag: forward_post_split\r\nContent-Length: 6\r\n\r\nabc' % (H, oport), b'def'], dict(pause=0.05)),
        ('forward_chunked', [b'GET http://%s:%d/chunked HTTP/1.1\r\nHost: x\r\nX-Tag: forward_chunked\r\n\r\n' % (H, oport)], {}),
        ('forward_big', [b'GET http://%s:%d/big/512 HTTP/1.1\r\nHost: x\r\nX-Tag: forward_big\r\n\r\n' % (H, oport)], {}),
        ('tunnel', [b'CONNECT %s:%d HTTP/1.1\r\nHost: x\r\n\r\n' % (H, oport), ('expect', b'\r\n\r\n'), b'GET /canary/9 HTTP/1.1\r\nHost: x\r\nX-Tag: tunnel\r\n\r\n'], dict(pause=0.05)),
        ('refused', [b'GET http://%s:%d/ HTTP/1.1\r\nHost: x\r\n\r\n' % (H, dead)], {}),
        ('tunnel_refused', [b'CONNECT %s:%d HTTP/1.1\r\nHost: x\r\n\r\n' % (H, dead)], {}),
        ('bad_request', [b'NONSENSE\r\n\r\n'], {}),
        ('web_404', [b'GET /not-a-proxy-request HTTP/1.1\r\nHost: x\r\n\r\n'], {}),
        ('reverse', [b'GET /rev/abc HTTP/1.1\r\nHost: x\r\nX-Tag: reverse\r\n\r\n'], {}),
        ('upstream_reset', [b'GET http://%s:%d/reset HTTP/1.1\r\nHost: x\r\nX-Tag: upstream_reset\r\n\r\n' % (H, oport)], {}),
        ('client_half_close', [b'GET http://%s:%d/canary/4 HTTP/1.1\r\nHost: x\r\nX-Tag: client_half_close\r\n\r\n' % (H, oport)], dict(half_close=True)),
        ('keepalive_two', [b'GET http://%s:%d/keep/1 HTTP/1.1\r\nHost: x\r\nX-Tag: keepalive_two\r\n\r\n' % (H, oport), ('expect', b'keep-1'),
                           b'GET http://%s:%d/keep/2 HTTP/1.1\r\nHost: x\r\n\r\n' % (H, oport), ('expect', b'keep-2')], dict(pause=0.02, read_timeout=1.5, half_close=True)),
    ]


def normalise_reply(b):
    # the Via header / version string are identical across modes; nothing to strip
    return b


_REV = None
def live_reverse_plugin(oport):
    """reverse proxy route /rev/... -> the loopback origin"""
    global _REV
    from proxy.http.server import ReverseProxyBasePlugin
    if _REV is None:
        class LiveReversePlugin(ReverseProxyBasePlugin):
            target = b''
            def routes(self):
                return [(r'/rev/(.*)$', [LiveReversePlugin.target])]
        _REV = LiveReversePlugin
    _REV.target = b'http://%s:%d/canary/77' % (HOST.encode(), oport)
    return _REV


def _c17_run_mode(rng, origin, corpus, mode, w, concurrent, acceptors=None, extra=(), tcp_port=None):
    """all conversations of the corpus through one proxy instance; returns {name: transcript}"""
    with running_proxy(mode, workers=w, acceptors=acceptors, extra=('--enable-web-server', '--enable-reverse-proxy') + tuple(extra),
                       plugins=[live_reverse_plugin(origin.port)]) as p:
        pport = tcp_port or p.flags.port
        time.sleep(0.5)
        # let freshly forked workers settle: one throw-away request per worker
        dropped = []
        for k in range(2 * max(w, acceptors or 1)):
            try:
                ok, ending, dt, got = canary_request(pport, origin.port, 1000 + k, timeout=8.0)
                if not ok and ending in ('close', 'reset') and not got:
                    dropped.append(k)          # accepted, then closed without a byte: the process that accepted it died
            except OSError:
                pass
        if dropped:
            raise RuntimeError('connections #%s made right after start-up were accepted and dropped without a reply (%s, %s acceptors, %s workers)'
                               % (dropped, mode, acceptors if acceptors is not None else 'default', w))
        with origin.lock:
            origin.records.clear()
        transcripts = {}
        lock = threading.Lock()

        def run_one(name, payloads, kw):
            try:
                got, ending = client_exchange(pport, payloads, **dict(dict(read_timeout=8), **kw))
            except OSError as e:
                got, ending = b'', 'client-error:%s' % type(e).__name__
            with lock:
                transcripts[name] = dict(client_received=got, ending=ending)
        items = list(corpus)
        rng.shuffle(items)
        for k in range(0, len(items), concurrent):
            ths = [threading.Thread(target=run_one, args=it) for it in items[k:k + concurrent]]
            for t in ths: t.start()
            for t in ths: t.join(timeout=40)
        time.sleep(0.5)
        with origin.lock:
            recs = [dict(r) for r in origin.records]
        for r in recs:
            if r['tag'] and r['tag'] in transcripts:
                transcripts[r['tag']]['upstream_received'] = r['received']
                col = []
                for e in r['events']:
                    # data segmentation on loopback is timing dependent: collapse runs of 'data'
                    if not (col and col[-1] == e == 'data'):
                        col.append(e)
                transcripts[r['tag']]['upstream_events'] = col
        return transcripts


def _c17_diff(a, b):
    for name in sorted(set(a) | set(b)):
        x, y = a.get(name), b.get(name)
        if x != y:
            keys = [k for k in set(x or {}) | set(y or {}) if (x or {}).get(k) != (y or {}).get(k)]
            short = lambda d: {k: ((d or {}).get(k)[:120] if isinstance((d or {}).get(k), bytes) else (d or {}).get(k)) for k in keys}
            return name, keys, short(x), short(y)
    return None


def _c17_extras(rng, origin, corpus, reference, concurrent, attempts, res):
    """configurations where only the remote hand-off differs: more acceptors than workers, a unix-socket listener plus a
    TCP port, a TLS listener whose handshake fails"""
    import tempfile, subprocess, shutil, ssl
    # (1) more acceptors than workers (every acceptor must be able to dispatch its first connection)
    for (acc, w) in ((4, 2), (2, 1)):
        d = None
        for a in range(attempts):
            try:
                t = _c17_run_mode(rng, origin, corpus, 'remote', w, concurrent, acceptors=acc)
            except RuntimeError as e:
                return 'remote executors with %d acceptors / %d workers: %s' % (acc, w, e)
            res['runs'] += 1
            d = _c17_diff(reference, t)
            if d is None:
                break
            res['retries'] += 1
        if d is not None:
            return 'remote executors with %d acceptors / %d workers: conversation %r differs from threaded/1 in %s: %r vs %r' % (acc, w, d[0], d[1], d[2], d[3])
        res['modes'].append('remote/%dacc/%dw' % (acc, w))
    tmp = tempfile.mkdtemp(prefix='verif-c17-')
    try:
        # (2) unix-socket listener AND a TCP port: TCP clients must be served in every mode
        for mode in ('threaded', 'local', 'remote'):
            port = closed_port()
            d = None
            for a in range(attempts):
                try:
                    t = _c17_run_mode(rng, origin, corpus, mode, 2, concurrent,
                                      extra=('--unix-socket-path', os.path.join(tmp, 'p-%s-%d.sock' % (mode, a)), '--ports', str(port)), tcp_port=port)
                except Exception as e:
                    return 'unix socket + TCP port, %s mode: the proxy could not be started / driven: %r' % (mode, e)
                res['runs'] += 1
                d = _c17_diff(reference, t)
                if d is None:
                    break
                res['retries'] += 1
                port = closed_port()
            if d is not None:
                return 'unix-socket listener + TCP port, %s mode: conversation %r differs from threaded/1 in %s: %r vs %r' % (mode, d[0], d[1], d[2], d[3])
            res['modes'].append('%s/unix+port' % mode)
        # (3) TLS listener: a client that talks plain HTTP fails the handshake in initialize(); it must be disconnected in every mode
        key, cert = os.path.join(tmp, 'k.pem'), os.path.join(tmp, 'c.pem')
        rc = subprocess.run(['openssl', 'req', '-x509', '-newkey', 'rsa:2048', '-nodes', '-keyout', key, '-out', cert, '-days', '1',
                             '-subj', '/CN=localhost'], stdout=subprocess.DEVNULL, stderr=subprocess.DEVNULL, timeout=60).returncode
        if rc != 0:
            res.setdefault('notes', []).append('openssl could not create a certificate: TLS handshake-failure run skipped')
            return None
        outcomes = {}
        for mode in ('threaded', 'local', 'remote'):
            with running_proxy(mode, workers=2, extra=('--key-file', key, '--cert-file', cert)) as p:
                time.sleep(0.8)
                per = []
                for k in range(4):
                    try:
                        got, ending = client_exchange(p.flags.port, [b'GET http://%s:%d/canary/1 HTTP/1.1\r\nHost: x\r\n\r\n' % (HOST.encode(), origin.port)], read_timeout=6)
                    except OSError as e:
                        got, ending = b'', 'reset'
                    per.append('disconnected' if ending in ('close', 'reset') else ending)
                # and a real TLS client still works afterwards
                ctx = ssl.create_default_context(); ctx.check_hostname = False; ctx.verify_mode = ssl.CERT_NONE
                try:
                    raw = socket.create_connection((HOST, p.flags.port), timeout=6)
                    tls = ctx.wrap_socket(raw, server_hostname='localhost')
                    tls.sendall(b'GET http://%s:%d/canary/5 HTTP/1.1\r\nHost: x\r\n\r\n' % (HOST.encode(), origin.port))
                    buf = b''
                    tls.settimeout(6)
                    while not buf.endswith(b'canary-5'):
                        d2 = tls.recv(65536)
                        if not d2:
                            break
                        buf += d2
                    tls.close()
                    per.append('tls-ok' if buf.endswith(b'canary-5') else 'tls-bad:%r' % buf[:40])
                except (OSError, ssl.SSLError) as e:
                    per.append('tls-error:%s' % type(e).__name__)
                outcomes[mode] = per
            res['runs'] += 1
        res['tls_handshake_failure'] = outcomes
        if not (outcomes['threaded'] == outcomes['local'] == outcomes['remote']):
            return 'TLS listener, clients failing the handshake: modes differ: %r' % (outcomes,)
        if any(x != 'disconnected' for x in outcomes['remote'][:4]):
            return 'TLS listener: a client whose handshake failed is not disconnected: %r' % (outcomes,)
        res['modes'].append('tls-handshake-failure x3')
    finally:
        shutil.rmtree(tmp, ignore_errors=True)
    return None


def c17_live(rng, workers=(1, 2, 4), concurrent=3, attempts=3):
    """the conversation corpus under --threaded, --threadless --local-executor 1 and --local-executor 0 with 1/2/4
    acceptors/workers and concurrent clients; per-conversation transcripts (bytes the client received and how the
    conversation ended, bytes the origin received, order of data/close events at the origin) must be identical.
    The machine is shared and heavily loaded: a run that differs is repeated (up to `attempts` times) and only a
    persistent difference counts."""
    origin = Origin()
    res = dict(runs=0, conversations=0, failure=None, modes=[], retries=0)
    try:
        corpus = conversation_corpus(origin.port)
        # reference: two consecutive threaded runs that agree
        reference, prev = None, None
        for _ in range(4):
            cur = _c17_run_mode(rng, origin, corpus, 'threaded', 1, concurrent)
            res['runs'] += 1
            if prev is not None and _c17_diff(prev, cur) is None:
                reference = cur
                break
            prev = cur
        if reference is None:
            res['failure'] = 'the thread-per-connection mode does not even agree with itself on two consecutive runs: %r' % (_c17_diff(prev, cur),)
            return res
        res['modes'].append('threaded/1')
        for mode in ('threaded', 'local', 'remote'):
            for w in workers:
                if (mode, w) == ('threaded', 1):
                    continue
                d = None
                for a in range(attempts):
                    t = _c17_run_mode(rng, origin, corpus, mode, w, concurrent)
                    res['runs'] += 1
                    res['conversations'] += len(t)
                    d = _c17_diff(reference, t)
                    if d is None:
                        break
                    res['retries'] += 1
                if d is not None:
                    res['failure'] = 'conversation %r differs between threaded/1 and %s/%d in %s (persistently, %d runs): %r vs %r' % (
                        d[0], mode, w, d[1], attempts, d[2], d[3])
                    return res
                res['modes'].append('%s/%d' % (mode, w))
        extra_failure = _c17_extras(rng, origin, corpus, reference, concurrent, attempts, res)
        if extra_failure:
            res['failure'] = extra_failure
            return res
        res['reference'] = {k: dict(client_len=len(v['client_received']), ending=v['ending'],
                                    upstream_len=len(v.get('upstream_received', b'')), upstream_events=v.get('upstream_events'))
                            for k, v in reference.items()}
    finally:
        origin.close()
    return res
