"""Shared driver for C05 / C10 / C17: runs the REAL Threadless._run_forever (LocalFdExecutor or
RemoteFdExecutor imported from $VERIF_REPO) over a scripted schedule.

What is real: Threadless._run_forever/_run_once/_update_selector/_update_work_events/_selected_events/
_create_tasks/_wait_for_tasks/_cleanup/_cleanup_inactive, ThreadlessFdExecutor.work,
Local/RemoteFdExecutor.receive_from_work_queue, asyncio tasks, selectors.EpollSelector (the
python-level key map of the standard library).
What is faked: the kernel epoll object inside the selector (scripted epoll_ctl failures, scripted
poll results), the work queue contents, socket.dup/socket.socket/os.close/recv_handle in remote mode,
and the works themselves (ScriptedWork: every entry point returns or raises per script).

A schedule is a list of events (dicts):
  kfail:   [fd, ...]           epoll_ctl ADD/MOD on these fds fails (OSError) during this iteration
  ready:   [[fd, mask], ...]   what epoll reports (mask: 1 READ, 2 WRITE, 3 both)
  arrival: None | 'stop' | {work script}   what the work queue yields if asked
  fin:     [work ids]          works whose tasks are complete when asyncio.wait returns
  clock:   int                 virtual time handed to is_inactive
  running_set: bool            Threadless.running.is_set()
The last event of a case is the *epilogue*: only its _update_selector part runs, then the run is cut.
"""
import asyncio, errno, selectors, select, types, queue, sys, os, socket
from unittest import mock
import common as C


class EndOfSchedule(BaseException):
    pass


EXC = {1: ValueError, 2: IndexError, 3: KeyError, 4: AssertionError, 7: TypeError, 200: OSError, 98: RuntimeError}


def make_exc(code):
    if code == 5:
        return UnicodeDecodeError('utf-8', b'\xff', 0, 1, 'invalid start byte')
    if code == 200:
        return OSError(errno.EBADF, 'scripted')
    if code == 201:
        return FileNotFoundError(errno.ENOENT, 'scripted')
    if code == 202:
        return ConnectionResetError(errno.ECONNRESET, 'scripted')
    return EXC.get(code, RuntimeError)('scripted %d' % code)


class FakeEpoll:
    """the kernel side of selectors.EpollSelector"""
    def __init__(self, drv):
        self.drv = drv
        self.reg = {}

    def register(self, fd, events):
        if fd in self.drv.cur_kfail():
            raise OSError(errno.EBADF, 'Bad file descriptor (scripted)')
        self.reg[fd] = events

    def modify(self, fd, events):
        if fd in self.drv.cur_kfail():
            raise FileNotFoundError(errno.ENOENT, 'No such file or directory (scripted)')
        self.reg[fd] = events

    def unregister(self, fd):
        if fd not in self.reg:
            raise OSError(errno.ENOENT, 'not registered in the kernel')
        del self.reg[fd]

    def poll(self, timeout=None, maxev=None):
        return self.drv.on_select()

    def close(self):
        pass

    def fileno(self):
        return 3


class FakeSelector(selectors.EpollSelector):
    def __init__(self, drv):
        selectors._BaseSelectorImpl.__init__(self)
        self._selector = FakeEpoll(drv)


class FakeConn:
    """stands for the accepted client socket handed to the executor"""
    def __init__(self, wid, script):
        self.wid = wid
        self.script = script
        self.closed = False

    def fileno(self):
        return self.wid

    def close(self):
        self.closed = True


def make_work_klass(drv):
    from proxy.core.work import Work

    class ScriptedWork(Work):
        @staticmethod
        def create(conn, addr):
            return conn

        def __init__(self, *a, **kw):
            super().__init__(*a, **kw)
            sc = self.work.script
            self.wid = self.work.wid
            self.s_init = sc.get('init')
            self.s_get = list(sc.get('get', []))
            self.s_handle = list(sc.get('handle', []))
            self.s_shutdown = sc.get('shutdown')
            self.s_inactive = list(sc.get('inactive', []))
            self.log = []
            drv.objects.append(self)

        def initialize(self):
            self.log.append(['init'])
            if self.s_init is not None:
                raise make_exc(self.s_init)

        async def get_events(self):
            self.log.append(['get'])
            if not self.s_get:
                return {}
            x = self.s_get.pop(0)
            if 'raise' in x:
                raise make_exc(x['raise'])
            return {fd: m for fd, m in x['ev']}

        def handle_events(self, r, w):
            coro = self._handle(list(r), list(w))
            drv.coro_seq[id(coro)] = (len(drv.coro_seq), self.wid, list(r), list(w))
            drv.coros.append(coro)
            return coro

        async def _handle(self, r, w):
            while self.wid not in drv.cur_fin():
                await drv.gate()
            self.log.append(['handle', r, w])
            if not self.s_handle:
                return False
            x = self.s_handle.pop(0)
            if 'raise' in x:
                raise make_exc(x['raise'])
            return bool(x['ret'])

        def is_inactive(self):
            self.log.append(['inactive', drv.cur_clock()])
            if not self.s_inactive:
                return False
            x = self.s_inactive.pop(0)
            if 'raise' in x:
                raise make_exc(x['raise'])
            return bool(x['ret'])

        def shutdown(self):
            self.log.append(['shutdown'])
            drv.gone.append(self)
            if self.s_shutdown is not None:
                raise make_exc(self.s_shutdown)
            super().shutdown()

    return ScriptedWork


WQ_FD = 5          # descriptor number of the work-queue pipe in remote mode


class Driver:
    def __init__(self, case):
        self.case = case
        self.events = case['events']
        self.remote = bool(case.get('remote'))
        self.k = -1                 # index of the current iteration
        self.snaps = []
        self.objects = []
        self.gone = []
        self.gates = []
        self.coros = []
        self.coro_seq = {}
        self.oslog = []
        self.ex = None

    # -- what the scripted pieces ask
    def cur(self):
        return self.events[self.k] if 0 <= self.k < len(self.events) else {}

    def cur_kfail(self):
        return set(self.cur().get('kfail', []))

    def cur_fin(self):
        return set(self.cur().get('fin', []))

    def cur_clock(self):
        return self.cur().get('clock', 0)

    def gate(self):
        f = self.ex.loop.create_future()
        self.gates.append(f)
        return f

    # -- observation
    def snapshot(self):
        ex = self.ex
        unf = []
        for t in ex.unfinished:
            seq = self.coro_seq[id(t.get_coro())]
            unf.append(seq)
        unf.sort()
        return dict(
            works=list(ex.works.keys()),
            registered=[[wid, [[fd, m] for fd, m in d.items()]] for wid, d in ex.registered_events_by_work_ids.items()],
            sel=[[fd, key.events, key.data] for fd, key in ex.selector._fd_to_key.items()],
            unfinished=[[wid, r, w] for (_, wid, r, w) in unf],
        )

    def on_select(self):
        """FakeEpoll.poll: called exactly once per iteration, right after _update_selector"""
        self.snaps.append(self.snapshot())
        if self.k == len(self.events) - 1:
            raise EndOfSchedule()
        ev = self.cur()
        # the environment acts: resolve the gates of tasks due to complete, feed the work queue
        for g in self.gates:
            if not g.done():
                g.set_result(None)
        self.gates = [g for g in self.gates if not g.done()]
        arr = ev.get('arrival')
        if arr == 'stop':
            self.put_stop()
        elif arr:
            self.put_work(arr)
        self.ex.running.clear()
        if ev.get('running_set'):
            self.ex.running.set()
        out = []
        for fd, m in ev.get('ready', []):
            out.append((fd, (select.EPOLLIN if m & 1 else 0) | (select.EPOLLOUT if m & 2 else 0)))
        return out

    # -- work queue
    def put_stop(self):
        assert not self.remote
        self.ex.work_queue.put(False)

    def put_work(self, w):
        conn = FakeConn(w['id'], w)
        if self.remote:
            self.ex.work_queue.items.append(conn)
        else:
            self.ex.work_queue.put((conn, ('1.2.3.4', 5555)))

    def run(self):
        from proxy.common.flag import FlagParser
        from proxy.core.work.fd import LocalFdExecutor, RemoteFdExecutor
        from proxy.common.backports import NonBlockingQueue
        import proxy.core.work.threadless as TL
        import proxy.core.work.fd.fd as FD
        import proxy.core.work.fd.remote as RM
        klass = make_work_klass(self)
        flags = get_flags()
        flags.work_klass = klass
        drv = self
        patches = []
        if self.remote:
            class FakePipe:
                def __init__(self):
                    self.items = []
                    self.pending = None
                def fileno(self):
                    return WQ_FD
                def recv(self):
                    if not self.items:
                        raise AssertionError('harness: recv on an empty work queue would block')
                    self.pending = self.items.pop(0)
                    return ('1.2.3.4', 5555)
                def close(self):
                    pass
            pipe = FakePipe()

            def recv_handle(conn):
                return conn.pending.wid
            sockshim = types.SimpleNamespace(**{k: getattr(socket, k) for k in dir(socket) if not k.startswith('__')})
            def dup(fd):
                drv.oslog.append(['dup', fd])
                return fd + 100000
            def mksock(fileno=None, **kw):
                return FakeConn(fileno - 100000, pipe.pending.script)
            sockshim.dup = dup
            sockshim.socket = mksock
            osshim = types.SimpleNamespace(**{k: getattr(os, k) for k in dir(os) if not k.startswith('__')})
            def osclose(fd):
                drv.oslog.append(['close', fd])
            osshim.close = osclose
            patches = [mock.patch.object(RM, 'recv_handle', recv_handle), mock.patch.object(FD, 'socket', sockshim),
                       mock.patch.object(TL, 'os', osshim)]
            ex = RemoteFdExecutor(iid='1', work_queue=pipe, flags=flags)
        else:
            ex = LocalFdExecutor(iid='1', work_queue=NonBlockingQueue(), flags=flags)
        if self.case.get('asfound'):
            # validate Exec/ThreadlessOld.v: the three methods touched by the repair, as found
            old = asfound_threadless()
            for name in ('_update_selector', '_cleanup', '_cleanup_inactive'):
                setattr(ex, name, types.MethodType(getattr(old.Threadless, name), ex))
            if self.remote:
                patches.append(mock.patch.object(old, 'os', osshim))
        self.ex = ex
        ex._loop = asyncio.new_event_loop()
        ex.selector = FakeSelector(self)
        if self.remote:
            ex.selector.register(WQ_FD, selectors.EVENT_READ, data=WQ_FD)     # what Threadless.run does
        ex.wait_timeout = 0.001
        tl = self.case.get('tick_limit')
        if tl is not None:
            # make the inactive sweep happen every `tick_limit` iterations
            ex.cleanup_inactive_timeout = tl * (TL.DEFAULT_SELECTOR_SELECT_TIMEOUT + ex.wait_timeout) - 1e-9
        # iteration counter: advanced each time _run_once starts
        orig = ex._run_once
        async def counted():
            drv.k += 1
            return await orig()
        ex._run_once = counted
        # `for task in await self._wait_for_tasks()` iterates a Python set (arbitrary order); the harness hands the
        # finished tasks over in creation order, which is the order the model uses
        orig_wait = ex._wait_for_tasks
        async def ordered_wait():
            fin = await orig_wait()
            return sorted(fin, key=lambda t: drv.coro_seq[id(t.get_coro())][0])
        ex._wait_for_tasks = ordered_wait
        for p in patches:
            p.start()
        status = None
        logging_disabled = __import__('logging').disable(__import__('logging').CRITICAL)
        try:
            try:
                ex.loop.run_until_complete(ex._run_forever())
                status = ['stopped']
            except EndOfSchedule:
                status = ['running']
            except Exception as e:
                status = ['crashed', C.exn_code(e), repr(e)[:120]]
            final = self.snapshot()
        finally:
            __import__('logging').disable(0)
            for p in patches:
                p.stop()
            for t in list(ex.unfinished):
                t.cancel()
            try:
                ex.loop.run_until_complete(asyncio.sleep(0))
            except BaseException:
                pass
            for c in self.coros:
                c.close()
            ex.loop.close()
        live = [[o.wid, o.log] for wid in ex.works for o in [ex.works[wid]]]
        gone = [[o.wid, o.log] for o in self.gone if ex.works.get(o.wid) is not o]
        return dict(snaps=self.snaps, final=final, status=status, live=live, gone=gone, oslog=self.oslog,
                    total=ex._total)


_FLAGS = None
def get_flags():
    global _FLAGS
    if _FLAGS is None:
        import logging
        from proxy.common.flag import FlagParser
        logging.disable(logging.CRITICAL)
        try:
            _FLAGS = FlagParser.initialize(threadless=True)
        finally:
            logging.disable(0)
    return _FLAGS


_ASFOUND = None
def asfound_threadless():
    """proxy/core/work/threadless.py as it was before the C05 repair (saved copy), loaded as a sibling module"""
    global _ASFOUND
    if _ASFOUND is None:
        import importlib.util
        src = (C.VERIF / 'harness' / 'props' / 'asfound_threadless.py.txt').read_text()
        spec = importlib.util.spec_from_loader('proxy.core.work._asfound_threadless', loader=None)
        mod = importlib.util.module_from_spec(spec)
        mod.__package__ = 'proxy.core.work'
        exec(compile(src, 'asfound_threadless.py', 'exec'), mod.__dict__)
        _ASFOUND = mod
    return _ASFOUND


def run_schedule(case):
    return Driver(case).run()


def real_tick_limit():
    """least tick with tick * (DEFAULT_SELECTOR_SELECT_TIMEOUT + DEFAULT_WAIT_FOR_TASKS_TIMEOUT) >= DEFAULT_INACTIVE_CONN_CLEANUP_TIMEOUT,
    computed with the constants of the tree under test and Python float arithmetic, as the code does"""
    from proxy.common.constants import (DEFAULT_SELECTOR_SELECT_TIMEOUT, DEFAULT_WAIT_FOR_TASKS_TIMEOUT,
                                        DEFAULT_INACTIVE_CONN_CLEANUP_TIMEOUT)
    t = 0
    while not (t * (DEFAULT_SELECTOR_SELECT_TIMEOUT + DEFAULT_WAIT_FOR_TASKS_TIMEOUT) >= DEFAULT_INACTIVE_CONN_CLEANUP_TIMEOUT):
        t += 1
    return t


# ----------------------------------------------------------------------------- Coq terms
def coq_Zs(l):
    return C.coq_list(C.coq_Z(x) + '%Z' for x in l)

def coq_fdmasks(l):
    return C.coq_list('(%s%%Z, %d)' % (C.coq_Z(fd), m) for fd, m in l)

def coq_outcome_events(x):
    if 'raise' in x:
        return '(inr %d)' % x['raise']
    return '(inl %s)' % coq_fdmasks(x['ev'])

def coq_outcome_bool(x):
    if 'raise' in x:
        return '(inr %d)' % x['raise']
    return '(inl %s)' % C.coq_bool(x['ret'])

def coq_swork(w):
    return 'mk_swork %s %s %s %s %s' % (
        C.coq_option(C.coq_N, w.get('init')),
        C.coq_list(coq_outcome_events(x) for x in w.get('get', [])),
        C.coq_list(coq_outcome_bool(x) for x in w.get('handle', [])),
        C.coq_option(C.coq_N, w.get('shutdown')),
        C.coq_list(coq_outcome_bool(x) for x in w.get('inactive', [])))

def coq_event(ev):
    arr = ev.get('arrival')
    if arr == 'stop':
        a = 'AStop'
    elif arr:
        a = '(ANew %s%%Z (%s))' % (C.coq_Z(arr['id']), coq_swork(arr))
    else:
        a = 'ANone'
    return 'mk_event %s %s %s %s %d %s' % (
        C.coq_list('(%s%%Z, 0)' % C.coq_Z(fd) for fd in ev.get('kfail', [])),
        coq_fdmasks(ev.get('ready', [])), a, coq_Zs(ev.get('fin', [])), ev.get('clock', 0),
        C.coq_bool(ev.get('running_set', False)))

def coq_call(c):
    if c[0] == 'init': return 'CInit'
    if c[0] == 'get': return 'CGet'
    if c[0] == 'handle': return '(CHandle %s %s)' % (coq_Zs(c[1]), coq_Zs(c[2]))
    if c[0] == 'shutdown': return 'CShutdown'
    if c[0] == 'inactive': return '(CInactive %d)' % c[1]
    raise ValueError(c)

def coq_snap(s):
    return '(mk_snap %s %s %s %s)' % (
        coq_Zs(s['works']),
        C.coq_list('(%s%%Z, %s)' % (C.coq_Z(wid), coq_fdmasks(d)) for wid, d in s['registered']),
        C.coq_list('(%s%%Z, (%d, %s%%Z))' % (C.coq_Z(fd), m, C.coq_Z(data)) for fd, m, data in s['sel']),
        C.coq_list('(%s%%Z, %s, %s)' % (C.coq_Z(wid), coq_Zs(r), coq_Zs(w)) for wid, r, w in s['unfinished']))

def coq_logs(l):
    return C.coq_list('(%s%%Z, %s)' % (C.coq_Z(wid), C.coq_list(coq_call(c) for c in log)) for wid, log in l)

def coq_status(st):
    if st[0] == 'running': return 0
    if st[0] == 'stopped': return 1
    return 1000 + st[1]

def coq_oslog(l):
    return C.coq_list(('(OsDup %s%%Z)' if op == 'dup' else '(OsClose %s%%Z)') % C.coq_Z(fd) for op, fd in l)

def coq_xcase(case, out, old=False):
    return '%s %s %d %s (mk_expected %s %s %d %s %s %s %d)' % (
        'XOld' if old else 'XNew',
        '(Some %d%%Z)' % WQ_FD if case.get('remote') else 'None',
        case['tick_limit'],
        C.coq_list(coq_event(e) for e in case['events']),
        C.coq_list(coq_snap(s) for s in out['snaps']), coq_snap(out['final']), coq_status(out['status']),
        coq_logs(out['live']), coq_logs(out['gone']), coq_oslog(out['oslog']), out['total'])


# ----------------------------------------------------------------------------- schedule generator
def own_fds(wid):
    """descriptor numbers a well-behaved work with this id may report: its client fd and two upstreams"""
    return [wid, wid * 10 + 1, wid * 10 + 2]


def gen_script(rng, wid, adversarial, foreign=()):
    fds = own_fds(wid)
    def ev():
        k = rng.choice([1, 1, 1, 2, 2, 3, 0])
        chosen = [fds[0]] + rng.sample(fds[1:], min(k, 2) - 1 if k >= 2 else 0) if k else []
        if k == 3:
            chosen = list(fds)
        out = [[f, rng.choice([1, 1, 2, 3])] for f in chosen]
        if adversarial and rng.random() < 0.25:
            r = rng.random()
            if r < 0.3: out.append([-1, 1])                               # closed socket: fileno() == -1
            elif r < 0.5: out.append([wid * 10 + 3, rng.choice([0, 4])])                  # invalid event mask
            elif r < 0.7 and foreign: out.append([rng.choice(list(foreign)), rng.choice([1, 2, 3])])
            elif r < 0.85: out[0:1] = [[out[0][0], 0]] if out else []
            else: out.append([-7, 1])
        seen, res = set(), []
        for f, m in out:
            if f not in seen:
                seen.add(f); res.append([f, m])
        return res
    n = rng.randrange(1, 8)
    p_raise = 0.2 if adversarial else 0.0
    get = [({'raise': rng.choice([1, 3, 5, 200])} if rng.random() < p_raise else {'ev': ev()}) for _ in range(n)]
    handle = []
    for _ in range(rng.randrange(0, 6)):
        r = rng.random()
        if r < p_raise: handle.append({'raise': rng.choice([1, 3, 5, 200, 202])})
        elif r < p_raise + 0.25: handle.append({'ret': True})
        else: handle.append({'ret': False})
    inactive = []
    for _ in range(rng.randrange(0, 4)):
        r = rng.random()
        if r < p_raise: inactive.append({'raise': rng.choice([1, 4, 200])})
        else: inactive.append({'ret': rng.random() < 0.3})
    w = dict(id=wid, get=get, handle=handle, inactive=inactive)
    if adversarial and rng.random() < 0.3:
        w['shutdown'] = rng.choice([5, 1, 3, 200])
    if adversarial and rng.random() < 0.12:
        w['init'] = rng.choice([1, 200, 4])
    return w


def gen_schedule(rng, n_works=None, n_iter=None, remote=None, adversarial_frac=0.4, suspend=True, collide=True,
                 tick_limit=None):
    n_works = n_works if n_works is not None else rng.randrange(1, 5)
    n_iter = n_iter if n_iter is not None else (rng.randrange(3, 13) if rng.random() < 0.65 else rng.randrange(13, 31))
    remote = rng.random() < 0.3 if remote is None else remote
    ids = rng.sample(range(11, 40), n_works)
    arrive_at = sorted(rng.randrange(0, max(1, n_iter - 1)) for _ in ids)
    arr = {}
    used = set()
    for wid, k in zip(ids, arrive_at):
        while k in used:
            k += 1
        used.add(k); arr[k] = wid
    n_iter = max(n_iter, (max(used) + 2) if used else n_iter)
    adv = {wid: rng.random() < adversarial_frac for wid in ids}
    events, arrived = [], []
    for k in range(n_iter):
        ev = {}
        if k in arr:
            wid = arr[k]
            foreign = [f for o in ids if o != wid for f in own_fds(o)] if collide else []
            ev['arrival'] = gen_script(rng, wid, adv[wid], foreign)
        pool = [f for wid in arrived for f in own_fds(wid)]
        ready = []
        if pool:
            for f in rng.sample(pool, rng.randrange(0, min(len(pool), 5) + 1)):
                ready.append([f, rng.choice([1, 2, 3, 1])])
            if rng.random() < 0.05:
                ready.append([rng.randrange(900, 905), 1])          # an fd nobody registered: filtered by selectors
        if remote and 'arrival' in ev:
            ready.insert(rng.randrange(0, len(ready) + 1), [WQ_FD, 1])
        ev['ready'] = ready
        live_ids = list(arrived)
        if suspend and rng.random() < 0.15 and live_ids:
            drop = rng.choice(live_ids)
            ev['fin'] = [i for i in ids if i != drop]
        else:
            ev['fin'] = list(ids)
        if rng.random() < 0.08 and pool:
            ev['kfail'] = rng.sample(pool, rng.randrange(1, min(3, len(pool)) + 1))
        ev['clock'] = 100 + k * 3
        if rng.random() < 0.03:
            ev['running_set'] = True
        if not remote and rng.random() < 0.02 and 'arrival' not in ev:
            ev['arrival'] = 'stop'
        events.append(ev)
        if k in arr:
            arrived.append(arr[k])
    events.append({'kfail': [], 'ready': [], 'fin': list(ids), 'clock': 100 + n_iter * 3})     # epilogue
    return dict(kind='sched', remote=remote, tick_limit=tick_limit if tick_limit is not None else rng.choice([0, 1, 2, 3, 5, 8, 39]),
                events=events, ids=ids, adversarial=[w for w in ids if adv[w]])


# ============================================================================= real HttpProtocolHandler works
# (part ii of the correspondence): the REAL executor loop multiplexing REAL HttpProtocolHandler works
# over fake sockets (harness/sim.py FakeSock) with a fake kernel epoll.
import sim as SIM


class TSock(SIM.FakeSock):
    """FakeSock that also records, per conversation, the order of data and close events.
    With a `world` it behaves more like a kernel socket:
      * its descriptor NUMBER comes from the world's allocator (lowest free number, freed again by close()), so numbers
        are recycled exactly as a kernel recycles them;
      * close() makes the (fake) kernel epoll forget it, the python-level selector key stays behind (as in reality);
      * a socket left in blocking / timeout mode (new_socket_connection leaves its sockets in settimeout() mode) that is
        asked to send again without a new write-readiness report, or when its script says would-block, BLOCKS: a
        'blocked' event is recorded and TimeoutError raised, as the real socket would after its timeout;
      * `never_writable`: the peer does not read: never reported writable, send() would block."""
    def __init__(self, name, conv, world=None, timeout_mode=False):
        super().__init__(name)
        self.conv = conv
        self.on_send = None
        self.world = world
        self.timeout_mode = timeout_mode       # True: blocking with a timeout (not non-blocking)
        self.blocking = True
        self.grants = 0                        # sends allowed before the next readiness report
        self.never_writable = False
        if world is not None:
            self.fd = world.alloc_fd(self)

    def setblocking(self, b):
        self.blocking = bool(b)
        self.timeout_mode = False if not b else self.timeout_mode

    def settimeout(self, t):
        if t is None:
            self.blocking, self.timeout_mode = True, False
        elif t == 0:
            self.blocking, self.timeout_mode = False, False
        else:
            self.blocking, self.timeout_mode = True, True

    def would_block_forever(self):
        return self.never_writable and not self.send_script

    def recv(self, n):
        try:
            data = super().recv(n)
        except BlockingIOError:
            raise
        except BaseException as e:
            self.conv['events'].append([self.name, 'recv_err', type(e).__name__])
            raise
        self.conv['events'].append([self.name, 'recv', len(data)])
        return data

    def send(self, data):
        if self.world is not None and not self.closed:
            stuck = self.would_block_forever()
            if self.blocking and (self.grants <= 0 or stuck):
                # a blocking send that the kernel cannot satisfy now: the executor thread sleeps in send()
                self.conv['events'].append([self.name, 'blocked', len(bytes(data))])
                self.world.blocked.append('%s.%s' % (self.conv.get('name'), self.name))
                raise TimeoutError(errno.ETIMEDOUT, 'timed out (the call blocked the executor)')
            self.grants -= 1
            if self.would_block_forever():
                self.conv['events'].append([self.name, 'send_err', 'BlockingIOError'])
                raise BlockingIOError(errno.EAGAIN, 'would block')
        try:
            k = super().send(data)
        except BlockingIOError:
            raise
        except BaseException as e:
            self.conv['events'].append([self.name, 'send_err', type(e).__name__])
            raise
        self.conv['events'].append([self.name, 'send', k])
        if self.on_send:
            self.on_send(self)
        return k

    def close(self):
        if not self.closed:
            self.conv['events'].append([self.name, 'close'])
            if self.world is not None:
                self.world.free_fd(self)
        super().close()

    def shutdown(self, how):
        super().shutdown(how)
        self.conv['events'].append([self.name, 'shutdown'])


def _io_item(x):
    """script item -> what FakeSock.feed expects"""
    if x == 'EOF':
        return SIM.EOF
    if isinstance(x, str):
        return SIM.io_error(x)
    return x


class HttpWorld:
    """convs: list of dicts
         name, arrive (iteration), client: [bytes | 'EOF' | 'reset' | 'timeout' ...] fed one item per iteration once the
         previous one was consumed, client_send: [int | 'pipe' | 'oserror' ...] outcomes of the proxy's send() to the client,
         upstreams: per connect attempt {connect: None | 'refused' | 'gaierror' | 'timeout' | 'unreach',
                                         respond: [bytes | 'EOF' | 'reset'], send: [...]}   (responds once a full request head was received)
       opts: flags for FlagParser.initialize"""

    def __init__(self, convs, opts=None, asfound=False, max_iter=600):
        self.convs = [dict(c) for c in convs]
        self.opts = dict(opts or {})
        self.asfound = asfound
        self.max_iter = max_iter
        self.k = -1
        self.idle = 0
        self.by_fd = {}
        self.by_host = {}
        self.blocked = []            # blocking socket calls made inside the worker loop
        self.stalled = None          # the worker did not come back from a call
        self.fd_base = 20

    # ---- fake kernel
    def cur_kfail(self):
        return ()

    def alloc_fd(self, sock):
        """lowest free descriptor number, like the kernel"""
        n = self.fd_base
        while n in self.by_fd:
            n += 1
        self.by_fd[n] = sock
        return n

    def free_fd(self, sock):
        if self.by_fd.get(sock.fd) is sock:
            del self.by_fd[sock.fd]
        # the kernel's epoll forgets a closed descriptor; the python-level selector key stays behind
        try:
            self.ex.selector._selector.reg.pop(sock.fd, None)
        except AttributeError:
            pass

    def temp_selector(self):
        """selectors.DefaultSelector() created by handler code itself (e.g. a flush with a private selector)"""
        world = self
        class _Drv:
            polls = 0
            def cur_kfail(self):
                return ()
            def on_select(self):
                out = []
                for fd, ev in list(sel._selector.reg.items()):
                    s = world.by_fd.get(fd)
                    if s is None or s.closed:
                        continue
                    m = 0
                    if ev & select.EPOLLIN and s.readable():
                        m |= select.EPOLLIN
                    if ev & select.EPOLLOUT and not s.would_block_forever():
                        m |= select.EPOLLOUT
                        s.grants = 1
                    if m:
                        out.append((fd, m))
                self.polls = 0 if out else self.polls + 1
                if self.polls > 300:
                    world.stalled = 'a handler call made on the worker loop keeps waiting on its own selector (no other connection is served meanwhile)'
                    raise EndOfSchedule()
                return out
        sel = FakeSelector(_Drv())
        return sel

    def on_select(self):
        ex = self.ex
        progressed = False
        # arrivals
        for c in self.convs:
            if c['state'] == 'waiting' and c['arrive'] <= self.k:
                sock = TSock('client', c, world=self)
                sock.never_writable = bool(c.get('client_never_reads'))
                c['client_sock'] = sock
                for x in c.get('client_send', []):
                    sock.script_send(_io_item(x) if isinstance(x, str) else x)
                c['state'] = 'live'
                c['feed'] = list(c.get('client', []))
                ex.work_queue.put((sock, ('10.1.1.%d' % (len(self.by_fd) % 250), 40000)))
                progressed = True
                break           # one arrival per iteration (the queue is polled once per iteration)
        # client input: next item once the previous one was consumed
        for c in self.convs:
            if c['state'] == 'live' and c['feed'] and not c['client_sock'].inq and not c['client_sock'].closed:
                nxt = c['feed'][0]
                if isinstance(nxt, (list, tuple)) and len(nxt) == 3 and nxt[0] == 'at':
                    # ('at', k, item): not before iteration k (lets earlier output pile up first)
                    if self.k < c['arrive'] + nxt[1]:
                        progressed = True
                        continue
                    c['feed'][0] = nxt[2]
                c['client_sock'].feed(_io_item(c['feed'].pop(0)))
                progressed = True
        out = []
        for fd, ev in list(ex.selector._selector.reg.items()):
            s = self.by_fd.get(fd)
            if s is None or s.closed:
                continue
            m = 0
            if ev & select.EPOLLIN and s.readable():
                m |= select.EPOLLIN
            if ev & select.EPOLLOUT and not s.would_block_forever():
                m |= select.EPOLLOUT
                s.grants = 1
            if m:
                out.append((fd, m))
        if out or progressed or any(c['state'] == 'waiting' for c in self.convs):
            self.idle = 0
        else:
            self.idle += 1
        if self.idle >= 3 or self.k >= self.max_iter:
            raise EndOfSchedule()
        return out

    # ---- patched upstream connect
    def connect(self, addr, timeout=None, source_address=None):
        host = addr[0]
        c = self.by_host.get(host)
        if c is None:
            raise ConnectionRefusedError(errno.ECONNREFUSED, 'no such fake host %r' % (host,))
        n = len(c['upstream_socks']) + c['connect_failures']
        spec = c.get('upstreams', [{}])
        spec = spec[min(n, len(spec) - 1)] if spec else {}
        c['events'].append(['up%d' % n, 'connect', '%s:%s' % (addr[0], addr[1])])
        if spec.get('connect'):
            c['connect_failures'] += 1
            raise SIM.io_error(spec['connect'])
        s = TSock('up%d' % n, c, world=self, timeout_mode=True)      # new_socket_connection: settimeout(timeout)
        s.never_writable = bool(spec.get('never_reads'))
        for x in spec.get('send', []):
            s.script_send(_io_item(x) if isinstance(x, str) else x)
        resp = [_io_item(x) for x in spec.get('respond', [])]
        trigger = spec.get('after', b'\r\n\r\n')
        def on_send(sock, resp=resp, trigger=trigger):
            if resp and trigger in sock.out:
                sock.feed(*resp)
                del resp[:]
        s.on_send = on_send
        if trigger == b'' and resp:
            s.feed(*resp); del resp[:]
        c['upstream_socks'].append(s)
        return s

    def run(self):
        import logging
        from proxy.common.flag import FlagParser
        from proxy.core.work.fd import LocalFdExecutor
        from proxy.common.backports import NonBlockingQueue
        opts = dict(self.opts)
        opts.setdefault('threadless', True)
        logging.disable(logging.CRITICAL)
        patches = []
        try:
            key = repr(sorted(opts.items(), key=lambda kv: kv[0]))
            flags = _HTTP_FLAGS.get(key)
            if flags is None:
                args = opts.pop('args', None)
                flags = _HTTP_FLAGS[key] = FlagParser.initialize(args, **opts)
                _HTTP_FLAGS_SNAP[key] = flags_snapshot(flags)
            self._flags_key, self._flags = key, flags
            for c in self.convs:
                c.update(state='waiting', events=[], upstream_socks=[], connect_failures=0)
                for h in c.get('hosts', []):
                    self.by_host[h] = c
            for target in ('proxy.core.connection.server.new_socket_connection',
                           'proxy.core.base.tcp_upstream.new_socket_connection'):
                try:
                    p = mock.patch(target, self.connect); p.start(); patches.append(p)
                except (AttributeError, ModuleNotFoundError):
                    pass
            import selectors as _selectors
            shim = types.SimpleNamespace(**{k: getattr(_selectors, k) for k in dir(_selectors) if not k.startswith('__')})
            shim.DefaultSelector = self.temp_selector          # selectors created by handler code see the fake kernel too
            p = mock.patch('proxy.http.handler.selectors', shim); p.start(); patches.append(p)
            ex = LocalFdExecutor(iid='1', work_queue=NonBlockingQueue(), flags=flags)
            if self.asfound:
                old = asfound_threadless()
                for name in ('_update_selector', '_cleanup', '_cleanup_inactive'):
                    setattr(ex, name, types.MethodType(getattr(old.Threadless, name), ex))
            self.ex = ex
            ex._loop = asyncio.new_event_loop()
            ex.selector = FakeSelector(self)
            orig = ex._run_once
            world = self
            async def counted():
                world.k += 1
                return await orig()
            ex._run_once = counted
            try:
                ex.loop.run_until_complete(ex._run_forever())
                status = ['stopped']
            except EndOfSchedule:
                status = ['running']
            except Exception as e:
                status = ['crashed', C.exn_code(e), repr(e)[:160]]
            leftover = dict(works=len(ex.works), registered=len(ex.registered_events_by_work_ids),
                            sel=len(ex.selector._fd_to_key), unfinished=len(ex.unfinished))
            for t in list(ex.unfinished):
                t.cancel()
            try:
                ex.loop.run_until_complete(asyncio.sleep(0))
            except BaseException:
                pass
            ex.loop.close()
        finally:
            for p in patches:
                p.stop()
            logging.disable(0)
        res = {}
        for c in self.convs:
            cs = c.get('client_sock')
            res[c['name']] = dict(
                arrived=cs is not None,
                client_out=cs.out if cs else b'',
                client_closed=bool(cs and cs.closed),
                client_close_count=cs.close_count if cs else 0,
                upstream_out=[s.out for s in c['upstream_socks']],
                upstream_closed=[s.closed for s in c['upstream_socks']],
                upstream_close_count=[s.close_count for s in c['upstream_socks']],
                connect_failures=c['connect_failures'],
                events=c['events'],
                unfed=len(c.get('feed', [])) if cs else None,
            )
        # the flags object (and the module-level defaults it points to) is shared by every connection of the worker: a
        # connection that changes it changes how every other connection is served (round-3 seed C05-r3-2)
        changed = []
        snap0, snap1 = _HTTP_FLAGS_SNAP.get(self._flags_key), flags_snapshot(self._flags)
        if snap0 is not None and snap0 != snap1:
            changed = sorted(k for k in set(snap0) | set(snap1) if snap0.get(k) != snap1.get(k))
            _HTTP_FLAGS.pop(self._flags_key, None)          # start the next run from a fresh configuration
            _HTTP_FLAGS_SNAP.pop(self._flags_key, None)
            try:
                import importlib, proxy.common.constants as _k
                for name, val in _DEFAULTS_SNAP.items():
                    cur = getattr(_k, name, None)
                    if isinstance(cur, list) and cur != val:
                        cur[:] = val                       # undo in-place damage to module-level default lists
            except Exception:
                pass
        return dict(status=status, iterations=self.k, leftover=leftover, convs=res, stalled=self.stalled, blocked=self.blocked,
                    flags_changed=changed)


def flags_snapshot(flags):
    """plain-data view of the worker's shared configuration (lists / dicts / scalars of the flags namespace)"""
    import copy
    out = {}
    for k, v in vars(flags).items():
        if isinstance(v, (list, tuple, dict, set, str, bytes, int, float, bool, type(None))):
            try:
                out[k] = copy.deepcopy(v) if not isinstance(v, (list, tuple)) else [repr(x) if not isinstance(x, (str, bytes, int, float, bool, type(None))) else x for x in v]
            except Exception:
                out[k] = repr(v)
    return out


def _defaults_snapshot():
    import copy
    try:
        import proxy.common.constants as _k
        return {n: list(v) for n, v in vars(_k).items() if n.startswith('DEFAULT_') and isinstance(v, list)}
    except Exception:
        return {}


_DEFAULTS_SNAP = _defaults_snapshot()
_HTTP_FLAGS_SNAP = {}
_HTTP_FLAGS = {}
